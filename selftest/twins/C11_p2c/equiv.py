# coding: utf-8
"""Differential test for the C11 refactorings.

Exercises the pattern matcher, the structured records of every kit, and the
assembly manager on a few hundred generated inputs and prints a digest of
every result / exception / warning / input state.  The digest must be the
same on the pristine tree and with clean.diff applied.
"""
from __future__ import print_function

import hashlib
import random
import re
import sys
import warnings

sys.path.insert(0, "/tmp/agents5/C11")
warnings.simplefilter("ignore")
import tests  # noqa: E402,F401

from Bio.Restriction import BsaI, BbsI, BsmBI, BpiI, BtsI, SapI  # noqa: E402
from Bio.Seq import Seq  # noqa: E402
from Bio.SeqFeature import SeqFeature, FeatureLocation, Reference  # noqa: E402
from Bio.SeqRecord import SeqRecord  # noqa: E402

from moclo import errors  # noqa: E402
from moclo.core import modules, vectors, parts  # noqa: E402
from moclo.core._structured import StructuredRecord  # noqa: E402
from moclo.record import CircularRecord  # noqa: E402
from moclo.regex import DNARegex  # noqa: E402
from moclo.kits import cidar, ecoflex, ytk, plant  # noqa: E402
from moclo.kits import moclo as mkit  # noqa: E402

LOG = []
SECTIONS = {}
_section = [None]


def section(name):
    _section[0] = name
    SECTIONS[name] = hashlib.sha256()


def log(*items):
    line = " | ".join(str(i) for i in items)
    LOG.append(line)
    SECTIONS[_section[0]].update(line.encode("utf-8") + b"\n")


# --- describing things --------------------------------------------------------

def describe_ref(ref):
    if isinstance(ref, Reference):
        return "Ref({!r},{!r})".format(ref.title, ref.authors)
    return repr(ref)


def describe(rec):
    if rec is None:
        return "None"
    if isinstance(rec, Seq):
        return "Seq:" + str(rec)
    ants = []
    for k in sorted(rec.annotations):
        v = rec.annotations[k]
        if k == "references":
            v = [describe_ref(r) for r in v]
        ants.append("{}={!r}".format(k, v))
    feats = []
    for f in rec.features:
        quals = []
        for k in sorted(f.qualifiers):
            v = f.qualifiers[k]
            if k == "citation":
                v = [describe_ref(r) for r in v]
            quals.append("{}={!r}".format(k, v))
        feats.append("{}@{}[{}]".format(f.type, f.location, ";".join(quals)))
    return "{}:{}:{}:{}:{}:{{{}}}:<{}>".format(
        type(rec).__name__, rec.id, rec.name, rec.description, str(rec.seq), ",".join(ants), ",".join(feats)
    )


def attempt(func, *args, **kwargs):
    """Run func and describe result / exception / warnings."""
    with warnings.catch_warnings(record=True) as caught:
        warnings.simplefilter("always")
        try:
            res = func(*args, **kwargs)
        except Exception as err:  # noqa
            out = "EXC {}: {}".format(type(err).__name__, err)
            out = re.sub(r" at 0x[0-9a-fA-F]+", " at 0x", out)  # object addresses
            res = None
        else:
            if isinstance(res, (SeqRecord, Seq)):
                out = "OK " + describe(res)
            else:
                out = "OK {!r}".format(res)
    warns = [
        "{}: {}".format(type(w.message).__name__, w.message)
        for w in caught
        if isinstance(w.message, errors.MocloError)
    ]
    return res, out + (" WARN " + repr(warns) if warns else "")


# --- generating things --------------------------------------------------------

SITES = ("GGTCTC", "GAGACC", "GAAGAC", "GTCTTC", "CGTCTC", "GAGACG")


def rc(text):
    return str(Seq(text).reverse_complement())


def count_sites(text):
    text = text.upper()
    doubled = text + text[:5]
    return sum(len(re.findall("(?={})".format(s), doubled)) for s in SITES)


def clean_random(rng, n):
    while True:
        s = "".join(rng.choice("ACGT") for _ in range(n))
        if count_sites(s) == 0:
            return s


def mixed_case(rng, text, p):
    return "".join(c.lower() if rng.random() < p else c for c in text)


def instantiate(rng, structure, body, up=None, down=None, target=None):
    pattern = re.sub(r"N\*\??", "*", structure)
    out, spans, letters = [], {}, {}
    group, size = 0, 0
    for c in pattern:
        if c == "(":
            group += 1
            spans[group] = [size, None]
            letters[group] = ""
        elif c == ")":
            spans[max(g for g in spans if spans[g][1] is None)][1] = size
        elif c == "*":
            out.append(body)
            size += len(body)
        else:
            out.append(rng.choice("ACGT") if c == "N" else c)
            size += 1
            for g in spans:
                if spans[g][1] is None:
                    letters[g] += c
    text = "".join(out)
    for g, value in ((1, up), (3, down)):
        if value is None:
            continue
        s, e = spans[g]
        if e - s != len(value) or any(c != "N" and c != v.upper() for c, v in zip(letters[g], value)):
            raise ValueError("overhang does not fit")
        text = text[:s] + value + text[e:]
    if target is not None:
        s, e = spans[2]
        text = text[:s] + target + text[e:]
    grp = lambda g: text[spans[g][0] : spans[g][1]] if g in spans else ""  # noqa: E731
    return text, grp(1), grp(3), grp(2)


def expected_site_count(structure):
    return count_sites(re.sub("[()*?]", "", structure) + "NNNNNN")


def usable(*overhangs):
    seen = set()
    for o in overhangs:
        o = o.upper()
        if o == rc(o) or o in seen or rc(o) in seen:
            return False
        seen.add(o)
    return True


def build_text(rng, cls, body, accept=lambda a, b: True, **fill):
    structure = cls.structure()
    wanted = expected_site_count(structure)
    for _ in range(2000):
        core, g1, g3, g2 = instantiate(rng, structure, body, **fill)
        text = core + clean_random(rng, rng.randint(10, 40))
        if count_sites(text) == wanted and accept(g1, g3):
            return text, g1, g3, g2
    raise RuntimeError("cannot build " + cls.__name__)


def annotate(rng, rec, ident, with_refs):
    """Add a few features (some wrapping the origin) and citations."""
    n = len(rec)
    a, b = sorted(rng.sample(range(n), 2))
    rec.features.append(SeqFeature(FeatureLocation(a, b, strand=1), type="misc_feature", qualifiers={"label": [ident + "-f1"]}))
    c = rng.randrange(n)
    rec.features.append(SeqFeature(FeatureLocation(c, min(n, c + 7), strand=-1), type="CDS", qualifiers={"label": [ident + "-f2"]}))
    if with_refs:
        r1, r2 = Reference(), Reference()
        r1.title, r1.authors = ident + " paper one", "A"
        r2.title, r2.authors = "shared paper", "B"
        rec.annotations["references"] = [r1, r2]
        rec.features[0].qualifiers["citation"] = ["[1]", "[2]"]
        rec.features[1].qualifiers["citation"] = ["[2]"]
    return rec


def record(rng, text, ident, kind="circular", rotate=True, refs=False, feats=True):
    if kind == "circular":
        rec = CircularRecord(Seq(text), id=ident, name=ident)
    elif kind == "plain":
        rec = SeqRecord(Seq(text), id=ident, name=ident)
    elif kind == "plain-linear":
        rec = SeqRecord(Seq(text), id=ident, name=ident, annotations={"topology": "linear"})
    elif kind == "plain-circular":
        rec = SeqRecord(Seq(text), id=ident, name=ident, annotations={"topology": "Circular"})
    if feats:
        annotate(rng, rec, ident, refs)
    if rotate and kind == "circular":
        rec = rec >> rng.randint(0, len(text) - 1)
    return rec


# --- 1. the pattern matcher -----------------------------------------------------

def check_regex(rng):
    section("regex")
    patterns = ["AA(NN)", "(NNNN)(GG)N*(TT)", "GGTCTCN(NNNN)(NN*N)(NNNN)NGAGACC", "(R)(Y)(W)(S)", "(ACG)(T*)(N)", "N(NNNN)(NNGTCTTCN*GAAGACNN)(NNNN)N", "(B)(D)(H)(K)(M)(V)"]
    for p in patterns:
        rx = DNARegex(p)
        log("pattern", p, rx.pattern, rx.regex.pattern)
        for rep in range(14):
            n = rng.choice([0, 1, 3, 4, 6, 9, 17, 40, 80])
            text = "".join(rng.choice("ACGT") for _ in range(n))
            if rep % 3 == 0 and n > 12:
                # plant a match somewhere, possibly across the origin
                inst, _, _, _ = instantiate(rng, p.replace("T*", "N*") if "N*" not in p else p, "ACGTA"[: rng.randint(0, 5)])
                inst = re.sub("[^ACGT]", "A", inst)[: n]
                k = rng.randrange(n)
                text = (text[len(inst):] + inst)
                text = text[k:] + text[:k]
            text = mixed_case(rng, text, rng.choice([0, 0, 0.3, 1]))
            for kind in ("seq", "plain", "circular", "str"):
                if kind == "seq":
                    subject = Seq(text)
                elif kind == "plain":
                    subject = SeqRecord(Seq(text), id="r")
                elif kind == "circular":
                    subject = CircularRecord(Seq(text), id="c")
                else:
                    subject = text
                for linear in (True, False):
                    kwargs = {"linear": linear}
                    if rep % 5 == 1:
                        kwargs["pos"] = rng.randint(0, max(0, n))
                    if rep % 5 == 2:
                        kwargs["endpos"] = rng.randint(0, max(0, n))
                    m, out = attempt(rx.search, subject, **kwargs)
                    if m is None:
                        log("search", p, text, kind, sorted(kwargs.items()), out)
                        continue
                    groups = []
                    for g in range(rx.regex.groups + 1):
                        _, gout = attempt(m.group, g)
                        groups.append((m.span(g), gout))
                    log("search", p, text, kind, sorted(kwargs.items()), m.start(), m.end(), m.span(), groups, m.shift, m.rec is subject)
    # groups lying exactly at / across the origin
    rx = DNARegex("(AC)(GT)(N)")
    for text in ("ACGTA", "CGTAA", "GTAAC", "TAACG", "AACGT", "ACGT", "CGTA", "GTCA"):
        for subject in (Seq(text), CircularRecord(Seq(text), id="c")):
            m, out = attempt(rx.search, subject, linear=False)
            if m is None:
                log("origin", text, type(subject).__name__, out)
            else:
                log("origin", text, type(subject).__name__, [(m.span(g), attempt(m.group, g)[1]) for g in range(4)])


# --- 2. the structures ------------------------------------------------------------

def all_classes():
    seen = []
    for mod in (cidar, ecoflex, mkit, ytk, plant):
        for name in sorted(dir(mod)):
            obj = getattr(mod, name)
            if isinstance(obj, type) and issubclass(obj, StructuredRecord) and obj.__module__ == mod.__name__:
                seen.append(obj)
    return seen


class Default3Vector(vectors.AbstractVector):
    cutter = BtsI


class Default3Module(modules.AbstractModule):
    cutter = BtsI


class Mock3Vector(vectors.AbstractVector):
    """A 3' overhang cutter with a hand-written structure."""

    cutter = BtsI

    @classmethod
    def structure(cls):
        return "(NN)(CACTGCN*GCAGTG)(NN)"


class Mock3Module(modules.AbstractModule):
    cutter = BtsI

    @classmethod
    def structure(cls):
        return "GCAGTG(NN)(NN*N)(NN)CACTGC"


class MockSapVector(vectors.AbstractVector):
    cutter = SapI


class MockSapModule(modules.AbstractModule):
    cutter = SapI


class MockPart(parts.AbstractPart, modules.Entry):
    cutter = BsaI
    signature = ("ATGC", "ATTC")


class MockVectorPart(parts.AbstractPart, vectors.EntryVector):
    cutter = BpiI
    signature = ("ATGC", "ATTC")


def check_structures(rng):
    section("structures")
    for cls in all_classes() + [Default3Vector, Default3Module, Mock3Vector, Mock3Module, MockSapVector, MockSapModule, MockPart, MockVectorPart]:
        _, out = attempt(cls.structure)
        log("structure", cls.__module__, cls.__name__, out, getattr(cls, "cutter", None), getattr(cls, "_level", None))
    for cls in (vectors.AbstractVector, modules.AbstractModule, vectors.EntryVector, modules.Product, parts.AbstractPart):
        _, out = attempt(cls, SeqRecord(Seq("ACGT")))
        log("abstract", cls.__name__, out)


# --- 3. structured records --------------------------------------------------------

KIT_VECTORS = [
    cidar.CIDAREntryVector, cidar.CIDARCassetteVector, cidar.CIDARDeviceVector,
    ecoflex.EcoFlexCassetteVector, ecoflex.EcoFlexDeviceVector,
    mkit.MoCloEntryVector, mkit.MoCloCassetteVector, mkit.MoCloSingleCassetteVector, mkit.MoCloDeviceVector,
    ytk.YTKEntryVector, ytk.YTKCassetteVector, ytk.YTKDeviceVector, Mock3Vector, MockSapVector,
]
KIT_MODULES = [
    cidar.CIDARProduct, cidar.CIDAREntry, cidar.CIDARCassette, cidar.CIDARDevice,
    ecoflex.EcoFlexEntry, ecoflex.EcoFlexCassette, ecoflex.EcoFlexDevice,
    mkit.MoCloProduct, mkit.MoCloEntry, mkit.MoCloCassette,
    ytk.YTKProduct, ytk.YTKEntry, ytk.YTKCassette, cidar.CIDARPromoter, ytk.YTKPart1, Mock3Module, MockSapModule,
]


def probe(entity, tag):
    """Everything observable on a structured record."""
    before = describe(entity.record)
    _, valid = attempt(entity.is_valid)
    outs = [valid]
    for meth in ("overhang_start", "overhang_end", "target_sequence", "placeholder_sequence"):
        if hasattr(entity, meth):
            outs.append(meth + "=" + attempt(getattr(entity, meth))[1])
    log(tag, type(entity).__name__, before, outs, "unchanged" if describe(entity.record) == before else "CHANGED " + describe(entity.record))


def check_records(rng):
    section("records")
    for cls in KIT_VECTORS + KIT_MODULES:
        for rep in range(6):
            body = clean_random(rng, rng.choice([0, 1, 2, 7, 25]))
            try:
                text, g1, g3, g2 = build_text(rng, cls, body)
            except (RuntimeError, ValueError) as err:
                log("record", cls.__name__, "unbuildable", err)
                break
            if rep == 3:
                text = mixed_case(rng, text, 0.5)
            if rep == 4:
                # a third site of the class' own cutter inside the match
                site = cls.cutter.site
                k = text.upper().find(site) + len(site) + 12
                text = text[:k] + site + text[k:]
            kind = ["circular", "circular", "plain", "circular", "circular", "plain-linear"][rep]
            rec = record(rng, text, "{}{}".format(cls.__name__, rep), kind=kind, refs=rep == 1)
            probe(cls(rec), "record")
            if rep == 0:
                # every rotation of a small plasmid: matches wrapping the origin
                small, _, _, _ = build_text(rng, cls, body[:3])
                base = CircularRecord(Seq(small), id="rot", name="rot")
                for k in range(0, len(small), max(1, len(small) // 23)):
                    probe(cls(base >> k), "rotation%d" % k)
                # and the classes of the other kits on the same record
                for other in (cidar.CIDAREntry, ecoflex.EcoFlexCassette, ytk.YTKEntry, mkit.MoCloCassette, cidar.CIDARCassetteVector, ytk.YTKEntryVector):
                    probe(other(base), "cross")
    for text in ("", "A", "ATG", "GGTCTC", "GGTCTCAGAGACC"):
        for cls in (cidar.CIDAREntry, cidar.CIDAREntryVector, ytk.YTKProduct):
            for kind in ("circular", "plain"):
                probe(cls(record(rng, text, "tiny", kind=kind, feats=False, rotate=False)), "tiny")


# --- 4. assemblies ---------------------------------------------------------------

LEVELS = [
    (cidar.CIDAREntryVector, cidar.CIDARProduct, cidar.CIDAREntry, cidar.CIDARCassetteVector),
    (cidar.CIDARCassetteVector, cidar.CIDAREntry, cidar.CIDARCassette, cidar.CIDARDeviceVector),
    (cidar.CIDARDeviceVector, cidar.CIDARCassette, cidar.CIDARDevice, cidar.CIDARCassetteVector),
    (ecoflex.EcoFlexCassetteVector, ecoflex.EcoFlexEntry, ecoflex.EcoFlexCassette, ecoflex.EcoFlexDeviceVector),
    (ecoflex.EcoFlexDeviceVector, ecoflex.EcoFlexCassette, ecoflex.EcoFlexDevice, ecoflex.EcoFlexCassetteVector),
    (mkit.MoCloEntryVector, mkit.MoCloProduct, mkit.MoCloEntry, mkit.MoCloCassetteVector),
    (mkit.MoCloCassetteVector, mkit.MoCloEntry, mkit.MoCloCassette, mkit.MoCloDeviceVector),
    (mkit.MoCloDeviceVector, mkit.MoCloCassette, mkit.MoCloCassette, mkit.MoCloDeviceVector),
    (ytk.YTKEntryVector, ytk.YTKProduct, ytk.YTKEntry, ytk.YTKCassetteVector),
    (ytk.YTKCassetteVector, ytk.YTKEntry, ytk.YTKCassette, ytk.YTKDeviceVector),
    (MockSapVector, MockSapModule, MockSapModule, MockSapVector),
    (Mock3Vector, Mock3Module, Mock3Module, Mock3Vector),
]


def make_chain(rng, vcls, mcls, nmods, scenario, kinds):
    ytk_case = mcls is ytk.YTKProduct
    fill = {}
    if ytk_case:
        nmods = 1
        fill = dict(up="ATGG", down="GACC")
    olen = abs(vcls.cutter.ovhg)
    vtext, v1, v3, _ = build_text(rng, vcls, clean_random(rng, rng.randint(0, 20)), accept=usable, **fill)
    if scenario == "same-ends" and not ytk_case:
        vtext, v1, v3, _ = build_text(rng, vcls, "ACGTAC", up=v1, down=v1)
    junctions = [v1]
    while len(junctions) < nmods:
        o = clean_random(rng, olen)
        if usable(*(junctions + ([v3] if v3.upper() != v1.upper() else []) + [o])):
            junctions.append(o)
    junctions.append(v3)
    mods = []
    for k in range(nmods):
        size = rng.choice([2, 3, 8, 30])
        up, down = junctions[k], junctions[k + 1]
        if scenario == "missing" and k == nmods - 1 and not ytk_case:
            down = rc(junctions[k + 1])[::-1] if usable(rc(junctions[k + 1])[::-1], *junctions) else "ACCA"
        if scenario == "duplicate" and k == 1:
            up = junctions[0]
        if scenario == "complement" and k == 1:
            up = rc(junctions[0])
        for _ in range(200):
            insert = clean_random(rng, size)
            if count_sites(up + insert + down + "NNNNNN") == 0:
                break
        if ytk_case:
            mtext, _, _, _ = build_text(rng, mcls, insert, up=up, down=down)
        else:
            mtext, _, _, _ = build_text(rng, mcls, insert[1:-1], up=up, down=down, target=insert)
        if scenario == "mixed-case":
            mtext = mixed_case(rng, mtext, 0.5)
        mods.append(mcls(record(rng, mtext, "m{}".format(k), kind=kinds[(k + 1) % len(kinds)], refs=scenario in ("citations", "bad-citation") or k % 2 == 0)))
    if scenario == "unused":
        extra, _, _, _ = build_text(rng, mcls, "ACGTTGCA", accept=lambda a, b: usable(*(junctions + [a, b])))
        mods.append(mcls(record(rng, extra, "extra")))
    if scenario == "mixed-case":
        vtext = mixed_case(rng, vtext, 0.5)
    vector = vcls(record(rng, vtext, "v", kind=kinds[0], refs=scenario != "no-refs"))
    if scenario == "bad-citation":
        mods[0].record.features[0].qualifiers["citation"] = ["[1]", "nonsense"]
    if scenario == "citation-range":
        mods[0].record.annotations["references"] = []
        mods[0].record.features[0].qualifiers["citation"] = ["[7]"]
    rng.shuffle(mods)
    return vector, mods


SCENARIOS = ["plain", "plain", "mixed-case", "missing", "duplicate", "complement", "unused", "same-ends", "citations", "bad-citation", "citation-range", "no-refs", "plain-records"]


def check_assemblies(rng):
    section("assemblies")
    for vcls, mcls, ncls, nvcls in LEVELS:
        for i, scenario in enumerate(SCENARIOS * 2):
            nmods = 1 + (i % 3) if scenario not in ("duplicate", "complement") else 2 + i % 2
            kinds = ["circular"]
            if scenario == "plain-records":
                kinds = ["circular", "plain"] if i % 2 else ["plain-circular", "circular"]
            try:
                vector, mods = make_chain(rng, vcls, mcls, nmods, scenario, kinds)
            except (RuntimeError, ValueError) as err:
                log("assembly", vcls.__name__, scenario, "unbuildable", err)
                continue
            before = [describe(vector.record)] + [describe(m.record) for m in mods]
            kwargs = {} if i % 2 else {"id": "prod{}".format(i), "name": "p{}".format(i)}
            product, out = attempt(vector.assemble, *mods, **kwargs)
            after = [describe(vector.record)] + [describe(m.record) for m in mods]
            log("assembly", vcls.__name__, scenario, nmods, before, out, "inputs unchanged" if before == after else ["INPUTS CHANGED"] + after)
            if product is None:
                continue
            # the product one level up
            nxt = ncls(product)
            probe(nxt, "product-as-module")
            _, again = attempt(vector.assemble, *mods, **kwargs)
            log("repeat", again == out)
            o1, o2 = attempt(nxt.overhang_start)[0], attempt(nxt.overhang_end)[0]
            if o1 is None or o2 is None or not usable(str(o1), str(o2)):
                continue
            try:
                ntext, _, _, _ = build_text(rng, nvcls, clean_random(rng, 9), up=str(o1).upper(), down=str(o2).upper())
            except (RuntimeError, ValueError) as err:
                log("second", "unbuildable", err)
                continue
            nvector = nvcls(record(rng, ntext, "nv", refs=True))
            second, out2 = attempt(nvector.assemble, nxt)
            log("second", nvcls.__name__, out2, describe(product))


def main():
    rng = random.Random(20260927)
    check_regex(rng)
    check_structures(rng)
    check_records(rng)
    check_assemblies(rng)
    for name in ("regex", "structures", "records", "assemblies"):
        print("{:<12} {}".format(name, SECTIONS[name].hexdigest()))
    exc = sum(1 for line in LOG if "EXC " in line)
    print("observations: {} ({} with an exception)".format(len(LOG), exc))
    print("DIGEST " + hashlib.sha256("\n".join(LOG).encode("utf-8")).hexdigest())
    if "--dump" in sys.argv:
        sys.stdout.write("\n".join(LOG) + "\n")


if __name__ == "__main__":
    main()
