# coding: utf-8
"""Differential test for the assembly code (property C03).

Runs a few hundred generated assemblies (every permutation of small module
multisets over an overhang alphabet with equal, reverse-complementary and
palindromic overhangs; mixed letter case; matches wrapping the origin; BsaI
and a 3'-overhang enzyme; plain SeqRecord inputs; citations; failing
assemblies; warnings turned into errors) plus direct calls of the supporting
code, and prints a digest of every result / exception / warning / input state.
The digest must be identical before and after a behaviour-preserving change.
Set EQUIV_DUMP=<file> to also write the full trace.
"""
import sys

sys.path.insert(0, "/tmp/agents5/C03")
import tests  # noqa: F401,E402

import collections  # noqa: E402
import hashlib  # noqa: E402
import itertools  # noqa: E402
import json  # noqa: E402
import os  # noqa: E402
import random  # noqa: E402
import re  # noqa: E402
import warnings  # noqa: E402

from Bio.Restriction import BpiI, BsaI, BtsI  # noqa: E402
from Bio.Seq import Seq  # noqa: E402
from Bio.SeqFeature import SeqFeature, FeatureLocation, Reference  # noqa: E402
from Bio.SeqRecord import SeqRecord  # noqa: E402

from moclo import errors  # noqa: E402
from moclo.core._assembly import AssemblyManager  # noqa: E402
from moclo.core.modules import AbstractModule  # noqa: E402
from moclo.core.vectors import AbstractVector  # noqa: E402
from moclo.record import CircularRecord  # noqa: E402

RNG = random.Random(20260927)
ADDRESS = re.compile(r" at 0x[0-9a-fA-F]+")


# --- element classes --------------------------------------------------------


class BpiModule(AbstractModule):
    cutter = BpiI


class BpiVector(AbstractVector):
    cutter = BpiI


class BsaModule(AbstractModule):
    cutter = BsaI


class BsaVector(AbstractVector):
    cutter = BsaI


class BtsModule(AbstractModule):
    cutter = BtsI  # 3' overhang: the default structure cannot be used

    @classmethod
    def structure(cls):
        return "GCAGTG(NN)(NN*N)(NN)CACTGC"


class BtsVector(AbstractVector):
    cutter = BtsI

    @classmethod
    def structure(cls):
        return "(NN)CACTGC(NN*N)GCAGTG(NN)"


SITES = {
    "bpi": (BpiModule, BpiVector, "GAAGACTT", "TTGTCTTC"),
    "bsa": (BsaModule, BsaVector, "GGTCTCA", "TGAGACC"),
    "bts": (BtsModule, BtsVector, "GCAGTG", "CACTGC"),
}

# equal, reverse-complementary (ATGC/GCAT, CGTA/TACG, GGAG/CTCC) and
# palindromic (ACGT, AATT) overhangs
OVERHANGS = ["ATGC", "GCAT", "CGTA", "TACG", "GGAG", "CTCC", "ACGT", "AATT", "CCCT",
             "AACT", "TCAA", "CTGA", "AGCA"]


def filler(n, alphabet="ATC"):
    return "".join(RNG.choice(alphabet) for _ in range(n))


def recase(text, mode):
    if mode == "lower":
        return text.lower()
    if mode == "random":
        return "".join(RNG.choice((c.lower(), c.upper())) for c in text)
    return text


def make_record(seq, ident, kind, rotate, feats=None, refs=None, topology=None):
    seq = seq[rotate % len(seq):] + seq[: rotate % len(seq)] if rotate else seq
    annotations = {}
    if topology is not None:
        annotations["topology"] = topology
    if refs is not None:
        annotations["references"] = refs
    if kind == "circular":
        rec = CircularRecord(Seq(seq), id=ident, name=ident, annotations=annotations)
    else:
        rec = SeqRecord(Seq(seq), id=ident, name=ident, annotations=annotations)
    for feat in feats or ():
        rec.features.append(feat)
    return rec


def module_seq(kit, start, end, case="upper", case_over=None):
    _, _, up, down = SITES[kit]
    body = up + recase(start, case_over or case) + filler(RNG.randint(2, 9))
    body += recase(end, case_over or case) + down
    return recase(body, case) if case != "upper" else body, filler(RNG.randint(0, 8))


def vector_seq(kit, start, end, case="upper", case_over=None):
    _, _, up, down = SITES[kit]
    body = recase(end, case_over or case) + down + filler(RNG.randint(2, 7))
    body += up + recase(start, case_over or case)
    return recase(body, case) if case != "upper" else body, filler(RNG.randint(2, 9))


# --- describing results -----------------------------------------------------


def scrub(text):
    return ADDRESS.sub("", text)


def safe_str(obj):
    try:
        return scrub(str(obj))
    except Exception as exc:  # noqa
        return "<str failed: {} {}>".format(type(exc).__name__, scrub(str(exc)))


def describe_value(value):
    if isinstance(value, Reference):
        return "Reference({})".format(value.title)
    if isinstance(value, (list, tuple)):
        return [describe_value(v) for v in value]
    if isinstance(value, dict):
        return {str(k): describe_value(v) for k, v in sorted(value.items())}
    return "{}:{}".format(type(value).__name__, scrub(str(value)))


def describe_record(rec):
    if rec is None:
        return None
    return {
        "type": type(rec).__name__,
        "seq": str(rec.seq),
        "id": rec.id,
        "name": rec.name,
        "description": rec.description,
        "annotations": describe_value(dict(rec.annotations)),
        "features": [
            [f.type, str(f.location), describe_value(dict(f.qualifiers))]
            for f in rec.features
        ],
    }


def describe_exception(exc):
    out = {"type": type(exc).__name__, "str": safe_str(exc)}
    for attr in ("details", "start_overhang"):
        if hasattr(exc, attr):
            out[attr] = describe_value(getattr(exc, attr))
    for attr in ("duplicates", "remaining"):
        if hasattr(exc, attr):
            out[attr] = [m.record.id for m in getattr(exc, attr)]
    if isinstance(exc, errors.InvalidSequence):
        seq = exc.sequence
        out["sequence"] = type(seq).__name__ + ":" + getattr(getattr(seq, "record", seq), "id", safe_str(seq))
    out["cause"] = type(exc.__cause__).__name__
    out["context"] = type(exc.__context__).__name__
    out["suppress"] = exc.__suppress_context__
    return out


def describe_warning(w):
    out = {
        "category": w.category.__name__,
        "str": safe_str(w.message),
        "file": os.path.basename(w.filename),
    }
    if hasattr(w.message, "remaining"):
        out["remaining"] = [m.record.id for m in w.message.remaining]
    return out


TRACE = []
COUNTS = collections.Counter()


def run(label, func, records=(), filters="always"):
    entry = {"label": label}
    with warnings.catch_warnings(record=True) as caught:
        warnings.simplefilter(filters)
        try:
            result = func()
        except Exception as exc:  # noqa
            entry["raised"] = describe_exception(exc)
            COUNTS[type(exc).__name__] += 1
        else:
            if isinstance(result, SeqRecord):
                entry["result"] = describe_record(result)
                COUNTS[type(result).__name__] += 1
            else:
                entry["result"] = describe_value(result)
                COUNTS["value"] += 1
    entry["warnings"] = [describe_warning(w) for w in caught]
    COUNTS["warnings"] += len(caught)
    entry["inputs"] = [describe_record(r) for r in records]
    TRACE.append(entry)


# --- assemblies over the overhang graph ---------------------------------------


def build_case(kit, vec, mods, case="upper", case_over=None, rotate=False,
               kind="circular", citations=None, topology=None):
    mcls, vcls, _, _ = SITES[kit]
    refs = None
    if citations:
        refs = [Reference(), Reference(), Reference()]
        for i, r in enumerate(refs):
            r.title = "ref{}-{}".format(i, citations)
    body, back = vector_seq(kit, vec[0], vec[1], case, case_over)
    feats = []
    if citations:
        feats = [SeqFeature(FeatureLocation(0, 4), type="misc_feature",
                            qualifiers={"citation": ["[2]"], "label": ["vf"]})]
    vrot = RNG.randrange(1, len(body) + len(back)) if rotate else 0
    vrec = make_record(body + back, "vec", "circular" if kind != "vplain" else "plain",
                       vrot, feats, refs and refs[:2],
                       topology if kind == "vplain" else None)
    vector = vcls(vrec)
    modules = []
    for i, (start, end) in enumerate(mods):
        body, back = module_seq(kit, start, end, case, case_over)
        feats = []
        mrefs = None
        if citations:
            cite = {"ok": "[1]", "bad": "(1)" if i == 0 else "[1]",
                    "range": "[7]" if i == 0 else "[3]"}[citations]
            feats = [
                SeqFeature(FeatureLocation(len(SITES[kit][2]), len(body) - 8),
                           type="CDS", qualifiers={"citation": [cite, "[3]"]}),
                SeqFeature(FeatureLocation(0, len(body) + len(back)), type="source",
                           qualifiers={"label": ["whole"]}),
            ]
            mrefs = [refs[2], refs[0], refs[1]]
        mrot = RNG.randrange(1, len(body) + len(back)) if rotate else 0
        mkind = "plain" if kind == "plain" else "circular"
        mrec = make_record(body + back, "m{}".format(i), mkind, mrot, feats, mrefs,
                           topology if kind == "plain" else None)
        modules.append(mcls(mrec))
    return vector, modules


def assemble_all_orders(label, vector, modules, max_perms=24, **kwargs):
    perms = list(itertools.permutations(range(len(modules))))
    if len(perms) > max_perms:
        perms = perms[:1] + RNG.sample(perms[1:], max_perms - 1)
    records = [vector.record] + [m.record for m in modules]
    for perm in perms:
        args = [modules[i] for i in perm]
        run("{} order={}".format(label, perm),
            lambda: vector.assemble(*args, **kwargs), records)


def graph_cases():
    pairs = [(s, e) for s in OVERHANGS for e in OVERHANGS]
    n = 0
    # exhaustive small cases for a fixed vector, one and two modules
    small = ["ATGC", "GCAT", "CGTA", "ACGT"]
    for s, e in itertools.product(small, repeat=2):
        vector, modules = build_case("bpi", ("CGTA", "ATGC"), [(s, e)])
        assemble_all_orders("single {}>{}".format(s, e), vector, modules)
    for vs, ve in itertools.product(["ATGC", "CGTA", "ACGT"], repeat=2):
        vector, modules = build_case("bpi", (vs, ve), [(ve, vs), ("CCCT", "GGAG")])
        assemble_all_orders("vectors {}..{}".format(vs, ve), vector, modules)
    # random multisets, every permutation
    while n < 70:
        size = RNG.choice([1, 2, 2, 3, 3, 3, 4])
        vec = (RNG.choice(OVERHANGS), RNG.choice(OVERHANGS))
        if RNG.random() < 0.6:
            # a chain that closes (possibly), plus extras / gaps
            path = [vec[1]] + RNG.sample([o for o in OVERHANGS if o not in vec], size - 1) + [vec[0]]
            mods = list(zip(path[:-1], path[1:]))
            roll = RNG.random()
            if roll < 0.25 and len(mods) > 1:
                del mods[RNG.randrange(len(mods))]
            elif roll < 0.5:
                mods.append(RNG.choice(pairs))
            elif roll < 0.6:
                mods.append(RNG.choice(mods))
        else:
            mods = [RNG.choice(pairs) for _ in range(size)]
        RNG.shuffle(mods)
        vector, modules = build_case("bpi", vec, mods)
        assemble_all_orders("graph#{} v={} m={}".format(n, vec, mods), vector, modules, 12)
        n += 1


def variant_cases():
    chains = [
        (("CGTA", "ATGC"), [("ATGC", "GGAG"), ("GGAG", "CGTA")]),
        (("CGTA", "ATGC"), [("ATGC", "GGAG"), ("GGAG", "CCCT")]),
        (("CGTA", "ATGC"), [("ATGC", "GGAG"), ("GGAG", "CGTA"), ("CCCT", "AATT")]),
        (("CGTA", "ATGC"), [("ATGC", "CGTA"), ("ATGC", "CGTA")]),
        (("CGTA", "ATGC"), [("ATGC", "GGAG"), ("CTCC", "CGTA")]),
        (("ATGC", "ATGC"), [("ATGC", "ATGC")]),
        (("CGTA", "ATGC"), [("GGAG", "CGTA")]),
        (("CGTA", "ATGC"), [("ATGC", "GGAG"), ("GGAG", "ATGC")]),
        (("CGTA", "ATGC"), [("ATGC", "CGTA"), ("CGTA", "ATGC")]),
    ]
    for ci, (vec, mods) in enumerate(chains):
        for case, case_over in [("lower", None), ("random", None), ("upper", "lower"),
                                ("upper", "random"), ("lower", "upper")]:
            for rotate in (False, True):
                vector, modules = build_case("bpi", vec, mods, case, case_over, rotate)
                assemble_all_orders("case#{} {}/{} rot={}".format(ci, case, case_over, rotate),
                                    vector, modules)
        for kit in ("bsa",):
            for rotate in (False, True):
                vector, modules = build_case(kit, vec, mods, rotate=rotate)
                assemble_all_orders("kit#{} {} rot={}".format(ci, kit, rotate), vector, modules)
        for kind in ("plain", "vplain"):
            for topology in (None, "linear", "circular"):
                try:
                    vector, modules = build_case("bpi", vec, mods, kind=kind, topology=topology)
                except ValueError as err:
                    TRACE.append({"label": "plain#{}".format(ci), "build": str(err)})
                    continue
                assemble_all_orders("plain#{} {} {}".format(ci, kind, topology), vector, modules)
        for citations in ("ok", "bad", "range"):
            for rotate in (False, True):
                vector, modules = build_case("bpi", vec, mods, citations=citations, rotate=rotate)
                assemble_all_orders("cite#{} {} rot={}".format(ci, citations, rotate),
                                    vector, modules)
    # 2-nt overhangs, 3' overhang enzyme with explicit structures
    for vec, mods in [
        (("CA", "AC"), [("AC", "AG"), ("AG", "CA")]),
        (("CA", "AC"), [("AC", "AG")]),
        (("CA", "AC"), [("AC", "CA"), ("TC", "AG")]),
        (("CA", "AC"), [("AC", "CA"), ("ac", "CA")]),
        (("CA", "AC"), [("AC", "AG"), ("CT", "CA")]),
        (("CA", "AC"), [("AT", "CA")]),
        (("CA", "CA"), [("CA", "CA")]),
        (("CA", "AC"), [("AC", "TC"), ("TC", "CA"), ("GG", "AC")]),
    ]:
        for rotate in (False, True):
            vector, modules = build_case("bts", vec, mods, rotate=rotate)
            assemble_all_orders("bts {} {} rot={}".format(vec, mods, rotate), vector, modules)


def special_cases():
    vec, mods = ("CGTA", "ATGC"), [("ATGC", "GGAG"), ("GGAG", "CGTA"), ("CCCT", "AATT")]
    # keyword arguments, the same module given twice, warnings as errors
    vector, modules = build_case("bpi", vec, mods)
    records = [vector.record] + [m.record for m in modules]
    run("kwargs", lambda: vector.assemble(*modules, id="pX", name="nX"), records)
    run("kwargs-id", lambda: vector.assemble(*modules, id="pX"), records)
    run("twice-used", lambda: vector.assemble(modules[0], modules[1], modules[0]), records)
    run("twice-unused", lambda: vector.assemble(modules[2], modules[0], modules[2], modules[1]), records)
    run("as-error", lambda: vector.assemble(*modules), records, filters="error")
    run("as-error-ok", lambda: vector.assemble(*modules[:2]), records, filters="error")
    run("default-filter-1", lambda: vector.assemble(*modules), records, filters="default")
    run("ignore-filter", lambda: vector.assemble(*modules), records, filters="ignore")
    run("no-module", lambda: vector.assemble(), records)
    run("mgr-tuple", lambda: AssemblyManager(vector, tuple(modules)).assemble(), records)
    run("mgr-list", lambda: AssemblyManager(vector, list(modules), "i", "n").assemble(), records)
    run("mgr-empty", lambda: AssemblyManager(vector, []).assemble(), records)
    mgr = AssemblyManager(vector, modules[:2], name="again")
    run("mgr-first", mgr.assemble, records)
    run("mgr-second", mgr.assemble, records)
    # elements that do not have the required structure
    bad = BpiModule(CircularRecord(Seq("ATCATCATCATCATCTTTACTACTAC"), id="bad"))
    run("bad-module", lambda: vector.assemble(modules[0], bad, modules[1]), records + [bad.record])
    run("bad-module-first", lambda: vector.assemble(bad, modules[0]), records + [bad.record])
    badv = BpiVector(CircularRecord(Seq("ATCATCATCATCATCTTTACTACTAC"), id="badv"))
    run("bad-vector", lambda: badv.assemble(*modules), records + [badv.record])
    site = "GAAGACTTATGCATCGAAGACATCGGAGTTGTCTTCATTA"
    illegal = BpiModule(CircularRecord(Seq(site), id="illegal"))
    run("illegal-module", lambda: vector.assemble(modules[1], illegal), records + [illegal.record])
    sitev = "CGTATTGTCTTCATCGTCTTCATGAAGACTTATGCCCATTA"
    illegalv = BpiVector(CircularRecord(Seq(sitev), id="illegalv"))
    run("illegal-vector", lambda: illegalv.assemble(*modules), records + [illegalv.record])
    mixed = BsaModule(CircularRecord(Seq("GGTCTCAATGCTTCATCGGAGTGAGACCTTA"), id="mixed"))
    run("mixed-kits", lambda: vector.assemble(mixed, modules[1]), records + [mixed.record])
    # supporting methods
    for kit, v, ms in [("bpi", vec, mods), ("bsa", vec, mods),
                       ("bts", ("CA", "AC"), [("AC", "AG"), ("AG", "CA")])]:
        for rotate in (False, True):
            for case in ("upper", "random"):
                vector, modules = build_case(kit, v, ms, case=case, rotate=rotate, citations="ok")
                for elem in [vector] + modules:
                    tag = "{} {} rot={} {}".format(kit, elem.record.id, rotate, case)
                    run("target " + tag, elem.target_sequence, [elem.record])
                    run("start " + tag, elem.overhang_start, [elem.record])
                    run("end " + tag, elem.overhang_end, [elem.record])
                    run("valid " + tag, elem.is_valid, [elem.record])
                run("placeholder " + tag, vector.placeholder_sequence, [vector.record])
    for cls in (BpiModule, BpiVector, BsaModule, BsaVector):
        run("structure " + cls.__name__, cls.structure)


def error_cases():
    mods = build_case("bpi", ("CGTA", "ATGC"), [("ATGC", "GGAG"), ("GGAG", "CGTA")])[1]
    for details in (None, "plain", "", "with {} braces", "{0} again", "{", 3, ["l"], b"bytes"):
        tag = " details={!r}".format(details)
        run("InvalidSequence" + tag, lambda: str(errors.InvalidSequence("SEQ", details=details)))
        run("IllegalSite" + tag, lambda: str(errors.IllegalSite("SEQ", details=details)))
        run("DuplicateModules" + tag, lambda: str(errors.DuplicateModules(*mods, details=details)))
        run("MissingModule" + tag, lambda: str(errors.MissingModule(Seq("ATGC"), details=details)))
        run("UnusedModules" + tag, lambda: str(errors.UnusedModules(*mods, details=details)))
    run("DuplicateModules none", lambda: str(errors.DuplicateModules()))
    run("UnusedModules none", lambda: str(errors.UnusedModules()))
    run("InvalidSequence exc", lambda: str(errors.InvalidSequence("S", ValueError("x"))))
    run("MissingModule extra", lambda: str(errors.MissingModule("atgc", other=1)))


def describe_match(match):
    if match is None:
        return None
    return [[match.span(i), str(getattr(match.group(i), "seq", match.group(i)))]
            for i in range(match.match.re.groups + 1)] + [match.start(), match.end()]


def regex_cases():
    from moclo.regex import DNARegex

    patterns = ["GAAGACNN(NNNN)(NN*N)(NNNN)NNGTCTTC", "(RY)(N*)(KM)", "BDHV(S)W", "gaagac", "", "A(", "NNNNNNNN"]
    texts = ["ATCGAAGACTTATGCCATACGTATTGTCTTCAT", "tatgccatacgtattgtcttcatATCGAAGACT",
             "ATGC", "A", "GGCCTTAAGGCACGTACTAGAGT"]
    for pattern in patterns:
        run("transcribe {!r}".format(pattern), lambda: DNARegex._transcribe(pattern))
        try:
            rx = DNARegex(pattern)
        except Exception as exc:  # noqa
            TRACE.append({"label": "compile " + pattern, "error": describe_exception(exc)})
            continue
        for text in texts:
            targets = [Seq(text), SeqRecord(Seq(text), id="lin"), CircularRecord(Seq(text), id="circ")]
            for target in targets:
                for kwargs in ({}, {"linear": False}, {"pos": 3}, {"pos": 2, "endpos": 5},
                               {"endpos": 0}, {"pos": 400}, {"pos": -2, "linear": False}):
                    tag = "search {!r} {} {} {}".format(pattern, type(target).__name__, text, sorted(kwargs.items()))
                    run(tag, lambda: describe_match(rx.search(target, **kwargs)))
    rx = DNARegex("ATG")
    for bad in ("ATGC", b"ATGC", None, 3, ["A"]):
        run("search-type {!r}".format(bad), lambda: rx.search(bad))
    for bad in (None, 3, b"AC", ["A", "N"], ("N", 2)):
        run("transcribe-type {!r}".format(bad), lambda: DNARegex._transcribe(bad))


def main():
    regex_cases()
    graph_cases()
    variant_cases()
    special_cases()
    error_cases()
    blob = json.dumps(TRACE, sort_keys=True, indent=1)
    if os.environ.get("EQUIV_DUMP"):
        with open(os.environ["EQUIV_DUMP"], "w") as handle:
            handle.write(blob)
    print("runs: {}".format(len(TRACE)))
    for key in sorted(COUNTS):
        print("  {:<20} {}".format(key, COUNTS[key]))
    print("digest: {}".format(hashlib.sha256(blob.encode("utf-8")).hexdigest()))


if __name__ == "__main__":
    main()
