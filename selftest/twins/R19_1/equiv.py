# coding: utf-8
"""Differential test for the rewrite of `moclo.registry._utils.find_resistance`."""
import sys

sys.path.insert(0, "/tmp/agentsR4/R19")
import tests  # noqa: E402,F401

import hashlib  # noqa: E402
import io  # noqa: E402
import os  # noqa: E402
import random  # noqa: E402
import warnings  # noqa: E402

warnings.simplefilter("ignore")

import fs.memoryfs  # noqa: E402
import Bio.SeqIO  # noqa: E402
from Bio.Seq import Seq  # noqa: E402
from Bio.SeqFeature import SeqFeature, FeatureLocation  # noqa: E402
from Bio.SeqRecord import SeqRecord  # noqa: E402

from moclo.record import CircularRecord  # noqa: E402
from moclo.registry._utils import find_resistance  # noqa: E402
from moclo.registry.base import FilesystemRegistry  # noqa: E402
from moclo.kits import ytk  # noqa: E402
from tests._utils import build_registries  # noqa: E402

ROOT = "/tmp/agentsR4/R19"
RESULTS = []


def attempt(tag, func, *args):
    try:
        out = ("ok", func(*args))
    except BaseException as err:  # exceptions are part of the behaviour
        out = ("raise", type(err).__name__, str(err))
    RESULTS.append((tag, out))
    return out


POOL = [
    "KanR", "CamR", "CmR", "KnR", "AmpR", "SmR", "SpecR",
    "kanr", "KANR", "ampR", "AmpR promoter", "ColE1", "GFP", "", "CmR ",
    "BsaI", "SpecR", "Ampicillin", "Kanamycin",
]


def random_record(rng, index):
    length = rng.randrange(20, 200)
    seq = "".join(rng.choice("ATGC") for _ in range(length))
    rid = rng.choice(["rec{}".format(index), "", "weird id '{}'", "pYTK{:03}".format(index)])
    record = SeqRecord(Seq(seq), id=rid, name="n{}".format(index))
    record.annotations["molecule_type"] = "DNA"
    for _ in range(rng.choice([0, 0, 1, 1, 2, 3, 5, 8])):
        start = rng.randrange(0, length - 1)
        end = rng.randrange(start + 1, length + 1)
        feature = SeqFeature(FeatureLocation(start, end, rng.choice([1, -1])), type="misc_feature")
        shape = rng.randrange(8)
        if shape == 0:
            pass  # no label qualifier at all
        elif shape == 1:
            feature.qualifiers["label"] = []
        elif shape == 2:
            # a bare string instead of a list: iterated char by char
            feature.qualifiers["label"] = rng.choice(POOL)
        elif shape == 3:
            label = rng.choice(POOL[:7])
            feature.qualifiers["label"] = [label] * rng.randrange(1, 4)
        elif shape == 4:
            feature.qualifiers["label"] = tuple(rng.sample(POOL, rng.randrange(1, 4)))
        elif shape == 5:
            feature.qualifiers["note"] = [rng.choice(POOL)]
        else:
            feature.qualifiers["label"] = [rng.choice(POOL) for _ in range(rng.randrange(1, 5))]
        record.features.append(feature)
    return record


def main():
    rng = random.Random(190001)

    # 1. direct calls on generated records
    records = [random_record(rng, i) for i in range(1500)]
    for i, record in enumerate(records):
        before = repr([(f.qualifiers, str(f.location)) for f in record.features])
        attempt(("direct", i), find_resistance, record)
        after = repr([(f.qualifiers, str(f.location)) for f in record.features])
        RESULTS.append(("unchanged", i, before == after))
        attempt(("circular", i), find_resistance, CircularRecord(record))

    # 2. odd inputs
    class NoFeatures(object):
        id = "nofeat"

    class Bare(object):
        id = None
        features = ()

    class Unhashable(object):
        id = "unhashable"
        features = [SeqFeature(FeatureLocation(0, 1), type="x", qualifiers={"label": [["KanR"]]})]

    class Generated(object):
        id = "generated"

        @property
        def features(self):
            for name in ("GFP", "CmR", "KanR"):
                RESULTS.append(("consumed", name))
                yield SeqFeature(FeatureLocation(0, 1), type="x", qualifiers={"label": [name]})

    for i, obj in enumerate([NoFeatures(), Bare(), Unhashable(), Generated(), None, 3]):
        attempt(("odd", i), find_resistance, obj)

    # 3. through the real embedded registries
    from moclo.registry.ytk import YTKRegistry, PTKRegistry
    from moclo.registry.cidar import CIDARRegistry
    from moclo.registry.ecoflex import EcoFlexRegistry
    from moclo.registry.plant import PlantRegistry

    for kit, name in [("ytk", "ytk"), ("ytk", "ptk"), ("cidar", "cidar"), ("ecoflex", "ecoflex"), ("plant", "plant")]:
        path = os.path.join(ROOT, "moclo-{}".format(kit), "moclo", "registry", name + ".tar.gz")
        if not os.path.exists(path):
            build_registries(kit)
    real = []
    for cls in (YTKRegistry, PTKRegistry, CIDARRegistry, EcoFlexRegistry, PlantRegistry):
        registry = cls()
        for key in sorted(registry):
            item = registry[key]
            real.append(item)
            RESULTS.append((cls.__name__, key, item.resistance))
            attempt((cls.__name__, key, "again"), find_resistance, item.entity.record)

    # 4. through a filesystem registry, with records stripped of / given extra cassettes
    memfs = fs.memoryfs.MemoryFS()
    ytk_items = [item for item in real if item.id.startswith("pYTK")]
    for n, item in enumerate(rng.sample(ytk_items, 40)):
        record = item.entity.record
        record = CircularRecord(SeqRecord(record.seq, id=record.id, name=record.name,
                                          description=record.description,
                                          annotations=dict(record.annotations),
                                          features=list(record.features)))
        mode = n % 4
        feats = []
        for f in record.features:
            q = {k: list(v) for k, v in f.qualifiers.items()}
            if mode == 1 and set(q.get("label", [])) & {"CmR", "AmpR", "KanR", "SpecR", "SmR"}:
                continue
            if mode == 2 and "label" in q and set(q["label"]) & {"CmR", "AmpR", "KanR", "SpecR", "SmR"}:
                q["label"] = q["label"] + ["KnR"]
            if mode == 3 and "label" in q:
                q["label"] = [l.lower() for l in q["label"]]
            feats.append(SeqFeature(f.location, type=f.type, qualifiers=q))
        record.features = feats
        buff = io.StringIO()
        Bio.SeqIO.write([record], buff, "genbank")
        with memfs.open("m{}_{}.gb".format(mode, item.id), "w") as handle:
            handle.write(buff.getvalue())
    registry = FilesystemRegistry(memfs, ytk.YTKPart)
    for key in sorted(registry):
        out = attempt(("fs", key), registry.__getitem__, key)
        if out[0] == "ok":
            RESULTS[-1] = (("fs", key), (out[1].id, out[1].resistance, type(out[1].entity).__name__))

    digest = hashlib.sha256(repr(RESULTS).encode("utf-8")).hexdigest()
    print(len(RESULTS), digest)


if __name__ == "__main__":
    main()
