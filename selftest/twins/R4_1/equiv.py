# coding: utf-8
"""Differential test for R4_1 (EmbeddedRegistry / CombinedRegistry in registry/base.py)."""
import sys

WT = "/tmp/agentsR/R4"
sys.path.insert(0, WT)
import tests  # noqa: E402,F401  (splices the kit packages in the moclo namespace)

import gc
import hashlib
import io
import os
import random
import re
import tarfile
import tempfile
import types
import warnings

warnings.simplefilter("ignore")

import Bio.SeqIO
from Bio.Seq import Seq
from Bio.SeqRecord import SeqRecord
from Bio.SeqFeature import SeqFeature, FeatureLocation

from moclo.record import CircularRecord
from moclo.registry import base
from moclo.registry.base import Item, CombinedRegistry, EmbeddedRegistry
from moclo.registry.ytk import YTKRegistry, PTKRegistry
from moclo.registry.cidar import CIDARRegistry
from moclo.registry.ecoflex import EcoFlexRegistry
from moclo.registry.plant import PlantRegistry

OUT = []
_ADDR = re.compile(r"0x[0-9a-fA-F]+")


def emit(*xs):
    OUT.append(re.sub(r"/[^' ]*r4_1_\w+", "<TMP>", _ADDR.sub("0x", repr(xs))))


def exc_info(e):
    return (
        "exc",
        type(e).__name__,
        str(e),
        type(e.__cause__).__name__,
        e.__suppress_context__,
        type(e.__context__).__name__,
        str(e.__context__),
    )


def call(f, *a, **k):
    try:
        return ("ok", f(*a, **k))
    except BaseException as e:  # noqa
        return exc_info(e)


def norm_record(r):
    return (
        type(r).__name__,
        r.id,
        r.name,
        r.description,
        hashlib.sha256(str(r.seq).encode()).hexdigest(),
        len(r.features),
        sorted((k, repr(v)) for k, v in r.annotations.items() if k != "references"),
        len(r.annotations.get("references", [])),
    )


def norm_item(it):
    return (
        type(it).__name__,
        it.id,
        it.name,
        it.resistance,
        type(it.entity).__name__,
        norm_record(it.entity.record),
        it.record is it.entity.record,
        tuple(it)[0],
        tuple(it)[3],
    )


# --- 1. the real embedded registries ---------------------------------------

REGS = [YTKRegistry, PTKRegistry, CIDARRegistry, EcoFlexRegistry, PlantRegistry]
for cls in REGS:
    r = cls()
    emit(cls.__name__, "len", call(len, r))
    emit(cls.__name__, "iter", call(lambda: list(r)))
    emit(cls.__name__, "iter2", call(lambda: list(iter(r))))
    # partial iteration then close, then iterate again
    it = iter(r)
    first = call(next, it)
    emit(cls.__name__, "first", first, call(it.close))
    emit(cls.__name__, "after-close", call(next, it))
    it = iter(r)
    next(it)
    emit(cls.__name__, "throw", call(it.throw, KeyError("boom")))
    emit(cls.__name__, "after-throw", call(next, it))
    keys = list(r)
    emit(cls.__name__, "keys==data", list(r._data) == keys, len(r._data))
    for k in keys:
        emit(cls.__name__, k, call(lambda: norm_item(r[k])))
    emit(cls.__name__, "values", call(lambda: [norm_item(i) for i in r.values()]))
    emit(cls.__name__, "items", call(lambda: [(k, v.id) for k, v in r.items()]))
    emit(cls.__name__, "missing", call(r.__getitem__, "nope"), call(r.get, "nope", 3))
    emit(cls.__name__, "contains", keys[0] in r, "nope" in r)
    emit(cls.__name__, "cached", r._data is r._data, r[keys[0]] is r[keys[0]])
    emit(cls.__name__, "hash", hash(r) == hash(cls()), r == cls(), r == 1, r != cls())
    for other in REGS:
        emit(cls.__name__, other.__name__, r == other(), hash(r) == hash(other()))

# --- 2. synthetic embedded registries --------------------------------------

rng = random.Random(20240401)
LABELS = ["KanR", "CamR", "CmR", "KnR", "AmpR", "SmR", "SpecR", "GFP", "ori", "kanr", ""]


def rand_seq(n):
    return "".join(rng.choice("ACGTacgtN") for _ in range(n))


def make_record(i, allow_linear=False):
    n = rng.randint(12, 120)
    rec = SeqRecord(Seq(rand_seq(n)), id="rec%03d" % i, name="n%03d" % i,
                    description=rng.choice(["", "desc %d" % i, "MoClo Basic Part: CDS - x"]))
    rec.annotations["molecule_type"] = "DNA"
    rec.annotations["topology"] = rng.choice(["circular", "circular", "circular", "linear" if allow_linear else "circular"])
    if rng.random() < 0.7:
        hints = ["first line"] * rng.randint(0, 2) + ["HINT:%s" % rng.choice("abc")]
        rng.shuffle(hints)
        rec.annotations["comment"] = "\n".join(hints)
    for _ in range(rng.randint(0, 4)):
        a = rng.randint(0, n - 2)
        b = rng.randint(a + 1, n)
        quals = {}
        k = rng.random()
        if k < 0.6:
            quals["label"] = [rng.choice(LABELS) for _ in range(rng.randint(1, 3))]
        elif k < 0.7:
            quals["label"] = []
        elif k < 0.8:
            quals["note"] = ["AmpR"]
        rec.features.append(SeqFeature(FeatureLocation(a, b, rng.choice([1, -1])),
                                       type="misc_feature", qualifiers=quals))
    return rec


def make_archive(path, nrec, dup=False, allow_linear=False):
    with tarfile.open(path, "w:gz") as tar:
        for i in range(nrec):
            rec = make_record(i if not (dup and i % 5 == 4) else i - 1, allow_linear)
            buf = io.StringIO()
            try:
                Bio.SeqIO.write([rec], buf, "genbank")
            except Exception as e:  # pragma: no cover
                emit("write-failed", type(e).__name__)
                continue
            data = buf.getvalue().encode()
            info = tarfile.TarInfo("rec%03d" % i)
            info.size = len(data)
            tar.addfile(info, io.BytesIO(data))


root = tempfile.mkdtemp(prefix="r4_1_")
modname = "r4_1_fakepkg"
tmp = os.path.join(root, modname)
os.mkdir(tmp)
open(os.path.join(tmp, "__init__.py"), "w").close()
sys.path.insert(0, root)
__import__(modname)


class Entity(object):
    def __init__(self, record, tag):
        self.record = record
        self.tag = tag


class TraceRegistry(EmbeddedRegistry):
    """records the order of the loader calls and edits the record like the YTK one."""

    _module = modname

    def __init__(self, file_, mode):
        self._file = file_
        self.mode = mode
        self.trace = []

    def _load_name(self, record):
        self.trace.append(("name", record.id, record.annotations.get("comment")))
        if self.mode == "name-fails" and record.id.endswith("7"):
            raise ValueError("name of %s" % record.id)
        return super(TraceRegistry, self)._load_name(record).upper()

    def _load_resistance(self, record):
        self.trace.append(("res", record.id, record.annotations.get("comment")))
        if self.mode == "lenient":
            try:
                return super(TraceRegistry, self)._load_resistance(record)
            except RuntimeError as e:
                self.trace.append(exc_info(e))
                return None
        return super(TraceRegistry, self)._load_resistance(record)

    def _load_entity(self, record):
        self.trace.append(("ent", record.id, record.annotations.get("comment")))
        comments = record.annotations.get("comment", "").splitlines()
        hint = next((c for c in comments if c.startswith("HINT:")), None)
        if hint is not None:
            comments.remove(hint)
            record.annotations["comment"] = "\n".join(comments)
        if self.mode == "rename":
            record.id = record.id + "_renamed"
        if self.mode == "entity-fails" and record.id.endswith("3"):
            raise KeyError(record.id)
        return Entity(record, hint)


def norm_fake(it):
    return (it.id, it.name, it.resistance, it.entity.tag, norm_record(it.entity.record),
            type(it.entity.record).__name__)


for n_arch in range(12):
    fname = "arch%02d.tar.gz" % n_arch
    make_archive(os.path.join(tmp, fname), rng.choice([0, 1, 3, 8, 20]), dup=n_arch % 3 == 0, allow_linear=n_arch % 4 == 3)
    for mode in ["lenient", "strict", "rename", "entity-fails", "name-fails"]:
        r = TraceRegistry(fname, mode)
        emit(fname, mode, "len", call(len, r))
        emit(fname, mode, "iter", call(lambda: list(r)))
        res = call(lambda: [(k, norm_fake(v)) for k, v in r._data.items()])
        emit(fname, mode, "data", res)
        emit(fname, mode, "trace", r.trace)
        # a failed load is not cached: a second attempt behaves identically
        n = len(r.trace)
        res2 = call(lambda: [(k, norm_fake(v)) for k, v in r._data.items()])
        emit(fname, mode, "again", res2 == res or (res[0] == "exc" and res2[:3] == res[:3]),
             len(r.trace) - n)
        emit(fname, mode, "get", call(lambda: norm_fake(r["rec000"])), call(r.__getitem__, "zzz"))
        emit(fname, mode, "eq", r == TraceRegistry(fname, "strict"), r == TraceRegistry("other", mode),
             hash(r) == hash(TraceRegistry(fname, "strict")))
        gc.collect()

# missing archive / garbage archive
with open(os.path.join(tmp, "garbage.tar.gz"), "wb") as f:
    f.write(b"this is not a tar file")
for fname in ["missing.tar.gz", "garbage.tar.gz"]:
    r = TraceRegistry(fname, "strict")
    for what, fn in [("len", lambda: len(r)), ("iter", lambda: list(r)), ("data", lambda: r._data),
                     ("get", lambda: r["a"])]:
        res = call(fn)
        emit(fname, what, res[:3])

# abstract-ness
emit("abstract", call(lambda: sorted(EmbeddedRegistry.__abstractmethods__)),
     call(EmbeddedRegistry)[:2], call(base.AbstractRegistry)[:2])

# --- 3. CombinedRegistry ----------------------------------------------------

regs = [cls() for cls in REGS]
fake = []
for n_arch in range(12):
    fake.append(TraceRegistry("arch%02d.tar.gz" % n_arch, "lenient"))

def has(c, k):
    try:
        return k in c._data
    except Exception:
        return False


for trial in range(150):
    comb = CombinedRegistry()
    pool = regs + fake
    chosen = [rng.choice(pool) for _ in range(rng.randint(0, 5))]
    for c in chosen:
        if rng.random() < 0.5:
            ret = call(comb.__lshift__, c)
            emit("lshift-returns-self", ret[0] == "ok" and ret[1] is comb, ret[0], ret[1:] if ret[0] == "exc" else None)
        else:
            emit("add-returns", call(comb.add_registry, c))
    emit("combined", trial, [type(c).__name__ + getattr(c, "_file", "") for c in chosen],
         len(comb), list(comb))
    # identity of the stored items: the first registry providing an id wins
    winners = []
    for k in comb:
        owner = next(i for i, c in enumerate(chosen) if has(c, k))
        winners.append((k, owner, comb[k] is chosen[owner]._data[k]))
    emit("winners", winners)
    emit("missing", call(comb.__getitem__, "nope"), "nope" in comb, call(comb.get, "nope"))
    # plain mappings / dicts as registries too
    d = {"x%d" % i: Item("k%d" % (i % 3), "n", Entity(None, i), "r%d" % i) for i in range(rng.randint(0, 6))}
    comb << d
    emit("with-dict", [(k, comb[k].resistance) for k in comb if k.startswith("k")], len(comb))

if os.environ.get("EQUIV_DUMP"):
    open(os.environ["EQUIV_DUMP"], "w").write("\n".join(OUT))
print(hashlib.sha256("\n".join(OUT).encode("utf-8")).hexdigest(), len(OUT))
import shutil; shutil.rmtree(root, ignore_errors=True)
