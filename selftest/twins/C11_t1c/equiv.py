"""Differential test: prints a digest of a few hundred results of the touched code."""
import sys
import warnings

warnings.simplefilter("ignore")
sys.path.insert(0, "/tmp/agents9/C11")
import tests  # noqa: F401,E402

import copy  # noqa: E402
import hashlib  # noqa: E402
import inspect  # noqa: E402
import os  # noqa: E402
import random  # noqa: E402
import re  # noqa: E402

from Bio.Seq import Seq  # noqa: E402
from Bio.SeqFeature import SeqFeature, FeatureLocation, Reference  # noqa: E402
from Bio.SeqRecord import SeqRecord  # noqa: E402
from Bio.Restriction import BsaI, BbsI, BpiI, BsmBI, BseRI, BtsI, SapI, EcoRV  # noqa: E402

import moclo  # noqa: E402
from moclo import errors  # noqa: E402
from moclo.record import CircularRecord  # noqa: E402
from moclo.regex import DNARegex, SeqMatch  # noqa: E402
from moclo.core import modules, vectors, parts  # noqa: E402
from moclo.core import _assembly, _structured, _utils as core_utils  # noqa: E402
from moclo.kits import cidar, ecoflex, ytk, plant  # noqa: E402
from moclo.kits import moclo as mkit  # noqa: E402

# ---------------------------------------------------------------------------
# generator of kit designs (same as in demo.py)
# ---------------------------------------------------------------------------
# --- C11 harness: build kit vectors / modules from the classes' own structure
# --- patterns, assemble level after level, check next-level validity.
import random
import re
import warnings

from Bio.Seq import Seq
from Bio.SeqRecord import SeqRecord

from moclo.record import CircularRecord
from moclo.kits import cidar, ecoflex, ytk
from moclo.kits import moclo as mkit

SITES = ["GGTCTC", "GAGACC", "GAAGAC", "GTCTTC", "CGTCTC", "GAGACG"]


def rc(s):
    return str(Seq(s).reverse_complement())


def count_sites(s, circular=True):
    s = s.upper()
    t = s + s[:5] if circular else s
    return {x: len(re.findall("(?=%s)" % x, t)) for x in SITES}


def literal_sites(pattern):
    flat = pattern.replace("(", "").replace(")", "").replace("*?", "").replace("*", "")
    return count_sites(flat, circular=False)


class Unsat(Exception):
    pass


def tokens(pattern):
    """Yield (group_index_or_0, token) with token in {'N*', letter}."""
    depth = 0
    group = 0
    current = 0
    i = 0
    while i < len(pattern):
        c = pattern[i]
        if c == "(":
            group += 1
            current = group
            i += 1
        elif c == ")":
            current = 0
            i += 1
        elif pattern.startswith("N*?", i):
            yield current, "N*"
            i += 3
        elif pattern.startswith("N*", i):
            yield current, "N*"
            i += 2
        else:
            yield current, c
            i += 1


def group_pattern(pattern, index):
    return "".join(t for g, t in tokens(pattern) if g == index)


def fill_letters(rng, letters, wanted=None):
    out = []
    for k, c in enumerate(letters):
        if wanted is not None:
            w = wanted[k]
            if c != "N" and c != w.upper():
                raise Unsat("overhang %r does not fit %r" % (wanted, letters))
            out.append(w)
        else:
            out.append(rng.choice("ACGT") if c == "N" else c)
    return "".join(out)


def instantiate(rng, pattern, g1=None, g3=None, core=None, pre=None, post=None, flank=None):
    """Instantiate a structure pattern.

    g1 / g3: content for capture groups 1 / 3; core: content for the run of N
    tokens of group 2 around its N* (the fixed N next to it included when the
    group has no literal letter); pre / post: the 4 nucleotides just before
    group 1 / just after group 3 (stacked overhangs); flank: backbone added
    after the pattern.
    """
    toks = list(tokens(pattern))
    first1 = next(i for i, (g, t) in enumerate(toks) if g == 1)
    last3 = max(i for i, (g, t) in enumerate(toks) if g == 3)
    out = [None] * len(toks)
    # groups 1 and 3
    for gi, wanted in ((1, g1), (3, g3)):
        idx = [i for i, (g, t) in enumerate(toks) if g == gi]
        letters = "".join(toks[i][1] for i in idx)
        filled = fill_letters(rng, letters, wanted)
        for i, ch in zip(idx, filled):
            out[i] = ch
    if pre is not None:
        idx = list(range(first1 - 4, first1))
        filled = fill_letters(rng, "".join(toks[i][1] for i in idx), pre)
        for i, ch in zip(idx, filled):
            out[i] = ch
    if post is not None:
        idx = list(range(last3 + 1, last3 + 5))
        filled = fill_letters(rng, "".join(toks[i][1] for i in idx), post)
        for i, ch in zip(idx, filled):
            out[i] = ch
    # group 2
    idx2 = [i for i, (g, t) in enumerate(toks) if g == 2]
    star = next(i for i in idx2 if toks[i][1] == "N*")
    if core is not None:
        only_n = all(toks[i][1] in ("N", "N*") for i in idx2)
        if only_n:
            before = [i for i in idx2 if i < star]
            after = [i for i in idx2 if i > star]
            if len(core) < len(before) + len(after):
                raise Unsat("core too short")
            for k, i in enumerate(before):
                out[i] = core[k]
            for k, i in enumerate(reversed(after)):
                out[i] = core[len(core) - 1 - k]
            out[star] = core[len(before) : len(core) - len(after)]
        else:
            out[star] = core
    for i, (g, t) in enumerate(toks):
        if out[i] is None:
            if t == "N*":
                out[i] = "".join(rng.choice("ACGT") for _ in range(rng.randint(4, 24)))
            elif t == "N":
                out[i] = rng.choice("ACGT")
            else:
                out[i] = t
    s = "".join(out)
    if flank is None:
        flank = "".join(rng.choice("ACGT") for _ in range(rng.randint(6, 40)))
    return s + flank


def clean_instance(rng, pattern, tries=200, **kw):
    want = literal_sites(pattern)
    for _ in range(tries):
        s = instantiate(rng, pattern, **kw)
        if count_sites(s) == want:
            return s
    raise Unsat("cannot instantiate %r without extra sites" % pattern)


def rand_dna(rng, n):
    while True:
        s = "".join(rng.choice("ACGT") for _ in range(n))
        if not any(count_sites(s, circular=False).values()):
            return s


def mixcase(rng, s):
    return "".join(c.lower() if rng.random() < 0.4 else c for c in s)


def record(rng, s, name, rotate=True, case=False):
    if case:
        s = mixcase(rng, s)
    if rotate:
        k = rng.randrange(len(s))
        s = s[k:] + s[:k]
    return CircularRecord(Seq(s), id=name, name=name)


def overhang_pool(rng, n):
    pool = []
    while len(pool) < n:
        o = "".join(rng.choice("ACGT") for _ in range(4))
        if o == rc(o) or o in pool or rc(o) in pool:
            continue
        pool.append(o)
    return pool


def fixed_overhangs(rng, g1m, g3m):
    while True:
        va, vb = fill_letters(rng, g1m), fill_letters(rng, g3m)
        if va != rc(va) and vb != rc(vb) and va != vb and va != rc(vb):
            return va, vb


def is_stacked(pattern):
    i = pattern.index("(")
    return pattern[i - 4 : i] == "NNNN"


# (kit, [(vector class, module class, next-level class), ...]) level after level
KITS = [
    ("cidar", [
        (cidar.CIDAREntryVector, cidar.CIDARProduct, cidar.CIDAREntry),
        (cidar.CIDARCassetteVector, cidar.CIDAREntry, cidar.CIDARCassette),
        (cidar.CIDARDeviceVector, cidar.CIDARCassette, cidar.CIDARDevice),
    ]),
    ("ecoflex", [
        (ecoflex.EcoFlexCassetteVector, ecoflex.EcoFlexEntry, ecoflex.EcoFlexCassette),
        (ecoflex.EcoFlexDeviceVector, ecoflex.EcoFlexCassette, ecoflex.EcoFlexDevice),
    ]),
    ("moclo", [
        (mkit.MoCloEntryVector, mkit.MoCloProduct, mkit.MoCloEntry),
        (mkit.MoCloCassetteVector, mkit.MoCloEntry, mkit.MoCloCassette),
    ]),
    ("ytk", [
        (ytk.YTKEntryVector, ytk.YTKProduct, ytk.YTKEntry),
    ]),
]


# the published designs of the vectors (what the kits' plasmids look like)
DESIGNS = {
    "CIDAREntryVector": "GGTCTCN(NNNN)(NNGTCTTCN*GAAGACNN)(NNNN)NGAGACC",
    "CIDARCassetteVector": "GAAGACNN(NNNN)(NGAGACCN*GGTCTCN)(NNNN)NNGTCTTC",
    "CIDARDeviceVector": "GGTCTCN(NNNN)(NNGTCTTCN*GAAGACNN)(NNNN)NGAGACC",
    "EcoFlexCassetteVector": "CGTCTCNNNNN(NNNN)(NGAGACCN*?GGTCTCN)(NNNN)NNNNNGAGACG",
    "EcoFlexDeviceVector": "GGTCTCNNNNN(NNNN)(NGAGACGN*CGTCTCN)(NNNN)NNNNNGAGACC",
    "MoCloEntryVector": "GGTCTCN(NNNN)(NNGTCTTCN*GAAGACNN)(NNNN)NGAGACC",
    "MoCloCassetteVector": "GAAGACNNNNNN(NNNN)(NGAGACCN*GGTCTCN)(NNNN)NNNNNNGTCTTC",
    "YTKEntryVector": "N(NNNN)(NGAGACGN*CGTCTCN)(NNNN)N",
}


class Failure(Exception):
    pass


class Builder(object):
    """Builds a module of level `depth` of a kit with given overhangs."""

    def __init__(self, rng, kit, levels, case=False, rotate=True, log=None, annotate=None, designs=None):
        self.designs = designs
        self.rng = rng
        self.kit = kit
        self.levels = levels
        self.case = case
        self.rotate = rotate
        self.counter = 0
        self.log = log if log is not None else []
        self.annotate = annotate
        self.checked = 0

    def name(self, prefix):
        self.counter += 1
        return "%s%d" % (prefix, self.counter)

    def leaf(self, module_cls, a, b):
        """A fresh level-0 module (pattern instance) with overhangs a -> b."""
        rng = self.rng
        pattern = module_cls.structure()
        insert = rand_dna(rng, rng.choice([2, 2, 3, 5, 9, 17, 30]))
        s = clean_instance(rng, pattern, g1=a, g3=b, core=insert)
        rec = record(rng, s, self.name("m"), self.rotate, self.case)
        if self.annotate is not None:
            self.annotate(rec)
        mod = module_cls(rec)
        if not mod.is_valid():
            raise Failure("%s: built module is not valid: %s" % (module_cls.__name__, s))
        return mod, [insert]

    def vector_pattern(self, vector_cls):
        if self.designs is not None:
            return self.designs[vector_cls.__name__]
        return vector_cls.structure()

    def vector(self, vector_cls, a, b, pre=None, post=None):
        pattern = self.vector_pattern(vector_cls)
        kw = {}
        if is_stacked(pattern):
            kw = dict(pre=pre, post=post)
        s = clean_instance(self.rng, pattern, g1=a, g3=b, **kw)
        rec = record(self.rng, s, self.name("v"), self.rotate, self.case)
        if self.annotate is not None:
            self.annotate(rec)
        return vector_cls(rec)

    def chain_overhangs(self, module_cls, n, a, b):
        """Overhangs o_0 = a .. o_n = b for a chain of n modules."""
        g1 = group_pattern(module_cls.structure(), 1)
        g3 = group_pattern(module_cls.structure(), 3)
        fixed = any(c != "N" for c in g1 + g3)
        if fixed:
            return None
        while True:
            inner = overhang_pool(self.rng, n - 1)
            ovs = [a] + inner + [b]
            starts = [o.upper() for o in ovs[:-1]]
            ok = len(set(o.upper() for o in ovs)) == len(ovs)
            ok = ok and not any(rc(x) in starts for x in starts)
            if ok:
                return ovs

    def assemble_level(self, depth, a, b, width=None):
        """Return (next-level module, leaf inserts) with overhangs a -> b.

        The module is NextClass(product) where product is the assembly of
        1..3 modules of level `depth` in a vector of level `depth`.
        """
        rng = self.rng
        vector_cls, module_cls, next_cls = self.levels[depth]
        pattern = self.vector_pattern(vector_cls)
        stacked = is_stacked(pattern)
        g1m = group_pattern(module_cls.structure(), 1)
        g3m = group_pattern(module_cls.structure(), 3)
        fixed = any(c != "N" for c in g1m + g3m)
        if stacked:
            va, vb = overhang_pool(rng, 2)
        else:
            va, vb = a, b
        if fixed:
            # module overhangs dictated by the module pattern (YTK products)
            n = 1
            va, vb = fixed_overhangs(rng, g1m, g3m)
            if not stacked:
                a, b = va, vb
        else:
            n = width or rng.choice([1, 1, 2, 3])
        ovs = [va, vb] if n == 1 else self.chain_overhangs(module_cls, n, va, vb)
        mods, inserts = [], []
        for k in range(n):
            if depth == 0:
                m, ins = self.leaf(module_cls, ovs[k], ovs[k + 1])
            else:
                m, ins = self.assemble_level(depth - 1, ovs[k], ovs[k + 1])
                if type(m) is not module_cls:
                    m = module_cls(m.record)
            mods.append(m)
            inserts.extend(ins)
        vector = self.vector(vector_cls, va, vb, pre=a, post=b)
        if not vector.is_valid():
            raise Failure("%s: built vector is not valid" % vector_cls.__name__)
        order = list(mods)
        rng.shuffle(order)
        with warnings.catch_warnings():
            warnings.simplefilter("error")
            try:
                product = vector.assemble(*order)
            except Exception as e:
                raise Failure(
                    "%s.assemble(%s) raised %s: %s"
                    % (vector_cls.__name__, ", ".join(type(m).__name__ for m in order), type(e).__name__, e)
                )
        self.check_product(depth, product, inserts, a, b, stacked or not fixed)
        return next_cls(product), inserts

    def check_product(self, depth, product, inserts, a, b, check_overhangs=True):
        vector_cls, module_cls, next_cls = self.levels[depth]
        tag = "%s + %s -> %s" % (vector_cls.__name__, module_cls.__name__, next_cls.__name__)
        seq = str(product.seq)
        # premise of the property: only the two next-level sites of the design
        nxt = next_cls.cutter.site
        n_sites = count_sites(seq)[nxt] + count_sites(seq)[rc(nxt)]
        for form in (product, product >> self.rng.randrange(1, len(seq)), product >> 3):
            nm = next_cls(form)
            if not nm.is_valid():
                raise Failure(
                    "%s: product is NOT a valid %s (next-level sites in product: %d): %s"
                    % (tag, next_cls.__name__, n_sites, seq)
                )
            target = str(nm.target_sequence().seq).upper()
            pos = 0
            for ins in inserts:
                p = target.find(ins.upper(), pos)
                if p < 0:
                    raise Failure("%s: insert %s missing (or out of chain order) in the %s target %s" % (tag, ins, next_cls.__name__, target))
                pos = p + len(ins)
            if check_overhangs:
                got = (str(nm.overhang_start()).upper(), str(nm.overhang_end()).upper())
                if got != (a.upper(), b.upper()):
                    raise Failure("%s: next-level overhangs %s, design provides %s" % (tag, got, (a.upper(), b.upper())))
        self.checked += 1
        self.log.append((tag, len(inserts)))


def run_kit(rng, kit, levels, top=None, **kw):
    """Run a full composition up to level `top` (default: all levels)."""
    top = len(levels) - 1 if top is None else top
    for _ in range(100):
        b = Builder(rng, kit, levels, **kw)
        x, y = overhang_pool(rng, 2)
        try:
            mod, inserts = b.assemble_level(top, x, y)
        except Unsat:
            continue  # unlucky overhangs creating a site: draw again
        b.result = mod
        return b
    raise Unsat("no design found")


def all_rotations_check(rng, kit, levels, depth, designs=None):
    for _ in range(100):
        try:
            return _all_rotations_check(rng, kit, levels, depth, designs)
        except Unsat:
            continue
    raise Unsat("no design found")


def _all_rotations_check(rng, kit, levels, depth, designs=None):
    """All rotations of the vector and of one module give the same product."""
    vector_cls, module_cls, next_cls = levels[depth]
    b = Builder(rng, kit, levels, rotate=False, designs=designs)
    g1m = group_pattern(module_cls.structure(), 1)
    g3m = group_pattern(module_cls.structure(), 3)
    fixed = any(c != "N" for c in g1m + g3m)
    if fixed:
        va, vb = fixed_overhangs(rng, g1m, g3m)
        ovs = [va, vb]
    else:
        va, vb = overhang_pool(rng, 2)
        ovs = b.chain_overhangs(module_cls, 2, va, vb)
    x, y = overhang_pool(rng, 2)
    mods, inserts = [], []
    for k in range(len(ovs) - 1):
        if depth == 0:
            m, ins = b.leaf(module_cls, ovs[k], ovs[k + 1])
        else:
            m, ins = b.assemble_level(depth - 1, ovs[k], ovs[k + 1], width=1)
            m = module_cls(m.record)
        mods.append(m)
        inserts.extend(ins)
    vector = b.vector(vector_cls, va, vb, pre=x, post=y)
    ref = str(vector.assemble(*mods).seq).upper()
    stacked = is_stacked(b.vector_pattern(vector_cls))
    a, bb = (x, y) if stacked else (va, vb)

    def same(p):
        s = str(p.seq).upper()
        return len(s) == len(ref) and s in ref + ref

    n = 0
    for k in range(len(vector.record)):
        v = vector_cls(vector.record >> k)
        p = v.assemble(*mods)
        if not same(p):
            raise Failure("%s rotated by %d: different product" % (vector_cls.__name__, k))
        if k % 7 == 0:
            b.check_product(depth, p, inserts, a, bb, stacked or not fixed)
        n += 1
    for k in range(len(mods[0].record)):
        m = module_cls(mods[0].record >> k)
        try:
            p = vector.assemble(m, *mods[1:])
        except Exception as e:
            raise Failure("%s rotated by %d in %s: %s: %s" % (module_cls.__name__, k, vector_cls.__name__, type(e).__name__, e))
        if not same(p):
            raise Failure("%s rotated by %d: different product" % (module_cls.__name__, k))
        n += 1
    return n


# ---------------------------------------------------------------------------
# digest
# ---------------------------------------------------------------------------
LINES = []


def emit(*items):
    LINES.append(re.sub(r" at 0x[0-9a-fA-F]+", " at 0x?", " | ".join(str(x) for x in items)))


def d_ref(r):
    if isinstance(r, Reference):
        return "Ref(%s;%s;%s)" % (r.title, r.authors, r.journal)
    return repr(r)


def d_val(v):
    if isinstance(v, (list, tuple)):
        return "[" + ",".join(d_val(x) for x in v) + "]"
    if isinstance(v, Reference):
        return d_ref(v)
    if isinstance(v, SeqRecord):
        return "<rec %s>" % v.id
    if isinstance(v, Seq):
        return "Seq(%s)" % str(v)
    if hasattr(v, "record") and isinstance(getattr(v, "record", None), SeqRecord):
        return "<%s %s>" % (type(v).__name__, v.record.id)
    return repr(v)


def d_feature(f):
    quals = ";".join("%s=%s" % (k, d_val(f.qualifiers[k])) for k in sorted(f.qualifiers))
    return "%s@%s#%s{%s}" % (f.type, f.location, f.id, quals)


def d_record(rec):
    if rec is None:
        return "None"
    if isinstance(rec, Seq):
        return "Seq:%s" % str(rec)
    ants = ";".join("%s=%s" % (k, d_val(rec.annotations[k])) for k in sorted(rec.annotations))
    feats = "/".join(d_feature(f) for f in rec.features)
    h = hashlib.sha256(
        "|".join([str(rec.seq), rec.id, rec.name, rec.description, repr(rec.dbxrefs), ants, feats, repr(dict(rec.letter_annotations))]).encode()
    ).hexdigest()[:16]
    return "%s:%s:len%d:%s:%s:%dfeat:%s" % (type(rec).__name__, rec.id, len(rec), str(rec.seq)[:12], h, len(rec.features), ants[:80])


def d_exc(e):
    attrs = []
    for a in ("sequence", "exc", "details", "duplicates", "start_overhang", "remaining"):
        if hasattr(e, a):
            attrs.append("%s=%s" % (a, d_val(getattr(e, a))))
    return "%s(%s) args=%s %s cause=%s supp=%s ctx=%s" % (
        type(e).__name__,
        str(e)[:200],
        d_val(list(e.args)),
        ",".join(attrs),
        type(e.__cause__).__name__,
        e.__suppress_context__,
        type(e.__context__).__name__,
    )


def attempt(label, fn, *args, **kwargs):
    with warnings.catch_warnings(record=True) as caught:
        warnings.simplefilter("always")
        try:
            r = fn(*args, **kwargs)
            if isinstance(r, (SeqRecord, Seq)):
                out = d_record(r)
            else:
                out = d_val(r)
            emit(label, "OK", out)
        except Exception as e:  # noqa
            r = None
            emit(label, "EXC", d_exc(e))
    for w in caught:
        if issubclass(w.category, errors.MocloError) or w.category in (UserWarning,):
            emit(label, "WARN", w.category.__name__, str(w.message), d_val(list(getattr(w.message, "args", ()))), d_val(getattr(w.message, "remaining", None)))
    return r


# --------------------------------------------------------------------------
# 1. structures of every class of every kit, and of the core for many enzymes
# --------------------------------------------------------------------------
def section_structures():
    for mod in (cidar, ecoflex, ytk, mkit, plant):
        for name, obj in sorted(vars(mod).items()):
            if inspect.isclass(obj) and issubclass(obj, _structured.StructuredRecord):
                attempt("structure %s.%s" % (mod.__name__, name), obj.structure)
                emit("mro", name, [c.__name__ for c in obj.__mro__], getattr(obj, "cutter", None), getattr(obj, "_level", None), getattr(obj, "signature", None))
                kind = type(vars(obj).get("structure")).__name__ if "structure" in vars(obj) else "-"
                emit("structure-kind", name, kind)
                try:
                    rx = obj._get_regex()
                    emit("regex", name, rx.pattern, rx.regex.pattern, rx is obj._get_regex())
                except Exception as e:  # noqa
                    emit("regex", name, "EXC", d_exc(e))
    for enzyme in (BsaI, BbsI, BpiI, BsmBI, SapI, BseRI, BtsI, EcoRV, NotImplemented):
        for base in (modules.AbstractModule, modules.Product, modules.Entry, modules.Cassette, modules.Device,
                     vectors.AbstractVector, vectors.EntryVector, vectors.CassetteVector, vectors.DeviceVector):
            cls = type(str("X"), (base,), {"cutter": enzyme})
            attempt("core structure %s %s" % (base.__name__, enzyme), cls.structure)
            attempt("core new %s %s" % (base.__name__, enzyme), lambda: type(cls(SeqRecord(Seq("ACGT")))).__name__)
        for sig in (("ATGC", "GGTA"), ("NNNN", "TACT")):
            for base in (modules.Entry, vectors.CassetteVector):
                cls = type(str("P"), (parts.AbstractPart, base), {"cutter": enzyme, "signature": sig})
                attempt("part structure %s %s %s" % (base.__name__, enzyme, sig), cls.structure)


# --------------------------------------------------------------------------
# 2. generated assemblies (harness), all kits, chains, rotations, case
# --------------------------------------------------------------------------


def load_harness():
    return globals()


def make_annotator(rng):
    refs = []
    for i in range(4):
        r = Reference()
        r.title = "Title %d" % i
        r.authors = "Author %d" % i
        r.journal = "Journal %d" % i
        refs.append(r)

    def annotate(rec):
        k = rng.randint(0, 3)
        mine = [copy.deepcopy(r) for r in rng.sample(refs, k)]
        if mine or rng.random() < 0.5:
            rec.annotations["references"] = mine
        n = len(rec)
        for j in range(rng.randint(0, 3)):
            a = rng.randrange(0, n - 1)
            b = rng.randrange(a + 1, n)
            quals = {"label": ["f%d" % j]}
            if mine and rng.random() < 0.7:
                quals["citation"] = ["[%d]" % (rng.randrange(len(mine)) + 1) for _ in range(rng.randint(1, 2))]
            rec.features.append(SeqFeature(FeatureLocation(a, b, strand=rng.choice([1, -1])), type=rng.choice(["CDS", "misc_feature", "source"]), qualifiers=quals))
        if rng.random() < 0.3:
            rec.letter_annotations["q"] = [rng.randrange(40) for _ in range(n)]
        if rng.random() < 0.3:
            rec.annotations["topology"] = rng.choice(["circular", "Circular"])
        rec.description = "desc %d" % rng.randrange(1000)
        rec.dbxrefs = ["db:%d" % rng.randrange(10)]

    return annotate


class Spy(object):
    """Wraps Builder classes so that every call through the API is digested."""


def section_assemblies(H):
    rng = random.Random(20240611)
    annot = make_annotator(random.Random(5))
    Builder = H["Builder"]
    orig_vector = Builder.vector
    orig_leaf = Builder.leaf
    orig_check = Builder.check_product
    inputs = []

    def vector(self, *a, **k):
        v = orig_vector(self, *a, **k)
        inputs.append(v)
        describe_entity("vector", v)
        return v

    def leaf(self, *a, **k):
        m, ins = orig_leaf(self, *a, **k)
        inputs.append(m)
        describe_entity("module", m)
        return m, ins

    def check_product(self, depth, product, inserts, a, b, check_overhangs=True):
        emit("product", d_record(product), str(product.seq), "/".join(d_feature(f) for f in product.features)[:4000], d_val(product.annotations.get("comment")), d_val(product.annotations.get("references")))
        nxt = self.levels[depth][2](product)
        describe_entity("next", nxt)
        return orig_check(self, depth, product, inserts, a, b, check_overhangs)

    Builder.vector, Builder.leaf, Builder.check_product = vector, leaf, check_product
    try:
        for kit, levels in H["KITS"]:
            for rep in range(5):
                for case in (False, True):
                    for ann in (None, annot):
                        try:
                            b = H["run_kit"](rng, kit, levels, case=case, annotate=ann)
                            emit("run", kit, rep, case, ann is not None, b.checked, b.log)
                        except H["Failure"] as e:
                            emit("run", kit, rep, case, ann is not None, "FAILURE", str(e)[:300])
        for m in inputs:
            emit("input-after", d_record(m.record), "/".join(d_feature(f) for f in m.record.features)[:2000])
    finally:
        Builder.vector, Builder.leaf, Builder.check_product = orig_vector, orig_leaf, orig_check


def describe_entity(label, ent):
    name = "%s %s %s" % (label, type(ent).__name__, ent.record.id)
    attempt(name + " valid", ent.is_valid)
    attempt(name + " ovh_start", ent.overhang_start)
    attempt(name + " ovh_end", ent.overhang_end)
    t = attempt(name + " target", ent.target_sequence)
    if t is not None:
        emit(name, "target-full", str(t.seq), "/".join(d_feature(f) for f in t.features)[:3000])
    if hasattr(ent, "placeholder_sequence"):
        p = attempt(name + " placeholder", ent.placeholder_sequence)
        if p is not None:
            emit(name, "placeholder-full", str(p.seq), "/".join(d_feature(f) for f in p.features)[:3000])
    try:
        m = ent._match
        emit(name, "match", [tuple(m.span(i)) for i in range(4)], [str(getattr(m.group(i), "seq", m.group(i))) for i in range(4)], m.start(), m.end(), type(m.rec).__name__)
    except Exception as e:  # noqa
        emit(name, "match EXC", d_exc(e))


# --------------------------------------------------------------------------
# 3. hand-made cases: failing assemblies, SeqRecord inputs, 3' enzymes
# --------------------------------------------------------------------------
class MockVector(vectors.AbstractVector):
    cutter = BpiI


class MockModule(modules.AbstractModule):
    cutter = BpiI


class ThreeVector(vectors.AbstractVector):
    cutter = BtsI

    @staticmethod
    def structure():
        return "(NN)(CACTGCN*GCAGTG)(NN)"


class ThreeModule(modules.AbstractModule):
    cutter = BtsI

    @staticmethod
    def structure():
        return "GCAGTG(NN)(NN*N)(NN)CACTGC"


def section_handmade():
    def circ(s, i):
        return CircularRecord(Seq(s), id=i, name=i)

    V = "CCATGCTTGTCTTCCACAGAAGACTTCGTAGG"
    cases = {
        "same-overhangs": ("CCATGCTTGTCTTCCACAGAAGACTTATGCGG", ["GAAGACTTATGCCACAATGCTTGTCTTC"]),
        "duplicates": (V, ["GAAGACTTATGCCACACGTATTGTCTTC", "GAAGACTTATGCTATACGTATTGTCTTC"]),
        "missing": (V, ["GAAGACTTATGACACACGTATTGTCTTC"]),
        "unused": (V, ["GAAGACTTATGCTATACGTATTGTCTTC", "GAAGACTTAAAACACACCCCTTGTCTTC"]),
        "revcomp": (V, ["GAAGACTTATGCTATAGGTATTGTCTTC", "GAAGACTTGGTATATAGCATTTGTCTTC", "GAAGACTTGCATTATACGTATTGTCTTC"]),
        "two": (V, ["GAAGACTTATGCTATAGGTATTGTCTTC", "GAAGACTTGGTATATACGTATTGTCTTC"]),
        "two-missing-last": (V, ["GAAGACTTATGCTATAGGTATTGTCTTC", "GAAGACTTGGTATATACCTATTGTCTTC"]),
        "lower": (V.lower(), ["gaagacttatgctataggtattgtcttc", "GAAGACTTGGTATATACGTATTGTCTTC".swapcase()]),
        "illegal-module": (V, ["GAAGACTTATGCTAGAAGACTACGTATTGTCTTC"]),
        "illegal-vector": ("CCATGCTTGTCTTCCAGTCTTCCAGAAGACTTCGTAGG", ["GAAGACTTATGCTATACGTATTGTCTTC"]),
        "not-a-module": (V, ["ACGTACGTACGT"]),
        "not-a-vector": ("ACGTACGATCGATCGATCG", ["GAAGACTTATGCTATACGTATTGTCTTC"]),
    }
    for name in sorted(cases):
        vs, ms = cases[name]
        for rot in (0, 5, 13):
            vec = MockVector(circ(vs, "vector") >> rot)
            mods = [MockModule(circ(m, "mod%d" % (i + 1)) >> (rot * (i + 1))) for i, m in enumerate(ms)]
            for order in (mods, mods[::-1]):
                r = attempt("hand %s rot%d assemble" % (name, rot), vec.assemble, *order)
                if r is not None:
                    emit("hand", name, rot, str(r.seq), "/".join(d_feature(f) for f in r.features), d_val(r.annotations.get("comment")))
            attempt("hand %s rot%d kw" % (name, rot), vec.assemble, *mods, id="myid", name="myname")
            mgr = None
            try:
                mgr = _assembly.AssemblyManager(vec, list(mods), "i", "n")
                emit("mgr", name, rot, mgr.id, mgr.name, len(mgr.elements), len(mgr.modules), mgr.vector is vec)
                attempt("mgr assemble 1", mgr.assemble)
                attempt("mgr assemble 2", mgr.assemble)
            except Exception as e:  # noqa
                emit("mgr", name, rot, "EXC", d_exc(e))
            for ent in [vec] + mods:
                describe_entity("hand-" + name, ent)
    # plain SeqRecord inputs and Seq inputs
    for s in (V, V[10:] + V[:10]):
        for topo in (None, "linear", "circular", "CIRCULAR"):
            rec = SeqRecord(Seq(s), id="plain")
            if topo:
                rec.annotations["topology"] = topo
            ent = MockVector(rec)
            describe_entity("plain-%s" % topo, ent)
            attempt("plain assemble", ent.assemble, MockModule(circ("GAAGACTTATGCTATACGTATTGTCTTC", "m")))
            crec = CircularRecord(Seq(s), id="circ")
            if topo:
                crec.annotations["topology"] = topo
            describe_entity("circ-%s" % topo, MockVector(crec))
    attempt("seq input", lambda: MockVector(Seq(V)).is_valid())
    attempt("str input", lambda: MockVector(V).is_valid())
    # 3' overhang enzymes (custom structures)
    v3 = "TT" + "AC" + "CACTGC" + "TTTTT" + "GCAGTG" + "GA" + "TTACG"
    m3 = "GCAGTG" + "AC" + "TTAATT" + "GA" + "CACTGC" + "AAA"
    for rot in (0, 3, 9, 17):
        vec = ThreeVector(circ(v3, "v3") >> rot)
        mod = ThreeModule(circ(m3, "m3") >> rot)
        describe_entity("three", vec)
        describe_entity("three", mod)
        r = attempt("three assemble", vec.assemble, mod)
        if r is not None:
            emit("three", str(r.seq))
    # rotation edge: every rotation of a vector and a module
    vec0 = circ(V, "vector")
    mod0 = circ("GAAGACTTATGCTATACGTATTGTCTTC", "mod1")
    for k in range(len(V)):
        r = attempt("rotv %d" % k, MockVector(vec0 >> k).assemble, MockModule(mod0))
        if r is not None:
            emit("rotv", k, str(r.seq))
    for k in range(len(mod0)):
        r = attempt("rotm %d" % k, MockVector(vec0).assemble, MockModule(mod0 >> k))
        if r is not None:
            emit("rotm", k, str(r.seq))


# --------------------------------------------------------------------------
# 4. citations through the assembly manager
# --------------------------------------------------------------------------
def section_citations():
    rng = random.Random(77)

    def ref(i):
        r = Reference()
        r.title = "T%d" % i
        r.authors = "A%d" % i
        return r

    V = "CCATGCTTGTCTTCCACAGAAGACTTCGTAGG"
    M1 = "GAAGACTTATGCTATAGGTATTGTCTTC"
    M2 = "GAAGACTTGGTATATACGTATTGTCTTC"
    for trial in range(12):
        recs = []
        for i, s in enumerate((V, M1, M2)):
            rec = CircularRecord(Seq(s), id="r%d" % i, name="r%d" % i)
            nrefs = rng.randint(0, 3)
            if nrefs or rng.random() < 0.5:
                rec.annotations["references"] = [ref(rng.randrange(4)) for _ in range(nrefs)]
            for j in range(rng.randint(0, 3)):
                quals = {"label": ["x%d" % j]}
                choice = rng.random()
                if nrefs and choice < 0.7:
                    quals["citation"] = ["[%d]" % rng.randint(1, nrefs) for _ in range(rng.randint(1, 2))]
                elif choice < 0.8:
                    quals["citation"] = ["[9]"]
                elif choice < 0.85:
                    quals["citation"] = ["nine"]
                a = rng.randrange(0, len(s) - 2)
                rec.features.append(SeqFeature(FeatureLocation(a, rng.randrange(a + 1, len(s))), type="misc_feature", qualifiers=quals))
            recs.append(rec)
        vec = MockVector(recs[0])
        mods = [MockModule(recs[1]), MockModule(recs[2])]
        r = attempt("cit %d" % trial, vec.assemble, *mods)
        if r is not None:
            emit("cit", trial, d_record(r), "/".join(d_feature(f) for f in r.features), d_val(r.annotations.get("references")))
            # second round: the product used again (as a vector this time is impossible; rotate and redo)
        for rec in recs:
            emit("cit-after", trial, d_record(rec), "/".join(d_feature(f) for f in rec.features), d_val(rec.annotations.get("references", "ABSENT")))
        r2 = attempt("cit %d again" % trial, vec.assemble, *mods)
        if r2 is not None:
            emit("cit-again", trial, d_record(r2), "/".join(d_feature(f) for f in r2.features), d_val(r2.annotations.get("references")))
    mgr = _assembly.AssemblyManager(MockVector(CircularRecord(Seq(V), id="v")), [MockModule(CircularRecord(Seq(M1), id="a")), MockModule(CircularRecord(Seq(M2), id="b"))])
    for name in ("_deref_citations", "_ref_citations", "_annotate_assembly", "_generate_modules_map", "_generate_assembly", "_CITATION_RX"):
        emit("mgr-attr", name, hasattr(mgr, name), callable(getattr(mgr, name, None)))
    emit("rx", mgr._CITATION_RX.pattern)
    mm = mgr._generate_modules_map()
    emit("modmap", sorted((str(k), type(k).__name__, v.record.id) for k, v in mm.items()))
    a = mgr._generate_assembly(mm)
    emit("gen", d_record(a), sorted(str(k) for k in mm))
    rec = CircularRecord(Seq("ACGT" * 5), id="c")
    r0, r1 = ref(0), ref(1)
    rec.annotations["references"] = [r0, r1]
    rec.features.append(SeqFeature(FeatureLocation(0, 5), type="misc_feature", qualifiers={"citation": ["[2]", "[1]"]}))
    mgr._deref_citations(rec)
    emit("deref", "/".join(d_feature(f) for f in rec.features), rec.features[0].qualifiers["citation"][0] is r1)
    rec.annotations["references"] = [r1]
    mgr._ref_citations(rec)
    emit("ref", "/".join(d_feature(f) for f in rec.features), d_val(rec.annotations["references"]), rec.annotations["references"][1] is r0)
    rec2 = CircularRecord(Seq("ACGT" * 5), id="c2")
    mgr._deref_citations(rec2)
    emit("deref-noref", sorted(rec2.annotations))
    mgr._ref_citations(rec2)
    emit("ref-noref", sorted(rec2.annotations), rec2.annotations.get("references", "ABSENT"))


# --------------------------------------------------------------------------
# 5. regex / match API, errors API
# --------------------------------------------------------------------------
def section_regex_errors():
    rng = random.Random(3)
    for pat in ("AA(NN)", "GGTCTCN(NNNN)(NN*N)(NNNN)NGAGACC", "(NN)(N*?)(TT)", "ATNN(N*)GC"):
        dr = DNARegex(pat)
        emit("dnaregex", dr.pattern, dr.regex.pattern)
        for trial in range(12):
            n = rng.randint(6, 40)
            s = "".join(rng.choice("ACGTacgt") for _ in range(n))
            for obj in (Seq(s), SeqRecord(Seq(s), id="x"), CircularRecord(Seq(s), id="y")):
                for kw in ({}, {"linear": False}, {"linear": True}, {"pos": 3}, {"pos": 2, "endpos": 9, "linear": False}):
                    try:
                        m = dr.search(obj, **kw)
                    except Exception as e:  # noqa
                        emit("search", pat, s, type(obj).__name__, sorted(kw.items()), "EXC", d_exc(e))
                        continue
                    if m is None:
                        emit("search", pat, s, type(obj).__name__, sorted(kw.items()), None)
                    else:
                        groups = []
                        for i in range(dr.regex.groups + 1):
                            g = m.group(i)
                            groups.append((tuple(m.span(i)), m.span(i) == tuple(m.span(i)), type(g).__name__, str(getattr(g, "seq", g))))
                        emit("search", pat, s, type(obj).__name__, sorted(kw.items()), m.start(), m.end(), tuple(m.span()), groups, m.shift, m.rec is obj, m.match.re.pattern)
        attempt("search positional", lambda: tuple(dr.search(Seq("ATGCAAGCAATAGC"), 0, 100, False).span()))
        attempt("search str", dr.search, "ATGC")
    # errors
    rec = SeqRecord(Seq("ACGT"), id="rid")
    mod = MockModule(CircularRecord(Seq("ACGT"), id="mid"))
    mod2 = MockModule(CircularRecord(Seq("ACGT"), id="mid2"))
    excs = [
        errors.InvalidSequence(rec),
        errors.InvalidSequence(rec, details="some details"),
        errors.InvalidSequence(rec, ValueError("x"), "d"),
        errors.InvalidSequence(Seq("ACGT"), details="d"),
        errors.IllegalSite(Seq("ACGT")),
        errors.IllegalSite(rec, details="ill"),
        errors.DuplicateModules(mod, mod2),
        errors.DuplicateModules(mod, mod2, details="dd"),
        errors.DuplicateModules(),
        errors.MissingModule("ATGC"),
        errors.MissingModule(Seq("ATGC"), details="mm"),
        errors.UnusedModules(mod),
        errors.UnusedModules(mod, mod2, details=3),
        errors.UnusedModules(),
        errors.MocloError("m"),
        errors.AssemblyError("a", 1),
        errors.AssemblyWarning("w"),
    ]
    for e in excs:
        emit("error", d_exc(e), repr(str(e)), [c.__name__ for c in type(e).__mro__])
    for bad in (lambda: errors.InvalidSequence(), lambda: errors.MissingModule(), lambda: errors.MissingModule("a", "b"),
                lambda: errors.InvalidSequence(rec, bogus=1), lambda: errors.DuplicateModules(mod, bogus=1), lambda: errors.MissingModule("a", bogus=2)):
        try:
            e = bad()
            emit("error-ctor", "OK", d_exc(e))
        except Exception as e:  # noqa
            emit("error-ctor", "EXC", type(e).__name__, re.sub(r"^.*?__init__", "__init__", str(e)))
    # add_as_source / cutter_check
    dst = SeqRecord(Seq("ACGTACGT"), id="dst")
    out = core_utils.add_as_source(rec, dst)
    emit("add_as_source", out is dst, "/".join(d_feature(f) for f in dst.features))
    out = core_utils.add_as_source(rec, dst, FeatureLocation(1, 3))
    emit("add_as_source", out is dst, "/".join(d_feature(f) for f in dst.features))
    out = core_utils.add_as_source(src_record=rec, dst_record=dst, location=None)
    emit("add_as_source", out is dst, len(dst.features))
    for c in (BsaI, EcoRV, NotImplemented):
        attempt("cutter_check %s" % c, core_utils.cutter_check, c, "Name")
        attempt("cutter_check kw %s" % c, core_utils.cutter_check, cutter=c, name="Name")


# --------------------------------------------------------------------------
# 6. registries
# --------------------------------------------------------------------------
def section_registries():
    from moclo.registry.cidar import CIDARRegistry
    from moclo.registry.ytk import YTKRegistry, PTKRegistry
    from moclo.registry.ecoflex import EcoFlexRegistry
    from moclo.registry.plant import PlantRegistry

    for R in (CIDARRegistry, YTKRegistry, PTKRegistry, EcoFlexRegistry, PlantRegistry):
        try:
            reg = R()
            keys = sorted(reg)
        except Exception as e:  # noqa
            emit("registry", R.__name__, "EXC", d_exc(e))
            continue
        emit("registry", R.__name__, len(reg), len(keys))
        for k in keys:
            item = reg[k]
            ent = item.entity
            line = [R.__name__, k, item.name, item.resistance, type(ent).__name__]
            try:
                line.append(ent.is_valid())
                line.append(str(ent.overhang_start()))
                line.append(str(ent.overhang_end()))
                t = ent.target_sequence()
                line.append(hashlib.sha256(str(t.seq).encode()).hexdigest()[:12])
                line.append(len(t.features))
                line.append([tuple(ent._match.span(i)) for i in range(4)])
                if hasattr(ent, "placeholder_sequence"):
                    line.append(hashlib.sha256(str(ent.placeholder_sequence().seq).encode()).hexdigest()[:12])
            except Exception as e:  # noqa
                line.append("EXC " + d_exc(e)[:200])
            emit("item", *line)
    # real assemblies
    reg = CIDARRegistry()
    for vec, mods in (("DVK_EF", ("J23102_EB", "BCD2_BC", "E1010m_CD", "B0015_DF")), ("DVK_AE", ("J23102_AB", "BCD2_BC", "E1010m_CD", "B0015_DE")),
                      ("DVA_AF", ("pJ02B2Rm_AE", "pJ02B2Gm_EF")), ("DVA_AE", ("J23102_AB",)), ("DVK_AE", ("J23102_EB", "BCD2_BC"))):
        r = attempt("cidar assembly %s" % vec, reg[vec].entity.assemble, *[reg[m].entity for m in mods])
        if r is not None:
            emit("cidar", vec, hashlib.sha256(str(r.seq).encode()).hexdigest(), d_record(r), hashlib.sha256("/".join(d_feature(f) for f in r.features).encode()).hexdigest())
            nxt = {"DVK": cidar.CIDARCassette, "DVA": cidar.CIDARDevice}[vec[:3]](r)
            describe_entity("cidar-next", nxt)


def public_api():
    for mod in (moclo.core, modules, vectors, parts, _assembly, _structured, core_utils, errors, moclo.regex, moclo.record):
        names = sorted(n for n in vars(mod) if not n.startswith("__"))
        emit("names", mod.__name__, [n for n in names if n in EXPECTED_NAMES.get(mod.__name__, names)])


EXPECTED_NAMES = {}


def main():
    H = load_harness()
    section_structures()
    section_assemblies(H)
    section_handmade()
    section_citations()
    section_regex_errors()
    section_registries()
    text = "\n".join(LINES)
    dump = os.environ.get("EQUIV_DUMP")
    if dump:
        with open(dump, "w") as f:
            f.write(text + "\n")
    print("lines: %d" % len(LINES))
    print("digest: %s" % hashlib.sha256(text.encode()).hexdigest())


if __name__ == "__main__":
    main()
