# coding: utf-8
"""Differential test: prints a digest that must be identical on the pristine
tree and on the refactored tree.  Run as

    cd /tmp/agentsR/R7 && /venv/bin/python refactor_out/<dir>/equiv.py
"""
import sys
import warnings

warnings.filterwarnings("ignore", category=UserWarning)
warnings.filterwarnings("ignore", category=DeprecationWarning)

sys.path.insert(0, "/tmp/agentsR/R7")
import tests  # noqa: E402,F401  (splices the kit packages into the moclo namespace)

import hashlib  # noqa: E402
import random  # noqa: E402

from Bio.Seq import Seq  # noqa: E402
from Bio.SeqFeature import SeqFeature, FeatureLocation, CompoundLocation  # noqa: E402
from Bio.SeqRecord import SeqRecord  # noqa: E402
from Bio import Restriction  # noqa: E402
from Bio.Restriction import BsaI, BpiI, BsmBI, BseRI, BtsI, SapI, EcoRV  # noqa: E402

from moclo import errors  # noqa: E402
from moclo.record import CircularRecord  # noqa: E402
from moclo.core.vectors import AbstractVector  # noqa: E402
from moclo.core.modules import AbstractModule  # noqa: E402
from moclo.core.parts import AbstractPart  # noqa: E402

RESULTS = []

IUPAC = {
    "A": "A", "C": "C", "G": "G", "T": "T",
    "B": "CGT", "D": "AGT", "H": "ACT", "K": "GT", "M": "AC", "N": "ACGT",
    "R": "AG", "S": "CG", "V": "ACG", "W": "AT", "Y": "CT",
}


# --- canonical description of results ---------------------------------------


def canon_location(loc):
    if loc is None:
        return None
    return repr(loc)


def canon_feature(feat):
    quals = sorted((str(k), repr(v)) for k, v in feat.qualifiers.items())
    return (feat.type, canon_location(feat.location), feat.id, quals)


def canon(obj, depth=0):
    """Return a deterministic, address-free description of `obj`."""
    if depth > 6:
        return "<deep>"
    if isinstance(obj, BaseException):
        extra = []
        for attr in ("details", "start_overhang"):
            if hasattr(obj, attr):
                extra.append((attr, canon(getattr(obj, attr), depth + 1)))
        for attr in ("duplicates", "remaining"):
            if hasattr(obj, attr):
                extra.append((attr, [canon(x, depth + 1) for x in getattr(obj, attr)]))
        try:
            msg = str(obj)
        except Exception as exc:  # the message itself can fail to render
            msg = ("<str failed>", type(exc).__name__, str(exc))
        return ("EXC", type(obj).__name__, msg, extra)
    if isinstance(obj, SeqRecord):
        return (
            "REC",
            type(obj).__name__,
            str(obj.seq),
            obj.id,
            obj.name,
            obj.description,
            sorted((str(k), repr(v)) for k, v in obj.annotations.items()),
            [canon_feature(f) for f in obj.features],
            list(obj.dbxrefs),
        )
    if isinstance(obj, Seq):
        return ("SEQ", str(obj))
    if isinstance(obj, (AbstractVector, AbstractModule, AbstractPart)):
        return ("ENT", type(obj).__name__, canon(obj.record, depth + 1))
    if isinstance(obj, (list, tuple)):
        return [canon(x, depth + 1) for x in obj]
    if isinstance(obj, dict):
        return sorted((repr(k), canon(v, depth + 1)) for k, v in obj.items())
    if isinstance(obj, type):
        return ("CLS", obj.__module__, obj.__name__)
    if obj is None or isinstance(obj, (bool, int, float, str, bytes)):
        return obj
    return ("OBJ", type(obj).__name__)


def attempt(label, func, *args, **kwargs):
    """Call `func`, recording either its result or the raised exception."""
    with warnings.catch_warnings(record=True) as caught:
        warnings.simplefilter("always")
        try:
            out = ("OK", canon(func(*args, **kwargs)))
        except Exception as exc:
            out = ("RAISED", canon(exc))
    warned = [
        (w.category.__name__, canon(w.message))
        for w in caught
        if isinstance(w.message, errors.MocloError)
    ]
    RESULTS.append((label, out, warned))
    return out


def finish():
    import re

    text = re.sub(r" at 0x[0-9a-fA-F]+", " at 0x?", repr(RESULTS))
    blob = text.encode("utf-8")
    print(len(RESULTS), "observations")
    print(hashlib.sha256(blob).hexdigest())


# --- generators ---------------------------------------------------------------


def rand_dna(rng, n, alphabet="ACGT"):
    return "".join(rng.choice(alphabet) for _ in range(n))


def instantiate(pattern, rng, filler=None, overhangs=None):
    """Generate a sequence matching a moclo structure pattern.

    ``N*`` is replaced by `filler` (random when `None`), the capture groups
    are dropped, IUPAC letters are drawn at random.  When `overhangs` is given
    it is a list of strings substituted, in order, for the capture groups that
    are made of 'N' only and have the same length.
    """
    overhangs = list(overhangs or [])
    out = []
    i = 0
    while i < len(pattern):
        c = pattern[i]
        if c == "(" and overhangs:
            j = pattern.find(")", i)
            inner = pattern[i + 1 : j] if j > 0 else ""
            if inner and set(inner) == {"N"} and len(inner) == len(overhangs[0]):
                out.append(overhangs.pop(0))
                i = j + 1
                continue
        if c in "()":
            i += 1
            continue
        if c == "N" and i + 1 < len(pattern) and pattern[i + 1] == "*":
            out.append(rand_dna(rng, rng.randint(0, 40)) if filler is None else filler)
            i += 2
            continue
        out.append(rng.choice(IUPAC.get(c, c)))
        i += 1
    return "".join(out)


def recase(rng, s):
    mode = rng.randint(0, 3)
    if mode == 0:
        return s
    if mode == 1:
        return s.lower()
    if mode == 2:
        return "".join(rng.choice((c.lower(), c.upper())) for c in s)
    return s[: len(s) // 2].lower() + s[len(s) // 2 :]


REFS = ["Lee et al. 2015", "Weber et al. 2011", "Iverson et al. 2016", "Moore 2016"]


def random_features(rng, n, with_citations=True):
    feats = []
    for k in range(rng.randint(0, 4)):
        if n < 2:
            break
        a = rng.randrange(0, n - 1)
        b = rng.randrange(a + 1, n + 1)
        quals = {"label": ["feat{}".format(k)]}
        if with_citations and rng.random() < 0.5:
            quals["citation"] = ["[{}]".format(rng.randint(1, 2))]
        if rng.random() < 0.2 and b < n - 1:
            c = rng.randrange(b, n - 1)
            d = rng.randrange(c + 1, n + 1)
            loc = CompoundLocation(
                [FeatureLocation(a, b, strand=1), FeatureLocation(c, d, strand=1)]
            )
        else:
            loc = FeatureLocation(a, b, strand=rng.choice((1, -1, None)))
        feats.append(SeqFeature(loc, type=rng.choice(("CDS", "misc_feature", "promoter")), qualifiers=quals))
    return feats


def make_record(rng, core, ident, rotate=True, kind=None, backbone=None, case=True):
    """Wrap `core` in a random backbone, rotate it and build a record."""
    if backbone is None:
        backbone = rand_dna(rng, rng.randint(0, 50))
    full = core + backbone
    if rotate and full:
        # rotation amounts may be negative or larger than the length
        k = rng.randint(-2 * len(full), 2 * len(full))
        k %= len(full)
        full = full[k:] + full[:k]
    if case:
        full = recase(rng, full)
    kind = kind or rng.choice(("circ",) * 20 + ("circ-ann",) * 6 + ("Circ-ann",) * 6 + ("linear", "plain-circ", "plain"))
    annotations = {"molecule_type": "DNA", "references": list(REFS[:2])}
    feats = random_features(rng, len(full))
    if kind == "circ":
        return CircularRecord(Seq(full), id=ident, name=ident, features=feats, annotations=annotations)
    if kind == "circ-ann":
        annotations["topology"] = "circular"
        return CircularRecord(Seq(full), id=ident, name=ident, features=feats, annotations=annotations)
    if kind == "Circ-ann":
        annotations["topology"] = "CIRCULAR"
        return CircularRecord(Seq(full), id=ident, name=ident, features=feats, annotations=annotations)
    if kind == "linear":
        annotations["topology"] = "linear"
        return SeqRecord(Seq(full), id=ident, name=ident, features=feats, annotations=annotations)
    if kind == "plain-circ":
        annotations["topology"] = "circular"
        return SeqRecord(Seq(full), id=ident, name=ident, features=feats, annotations=annotations)
    return SeqRecord(Seq(full), id=ident, name=ident, features=feats, annotations=annotations)


def usable_enzymes():
    """All the commercially known enzymes of Biopython, sorted by name."""
    return sorted(Restriction.AllEnzymes, key=str)


# =============================================================================

def all_subclasses(base):
    seen, todo = [], [base]
    while todo:
        cls = todo.pop()
        for sub in cls.__subclasses__():
            if sub not in seen:
                seen.append(sub)
                todo.append(sub)
    return sorted(seen, key=lambda c: (c.__module__, c.__name__))


def load_kits():
    import importlib

    for kit in ("cidar", "ecoflex", "moclo", "plant", "ytk"):
        try:
            importlib.import_module("moclo.kits.{}".format(kit))
        except ImportError:
            pass


def structure_of(cls):
    try:
        return cls.structure()
    except Exception:
        return None


from moclo.core import modules as core_modules, vectors as core_vectors  # noqa: E402
from moclo.regex import DNARegex  # noqa: E402


def random_signature(rng, enzyme):
    n = len(enzyme.ovhgseq or "") or rng.randint(1, 4)
    a = rand_dna(rng, n)
    b = rand_dna(rng, n)
    while b == a:
        b = rand_dna(rng, n)
    return (a, b)


def make_classes(rng, enzyme):
    """The classes whose structure is derived from `enzyme`."""
    sig = random_signature(rng, enzyme)
    name = str(enzyme)
    return [
        type("V" + name, (AbstractVector,), {"cutter": enzyme}),
        type("EV" + name, (core_vectors.EntryVector,), {"cutter": enzyme}),
        type("M" + name, (AbstractModule,), {"cutter": enzyme}),
        type("PM" + name, (AbstractPart, core_modules.Entry), {"cutter": enzyme, "signature": sig}),
        type("PV" + name, (AbstractPart, core_vectors.CassetteVector), {"cutter": enzyme, "signature": sig}),
        type("PVM" + name, (AbstractPart, core_vectors.CassetteVector, core_modules.Entry), {"cutter": enzyme, "signature": sig}),
        type("PMV" + name, (AbstractPart, core_modules.Entry, core_vectors.CassetteVector), {"cutter": enzyme, "signature": sig}),
        type("PN" + name, (AbstractPart,), {"cutter": enzyme, "signature": sig}),
        type("PU" + name, (AbstractPart, core_modules.Entry), {"cutter": enzyme}),
        type("P3" + name, (AbstractPart, core_modules.Entry), {"cutter": enzyme, "signature": sig + ("AC",)}),
        type("P1" + name, (AbstractPart, core_vectors.CassetteVector), {"cutter": enzyme, "signature": sig[:1]}),
        type("PS" + name, (AbstractPart, core_vectors.CassetteVector), {"cutter": enzyme, "signature": "AC"}),
        type("PL" + name, (AbstractPart, core_modules.Entry), {"cutter": enzyme, "signature": (sig[0].lower(), sig[1])}),
        type("PX" + name, (AbstractPart, core_modules.Entry), {"cutter": enzyme, "signature": (Seq(sig[0]), 5)}),
    ]


METHODS = ("is_valid", "overhang_start", "overhang_end", "target_sequence", "placeholder_sequence")


def exercise_entity(label, cls, record):
    out = attempt(label + ("new",), cls, record)
    if out[0] != "OK":
        return
    entity = cls(record)
    for method in METHODS:
        if hasattr(entity, method):
            attempt(label + (method,), getattr(entity, method))


def exercise_structures(rng, dense_every=3):
    garbage = make_record(rng, rand_dna(rng, 50), "garbage", kind="circ")
    for index, enzyme in enumerate(usable_enzymes()):
        for cls in make_classes(rng, enzyme):
            label = ("enz", str(enzyme), cls.__name__)
            out = attempt(label + ("structure",), cls.structure)
            attempt(label + ("regex",), lambda: cls._get_regex().pattern)
            if index % dense_every and str(enzyme) not in ("BsaI", "BpiI", "BsmBI", "BbsI", "SapI", "BseRI", "BtsI"):
                attempt(label + ("new-garbage",), cls, garbage)
                continue
            if out[0] != "OK":
                attempt(label + ("new-garbage",), cls, garbage)
                continue
            pattern = out[1]
            try:
                DNARegex(pattern)
            except Exception:
                attempt(label + ("new-garbage",), cls, garbage)
                continue
            for j in range(2):
                core = instantiate(pattern, rng, filler=rand_dna(rng, rng.randint(0, 25), "ACT"))
                rec = make_record(rng, core, "{}{}".format(cls.__name__, j), backbone=rand_dna(rng, rng.randint(0, 25), "ACT"))
                exercise_entity(label + (j,), cls, rec)
    # cutter not declared at all
    for bases in ((AbstractVector,), (AbstractModule,), (AbstractPart,), (AbstractPart, core_modules.Entry), (AbstractPart, core_vectors.EntryVector)):
        cls = type("NoCutter", bases, {})
        attempt(("nocutter", [b.__name__ for b in bases], "structure"), cls.structure)
        attempt(("nocutter", [b.__name__ for b in bases], "new"), cls, garbage)
        cls = type("NoCutterSigned", bases, {"signature": ("ATGC", "CGTA")})
        attempt(("nocutter-signed", [b.__name__ for b in bases], "structure"), cls.structure)
        attempt(("nocutter-signed", [b.__name__ for b in bases], "new"), cls, garbage)
    attempt(("abstract", "vector"), AbstractVector, garbage)
    attempt(("abstract", "module"), AbstractModule, garbage)
    attempt(("abstract", "part"), AbstractPart, garbage)
    attempt(("abstract", "vector-kw"), lambda: AbstractVector(record=garbage))
    attempt(("abstract", "vector-noarg"), AbstractVector)


def exercise_kit_structures(rng):
    from moclo.core._structured import StructuredRecord

    load_kits()
    for cls in all_subclasses(StructuredRecord):
        if not cls.__module__.startswith("moclo."):
            continue
        label = ("kit", cls.__module__, cls.__name__)
        out = attempt(label + ("structure",), cls.structure)
        if out[0] != "OK" or cls.cutter is NotImplemented:
            continue
        for j in range(3):
            core = instantiate(out[1], rng, filler=rand_dna(rng, rng.randint(0, 25), "ACT"))
            rec = make_record(rng, core, "{}{}".format(cls.__name__, j), backbone=rand_dna(rng, rng.randint(0, 25), "ACT"))
            exercise_entity(label + (j,), cls, rec)

# Refactoring R7_6: AbstractVector.structure / __new__ / assemble.

rng = random.Random(7006)
exercise_structures(rng)
exercise_kit_structures(rng)


# --- generated assemblies with a BpiI and a BsaI mock kit ---------------------

def kit(enzyme):
    return (
        type("Mock{}Vector".format(enzyme), (AbstractVector,), {"cutter": enzyme}),
        type("Mock{}Module".format(enzyme), (AbstractModule,), {"cutter": enzyme}),
    )


def build(rng, cls, overhangs, ident, kind=None):
    core = instantiate(cls.structure(), rng, filler=rand_dna(rng, rng.randint(1, 25), "ACT"), overhangs=overhangs)
    rec = make_record(rng, core, ident, backbone=rand_dna(rng, rng.randint(0, 20), "ACT"), kind=kind)
    return cls(rec)


OVHGS = ["ATGC", "CGTA", "AAAA", "CCCC", "GGAT", "TTTT", "GCAT", "ACTG", "TACG", "AGGT"]
KWARGS = [{}, {}, {"name": "construct"}, {"id": "pX001"}, {"name": "n", "id": "i"}, {"name": None},
          {"id": 12}, {"unknown": 1}, {"name": "n", "modules": "ignored", "vector": None}, {"id_": "not-the-id"}]
for enzyme in (BpiI, BsaI, BsmBI):
    Vec, Mod = kit(enzyme)
    for i in range(220):
        n = rng.randint(1, 5)
        chain = rng.sample(OVHGS, n + 1)
        kind = None if rng.random() < 0.15 else rng.choice(("circ", "circ", "circ-ann", "Circ-ann"))
        # the vector pattern reads: (overhang_end) placeholder (overhang_start), and
        # the first module is the one starting with the "end" overhang of the vector
        vec_ovhgs = [chain[0], chain[-1]] if rng.random() < 0.93 else [chain[0], chain[0]]
        vec = build(rng, Vec, vec_ovhgs, "vec{}".format(i), kind)
        mods = [build(rng, Mod, [chain[k], chain[k + 1]], "mod{}_{}".format(i, k), kind) for k in range(n)]
        roll = rng.random()
        if roll < 0.12:
            mods.append(build(rng, Mod, [chain[0], rng.choice(OVHGS)], "dup{}".format(i), kind))
        elif roll < 0.24 and len(mods) > 1:
            mods.pop(rng.randrange(len(mods)))
        elif roll < 0.36:
            a, b = rng.sample(OVHGS, 2)
            mods.append(build(rng, Mod, [a, b], "extra{}".format(i), kind))
        elif roll < 0.40:
            mods.append(mods[0])
        elif roll < 0.44:
            rc = str(Seq(chain[0]).reverse_complement())
            mods.append(build(rng, Mod, [rc, rng.choice(OVHGS)], "revcomp{}".format(i), kind))
        elif roll < 0.47:
            mods.append(build(rng, Vec, [chain[1], chain[0]], "vec-as-module{}".format(i), kind))
        rng.shuffle(mods)
        kwargs = rng.choice(KWARGS)
        label = ("assemble", str(enzyme), i)
        attempt(label, lambda: vec.assemble(*mods, **kwargs))
        attempt(label + ("again",), lambda: vec.assemble(*mods, **kwargs))
        attempt(label + ("records-after",), lambda: [vec.record] + [m.record for m in mods])
    vec = build(rng, Vec, ["ATGC", "CGTA"], "v", "circ")
    mod = build(rng, Mod, ["ATGC", "CGTA"], "m", "circ")
    attempt(("assemble-noargs", str(enzyme)), vec.assemble)
    attempt(("assemble-kw-module", str(enzyme)), lambda: vec.assemble(module=mod))
    attempt(("assemble-kw-module-name", str(enzyme)), lambda: vec.assemble(module=mod, name="x", id="y"))
    attempt(("assemble-list", str(enzyme)), lambda: vec.assemble([mod]))
    attempt(("assemble-none", str(enzyme)), lambda: vec.assemble(None))
    attempt(("assemble-generator", str(enzyme)), lambda: vec.assemble(*(m for m in [mod])))
    attempt(("assemble-wrong-kit", str(enzyme)), lambda: vec.assemble(build(rng, kit(SapI)[1], [], "sap", "circ")))

# --- assemblies of the real YTK plasmids (they carry references / citations) ---

from moclo.registry.ytk import YTKRegistry  # noqa: E402
from moclo.kits import ytk  # noqa: E402

registry = YTKRegistry()
by_type = {}
for key in sorted(registry):
    entity = registry[key].entity
    by_type.setdefault(type(entity).__name__, []).append(entity)
RESULTS.append(("ytk-types", sorted((k, len(v)) for k, v in by_type.items())))
LAYOUTS = [
    ["YTKPart1", "YTKPart2", "YTKPart3", "YTKPart4", "YTKPart5", "YTKPart6", "YTKPart7"],
    ["YTKPart1", "YTKPart2", "YTKPart3a", "YTKPart3b", "YTKPart4a", "YTKPart4b", "YTKPart5", "YTKPart6", "YTKPart7"],
    ["YTKPart1", "YTKPart234", "YTKPart5", "YTKPart6", "YTKPart7"],
    ["YTKPart1", "YTKPart234r", "YTKPart5", "YTKPart6", "YTKPart7"],
]
for i in range(40):
    layout = list(rng.choice(LAYOUTS))
    roll = rng.random()
    if roll < 0.15:
        layout.pop(rng.randrange(len(layout)))
    elif roll < 0.3:
        layout.append(rng.choice(layout))
    mods = []
    for name in layout:
        if by_type.get(name):
            entity = rng.choice(by_type[name])
            mods.append(type(entity)(entity.record >> rng.randint(-5000, 5000)))
    vectors = by_type.get("YTKPart8", []) + by_type.get("YTKPart678", [])
    if not vectors or not mods:
        continue
    vector = rng.choice(vectors)
    vector = type(vector)(vector.record << rng.randint(-5000, 5000))
    rng.shuffle(mods)
    kwargs = rng.choice(KWARGS)
    attempt(("ytk", i, layout, kwargs), lambda: vector.assemble(*mods, **kwargs))
    attempt(("ytk-after", i), lambda: [vector.record.annotations.get("references") and len(vector.record.annotations["references"])] + [sorted(f.qualifiers.get("citation", [])) for f in vector.record.features])

finish()
