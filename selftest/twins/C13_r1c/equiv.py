"""Differential test: prints a digest of the observable behaviour of the code
touched by the pull request, through the API that existed before it."""
import sys

sys.path.insert(0, "/tmp/agents7/C13")
import tests  # noqa: F401,E402  (splices the kits into the moclo namespace)

import copy  # noqa: E402
import hashlib  # noqa: E402
import random  # noqa: E402
import re  # noqa: E402
import warnings  # noqa: E402

from Bio.Restriction import BpiI, BsaI, BsmBI  # noqa: E402
from Bio.Seq import Seq  # noqa: E402
from Bio.SeqFeature import (  # noqa: E402
    AfterPosition,
    BeforePosition,
    CompoundLocation,
    ExactPosition,
    FeatureLocation,
    Reference,
    SeqFeature,
)
from Bio.SeqRecord import SeqRecord  # noqa: E402

from moclo.core.modules import AbstractModule  # noqa: E402
from moclo.core.vectors import AbstractVector  # noqa: E402
from moclo.record import CircularRecord  # noqa: E402
from moclo.regex import DNARegex  # noqa: E402

# the target_sequence of an entity wrapping a plain (non linear) SeqRecord
PLAIN_CIRCULAR = False

rnd = random.Random(20240913)
LOG = []


def log(*items):
    LOG.append(re.sub(r"0x[0-9a-f]+", "0x?", " | ".join(str(i) for i in items)))


def show_loc(loc):
    return repr(loc)


def show_record(rec):
    if not isinstance(rec, SeqRecord):
        return repr(rec)
    feats = [
        (
            f.type,
            f.id,
            show_loc(f.location),
            sorted((k, repr(v)) for k, v in f.qualifiers.items()),
        )
        for f in rec.features
    ]
    return repr(
        (
            type(rec).__name__,
            str(rec.seq),
            rec.id,
            rec.name,
            rec.description,
            rec.dbxrefs,
            feats,
            sorted((k, repr(v)) for k, v in rec.annotations.items()),
            sorted((k, repr(v)) for k, v in rec.letter_annotations.items()),
        )
    )


def attempt(label, func):
    with warnings.catch_warnings(record=True) as caught:
        warnings.simplefilter("always")
        try:
            res = func()
            out = ("ok", show_record(res) if isinstance(res, SeqRecord) else repr(res))
        except Exception as exc:  # noqa
            res = None
            out = ("raised", type(exc).__name__, str(exc))
    log(label, out, [(w.category.__name__, str(w.message)) for w in caught])
    return res


# --------------------------------------------------------------------------
# random circular records


def random_position(cls_choice, value):
    if cls_choice == 0:
        return ExactPosition(value)
    if cls_choice == 1:
        return BeforePosition(value)
    if cls_choice == 2:
        return AfterPosition(value)
    return value


def random_simple(length, spanning=False):
    strand = rnd.choice([1, -1, 0, None])
    if spanning and length > 1:
        start = rnd.randrange(1, length)
        end = length + rnd.randrange(1, start + 1)
    else:
        start = rnd.randrange(0, length + 1)
        end = rnd.randrange(start, length + 1)
    fuzzy = rnd.choice([3, 3, 3, 0, 1, 2])
    return FeatureLocation(
        random_position(fuzzy, start), random_position(rnd.choice([3, 3, 0, 2]), end), strand
    )


def random_location(length):
    kind = rnd.randrange(8)
    if kind == 0:
        return FeatureLocation(0, length, rnd.choice([1, -1, None]))
    if kind == 1:
        return random_simple(length, spanning=True)
    if kind in (2, 3):
        parts = [random_simple(length, spanning=rnd.random() < 0.2) for _ in range(rnd.randrange(2, 4))]
        strand = rnd.choice([1, -1])
        parts = [FeatureLocation(p.start, p.end, strand) for p in parts]
        return CompoundLocation(parts, operator=rnd.choice(["join", "order"]))
    if kind == 4 and length > 2:
        # the way an origin-spanning feature is read from a GenBank file
        a = rnd.randrange(1, length)
        b = rnd.randrange(1, a + 1)
        return CompoundLocation([FeatureLocation(a, length, 1), FeatureLocation(0, b, 1)])
    return random_simple(length)


def random_record(length, cls=CircularRecord):
    letters = "ACGTacgtN" if rnd.random() < 0.5 else "ACGT"
    if rnd.random() < 0.3:
        word = "".join(rnd.sample("ABCDEFGHIJKLMNOPQRSTUVWXYZabcdefgh", min(length, 34)))
        word = (word * length)[:length]
    else:
        word = "".join(rnd.choice(letters) for _ in range(length))
    feats = []
    for i in range(rnd.randrange(0, 6)):
        ftype = rnd.choice(["CDS", "source", "misc_feature", "promoter"])
        loc = random_location(length) if length else None
        if rnd.random() < 0.08:
            loc = None
        if ftype == "source" and rnd.random() < 0.6:
            loc = FeatureLocation(0, length, rnd.choice([1, None]))
        quals = {"label": ["f%d" % i], "note": [rnd.choice(["x", "y"])]}
        feats.append(SeqFeature(loc, type=ftype, id="feat%d" % i, qualifiers=quals))
    letan = {}
    if rnd.random() < 0.6:
        letan["phred_quality"] = [rnd.randrange(60) for _ in range(length)]
    if rnd.random() < 0.4:
        letan["mask"] = "".join(rnd.choice("xo.") for _ in range(length))
    if rnd.random() < 0.2:
        letan["tup"] = tuple(range(length))
    annotations = {"molecule_type": "DNA"}
    if rnd.random() < 0.5:
        annotations["topology"] = rnd.choice(["circular", "Circular", "CIRCULAR"])
    if rnd.random() < 0.3:
        annotations["comment"] = ["hello"]
    return cls(
        Seq(word),
        id="rec%d" % length,
        name="name%d" % rnd.randrange(10),
        description="some record",
        dbxrefs=["db:%d" % rnd.randrange(5)],
        features=feats,
        annotations=annotations,
        letter_annotations=letan,
    )


def sharing(orig, res):
    """How much of the original is shared with the result."""
    if not isinstance(res, SeqRecord):
        return None
    quals = None
    if len(orig.features) == len(res.features):
        quals = [a.qualifiers is b.qualifiers for a, b in zip(orig.features, res.features)]
    return (
        res is orig,
        res.annotations is orig.annotations,
        res.dbxrefs is orig.dbxrefs,
        res.features is orig.features,
        quals,
    )


def rotations():
    for n in range(260):
        length = rnd.choice([1, 2, 3, 4, 5, 7, 8, 12, 13, 20, 33])
        rec = random_record(length)
        before = show_record(rec)
        ks = [0, 1, -1, length, -length, length + 1, 2 * length, 3 * length - 1, -2 * length - 1]
        ks += [rnd.randrange(-3 * length, 3 * length + 1) for _ in range(3)]
        for k in ks:
            r = attempt("rshift %d %d" % (n, k), lambda: rec >> k)
            log("sharing", sharing(rec, r))
            r = attempt("lshift %d %d" % (n, k), lambda: rec << k)
            log("sharing", sharing(rec, r))
        # compositions
        a, b, c = (rnd.randrange(-2 * length, 2 * length + 1) for _ in range(3))
        attempt("compose %d" % n, lambda: ((rec >> a) >> b) << c)
        attempt("compose2 %d" % n, lambda: ((rec << a) << b) >> c)
        attempt("compose3 %d" % n, lambda: (((rec >> 1) >> 1) >> 1) >> (length - 1))
        attempt("revcomp %d" % n, lambda: (rec >> a).reverse_complement() << b)
        attempt("slice %d" % n, lambda: (rec >> a)[1:length])
        attempt("item %d" % n, lambda: (rec << a)[0])
        attempt("contains %d" % n, lambda: str(rec.seq)[-2:] + str(rec.seq)[:1] in (rec >> b))
        log("unchanged", before == show_record(rec))
    # odd operands
    rec = random_record(6)
    for k in [1.0, 2.5, "a", None, True, 10 ** 20, -(10 ** 20)]:
        attempt("odd rshift %r" % (k,), lambda: rec >> k)
        attempt("odd lshift %r" % (k,), lambda: rec << k)
    empty = CircularRecord(Seq(""), id="empty")
    attempt("empty rshift", lambda: empty >> 1)
    attempt("empty lshift", lambda: empty << 1)
    attempt("add", lambda: rec + rec)
    attempt("radd", lambda: "A" + rec)
    # construction
    for n in range(40):
        plain = random_record(rnd.randrange(1, 15), cls=SeqRecord)
        if n % 5 == 0:
            plain.annotations["topology"] = "linear"
        cr = attempt("init %d" % n, lambda: CircularRecord(plain))
        if cr is not None:
            log("init sharing", sharing(plain, cr))
            attempt("init rot %d" % n, lambda: cr >> 3)
    attempt("init kw", lambda: CircularRecord(seq=Seq("ATGC"), id="x", annotations={"topology": "linear"}))
    attempt("init kw2", lambda: CircularRecord(Seq("ATGC")))
    attempt("init str", lambda: CircularRecord("ATGC"))


# --------------------------------------------------------------------------
# regex


def regexes():
    for n in range(80):
        length = rnd.randrange(4, 30)
        word = "".join(rnd.choice("ACGTacgt") for _ in range(length))
        pattern = "".join(rnd.choice("ACGTNRYW") for _ in range(rnd.randrange(1, 5)))
        pattern = pattern[:1] + "(" + pattern[1:] + ")" + rnd.choice(["", "N*", "A"])
        rx = DNARegex(pattern)
        for target in (
            Seq(word),
            SeqRecord(Seq(word), id="lin"),
            CircularRecord(Seq(word), id="circ", features=[SeqFeature(FeatureLocation(0, 2, 1), type="misc")]),
        ):
            for linear in (True, False):
                pos = rnd.choice([0, 0, 2, length - 1])

                def run():
                    m = rx.search(target, pos, linear=linear)
                    if m is None:
                        return None
                    g0, g1 = m.group(0), m.group(1)
                    return (
                        m.span(0),
                        m.span(1),
                        m.start(),
                        m.end(),
                        m.shift,
                        show_record(g0) if isinstance(g0, SeqRecord) else repr(g0),
                        show_record(g1) if isinstance(g1, SeqRecord) else repr(g1),
                    )

                attempt("regex %d %s %s %d %s" % (n, pattern, type(target).__name__, pos, linear), run)
    attempt("regex str", lambda: DNARegex("AT").search("ATGC"))
    attempt("regex none", lambda: DNARegex("AT").search(None))
    attempt("regex endpos", lambda: DNARegex("GC").search(Seq("ATGC"), 0, 2))


# --------------------------------------------------------------------------
# assemblies

ENZYMES = {
    "BpiI": (BpiI, "GAAGAC", 2),
    "BsaI": (BsaI, "GGTCTC", 1),
    "BsmBI": (BsmBI, "CGTCTC", 1),
}
CLASSES = {}
for _name, (_enz, _site, _gap) in ENZYMES.items():
    CLASSES[_name] = (
        type(str("Vector" + _name), (AbstractVector,), {"cutter": _enz}),
        type(str("Module" + _name), (AbstractModule,), {"cutter": _enz}),
    )


def revcomp(s):
    return str(Seq(s).reverse_complement())


def clean_word(n):
    while True:
        w = "".join(rnd.choice("ACGT") for _ in range(n))
        if not any(site in (w + w).upper() or revcomp(site) in (w + w).upper() for _, site, _ in ENZYMES.values()):
            return w


def mixed(s):
    return "".join(c.lower() if rnd.random() < 0.3 else c for c in s)


def annotate(rec, n):
    length = len(rec)
    for i in range(rnd.randrange(0, 5)):
        loc = random_location(length)
        quals = {"label": ["a%d" % i]}
        if rnd.random() < 0.5:
            quals["citation"] = ["[1]"] if rnd.random() < 0.8 else ["[2]", "[1]"]
        rec.features.append(SeqFeature(loc, type="misc_feature", qualifiers=quals))
    if rnd.random() < 0.3:
        rec.features.append(SeqFeature(FeatureLocation(0, length, 1), type="source", qualifiers={"organism": ["x"]}))
    ref1, ref2 = Reference(), Reference()
    ref1.title = "ref one %d" % (n % 3)
    ref2.title = "ref two"
    rec.annotations["references"] = [ref1, ref2]
    if rnd.random() < 0.3:
        rec.annotations["topology"] = "circular"
    return rec


def make_module(enzyme, up, down, ident, n, cls=CircularRecord, rotate=True):
    _, site, gap = ENZYMES[enzyme]
    body = clean_word(rnd.randrange(3, 15))
    core = site + clean_word(gap)[:gap] + up + body + down + clean_word(gap)[:gap] + revcomp(site)
    plasmid = core + clean_word(rnd.randrange(4, 20))
    k = rnd.randrange(len(plasmid)) if rotate else 0
    plasmid = plasmid[k:] + plasmid[:k]
    rec = cls(Seq(mixed(plasmid)), id=ident, name=ident)
    return annotate(rec, n)


def make_vector(enzyme, up, down, ident, n, cls=CircularRecord):
    _, site, gap = ENZYMES[enzyme]
    dropout = clean_word(rnd.randrange(2, 10))
    # the vector keeps what lies outside of the two sites
    core = up + clean_word(gap)[:gap] + revcomp(site) + dropout + site + clean_word(gap)[:gap] + down
    plasmid = core + clean_word(rnd.randrange(6, 25))
    k = rnd.randrange(len(plasmid))
    plasmid = plasmid[k:] + plasmid[:k]
    rec = cls(Seq(mixed(plasmid)), id=ident, name=ident)
    return annotate(rec, n)


def distinct_overhangs(count):
    res = []
    while len(res) < count:
        w = "".join(rnd.choice("ACGT") for _ in range(4))
        if w == revcomp(w) or w in res or revcomp(w) in res:
            continue
        if any(site.startswith(w) for _, site, _ in ENZYMES.values()):
            continue
        res.append(w)
    return res


def states(entities):
    return [show_record(e.record) for e in entities]


def assemblies():
    for n in range(120):
        enzyme = rnd.choice(sorted(ENZYMES))
        vcls, mcls = CLASSES[enzyme]
        count = rnd.randrange(1, 4)
        ovh = distinct_overhangs(count + 2)
        mode = rnd.choice(["ok", "ok", "ok", "missing", "duplicate", "unused", "samevector", "linear"])
        vec_rec = make_vector(enzyme, ovh[0], ovh[count], "vec%d" % n, n)
        if mode == "samevector":
            vec_rec = make_vector(enzyme, ovh[0], ovh[0], "vec%d" % n, n)
        mods = [make_module(enzyme, ovh[i], ovh[i + 1], "mod%d_%d" % (n, i), n) for i in range(count)]
        if mode == "missing":
            mods = mods[:-1] + [make_module(enzyme, ovh[count - 1], ovh[count + 1], "modx%d" % n, n)]
        elif mode == "duplicate":
            mods.append(make_module(enzyme, ovh[0], ovh[1], "moddup%d" % n, n))
        elif mode == "unused":
            mods.append(make_module(enzyme, ovh[count + 1], ovh[0], "modun%d" % n, n))
        elif mode == "linear":
            lin = make_module(enzyme, ovh[count - 1], ovh[count], "modlin%d" % n, n, cls=SeqRecord, rotate=False)
            lin.annotations["topology"] = "linear"
            mods[-1] = lin
        elif PLAIN_CIRCULAR and n % 4 == 0:
            mods[-1] = make_module(enzyme, ovh[count - 1], ovh[count], "modpl%d" % n, n, cls=SeqRecord)
        rnd.shuffle(mods)
        vector = vcls(vec_rec)
        modules = [mcls(m) for m in mods]
        entities = [vector] + modules
        before = states(entities)
        for e in entities:
            attempt("valid %d" % n, e.is_valid)
            attempt("ovh %d" % n, lambda: (str(e.overhang_start()), str(e.overhang_end())))
            attempt("target %d" % n, e.target_sequence)
        attempt("placeholder %d" % n, vector.placeholder_sequence)
        res = attempt("assemble %d %s %s" % (n, enzyme, mode), lambda: vector.assemble(*modules, id="asm", name="asm"))
        if res is not None:
            attempt("assembled rot %d" % n, lambda: res >> 5)
        log("inputs unchanged", before == states(entities))
        log("inputs after", states(entities))


def main():
    rotations()
    regexes()
    assemblies()
    digest = hashlib.sha256("\n".join(LOG).encode("utf-8")).hexdigest()
    if "--dump" in sys.argv:
        print("\n".join(LOG))
    print("entries:", len(LOG))
    print("digest:", digest)


if __name__ == "__main__":
    main()
