# coding: utf-8
"""Differential test for the code behind property C01.

Exercises regex search, structured records (modules, vectors, parts), the
assembly manager, the error classes, every kit class and every registry
through the existing API, and prints a digest of everything observed: return
values, exception types / messages / args, warnings, and the state of the
inputs afterwards. The digest must be identical before and after a
behaviour-preserving change.
"""
import hashlib
import importlib
import itertools
import random
import re
import sys
import warnings

sys.path.insert(0, "/tmp/agents9/C01")
warnings.simplefilter("ignore")
import tests  # noqa: E402,F401

from Bio.Seq import Seq  # noqa: E402
from Bio.SeqRecord import SeqRecord  # noqa: E402
from Bio.SeqFeature import SeqFeature, FeatureLocation, Reference  # noqa: E402
from Bio.SeqFeature import CompoundLocation  # noqa: E402
from Bio import Restriction  # noqa: E402

from moclo import errors  # noqa: E402
from moclo.record import CircularRecord  # noqa: E402
from moclo.regex import DNARegex, SeqMatch  # noqa: E402
from moclo.core import AbstractModule, AbstractVector, AbstractPart  # noqa: E402
from moclo.core import modules as core_modules  # noqa: E402
from moclo.core import vectors as core_vectors  # noqa: E402
from moclo.core._assembly import AssemblyManager  # noqa: E402
from moclo.core._structured import StructuredRecord  # noqa: E402
from moclo.core._utils import cutter_check, add_as_source  # noqa: E402

VERBOSE = "-v" in sys.argv

_lines = []
_sections = {}
_current = [None]


def section(name):
    _current[0] = name
    _sections[name] = hashlib.sha256()


def emit(*items):
    line = " | ".join(ser(i) for i in items)
    _lines.append(line)
    _sections[_current[0]].update(line.encode("utf-8") + b"\n")
    if VERBOSE:
        print(line)


# --- serialisation ----------------------------------------------------------


def ser(obj):
    if obj is None or isinstance(obj, (bool, int, float)):
        return repr(obj)
    if isinstance(obj, str):
        return repr(obj)
    if isinstance(obj, bytes):
        return repr(obj)
    if isinstance(obj, Seq):
        return "Seq({!r})".format(str(obj))
    if isinstance(obj, Reference):
        return "Ref({!r},{!r},{!r})".format(obj.title, obj.authors, obj.journal)
    if isinstance(obj, SeqRecord):
        return ser_record(obj)
    if isinstance(obj, SeqFeature):
        return ser_feature(obj)
    if isinstance(obj, StructuredRecord):
        return "{}<{}>".format(type(obj).__name__, obj.record.id)
    if isinstance(obj, SeqMatch):
        return "SeqMatch{}".format(obj.span())
    if isinstance(obj, BaseException):
        return ser_exc(obj)
    if isinstance(obj, dict):
        return "{" + ", ".join(
            "{}: {}".format(ser(k), ser(v)) for k, v in sorted(obj.items(), key=lambda kv: str(kv[0]))
        ) + "}"
    if isinstance(obj, tuple):
        return "(" + ", ".join(ser(i) for i in obj) + ")"
    if isinstance(obj, (list, set, frozenset)):
        items = [ser(i) for i in obj]
        if not isinstance(obj, list):
            items.sort()
        return "[" + ", ".join(items) + "]"
    if isinstance(obj, type):
        return "<class {}>".format(obj.__name__)
    return "<{}:{}>".format(type(obj).__name__, str(obj))


def ser_feature(f):
    quals = {k: v for k, v in f.qualifiers.items()}
    return "F({}, {}, {}, {})".format(f.type, str(f.location), f.id, ser(quals))


def ser_record(r):
    return "{}(seq={!r}, id={!r}, name={!r}, desc={!r}, dbx={}, feats={}, ann={}, lett={})".format(
        type(r).__name__, str(r.seq), r.id, r.name, r.description,
        ser(list(r.dbxrefs)), ser(list(r.features)), ser(dict(r.annotations)),
        ser(dict(r.letter_annotations)),
    )


_ADDRESS = re.compile(r"0x[0-9a-fA-F]+")


def ser_exc(e):
    cause = type(e.__cause__).__name__ if e.__cause__ is not None else None
    attrs = {}
    for name in ("sequence", "exc", "details", "duplicates", "start_overhang", "remaining"):
        if hasattr(e, name):
            attrs[name] = getattr(e, name)
    return "EXC {}({!r}) args={} cause={} suppress={} attrs={} bases={}".format(
        type(e).__name__, _ADDRESS.sub("0x?", str(e)), ser(e.args), cause, e.__suppress_context__, ser(attrs),
        [c.__name__ for c in type(e).__mro__],
    )


def attempt(func, *args, **kwargs):
    """Run ``func`` and return what happened (value or exception + warnings)."""
    with warnings.catch_warnings(record=True) as caught:
        warnings.simplefilter("always")
        try:
            result = ("OK", func(*args, **kwargs))
        except Exception as exc:  # noqa
            result = ("RAISED", exc)
    warns = [
        (w.category.__name__, ser(w.message) if isinstance(w.message, errors.MocloError) else str(w.message))
        for w in caught
        if not issubclass(w.category, (DeprecationWarning, PendingDeprecationWarning))
    ]
    return result + (warns,)


# --- helpers ----------------------------------------------------------------


def rc(s):
    return str(Seq(s).reverse_complement())


def rand(rng, k, alphabet="ACGT"):
    return "".join(rng.choice(alphabet) for _ in range(k))


def rotate(s, r):
    r %= len(s)
    return s[r:] + s[:r]


def geometries(five=True):
    found = {}
    for enz in sorted(Restriction.AllEnzymes, key=str):
        try:
            ok = enz.is_5overhang() if five else enz.is_3overhang()
            if not ok or enz.is_palindromic() or enz.cut_twice():
                continue
            if set(enz.site) - set("ACGT") or enz.size < 4:
                continue
            if enz.fst5 is None or enz.fst5 <= enz.size:
                continue
        except Exception:  # noqa
            continue
        found.setdefault((enz.size, enz.fst5 - enz.size, abs(enz.ovhg)), enz)
    return [found[k] for k in sorted(found)]


FIVE = geometries(True)
for _name in ("BsaI", "BsmBI", "BpiI", "BbsI"):
    if getattr(Restriction, _name) not in FIVE:
        FIVE.append(getattr(Restriction, _name))
THREE = geometries(False)[:8]
ODD = [Restriction.EcoRI, Restriction.EcoRV, Restriction.PstI, Restriction.BcgI,
       Restriction.BsaXI, Restriction.BbvCI, Restriction.BsrDI, Restriction.BtsI,
       Restriction.AasI if hasattr(Restriction, "AasI") else Restriction.SmaI]


def count_sites(seq, enz):
    n, site = len(seq), enz.site
    data = (seq + seq[: len(site) - 1]).upper()
    return sum(
        1 for s in {site, rc(site)} for i in range(n) if data.startswith(s, i)
    )


def pick_overhangs(rng, k, count):
    pool = ["".join(p) for p in itertools.product("ACGT", repeat=k)]
    rng.shuffle(pool)
    chosen = []
    for o in pool:
        if o == rc(o) or o in chosen or rc(o) in chosen:
            continue
        chosen.append(o)
        if len(chosen) == count:
            return chosen
    return None


def geometry(enz):
    """(gap, overhang length, three) of an enzyme cutting downstream."""
    if enz.is_5overhang():
        return enz.fst5 - enz.size, -enz.ovhg, False
    return enz.fst5 - enz.size - enz.ovhg, enz.ovhg, True


def build_case(enz, rng, nmods, flank=9):
    gap, k, _ = geometry(enz)
    site = enz.site
    if gap < 0:
        return None
    ovs = pick_overhangs(rng, k, nmods + 1)
    if ovs is None:
        return None
    for _ in range(300):
        targets = [rand(rng, rng.randint(2, 10)) for _ in range(nmods)]
        mods = [
            rand(rng, rng.randint(0, flank)) + site + rand(rng, gap) + ovs[i]
            + targets[i] + ovs[i + 1] + rand(rng, gap) + rc(site)
            + rand(rng, rng.randint(0, flank))
            for i in range(nmods)
        ]
        backbone = rand(rng, rng.randint(3, 12))
        cut = rng.randint(0, len(backbone))
        vec = (
            backbone[cut:] + ovs[0] + rand(rng, gap) + rc(site)
            + rand(rng, rng.randint(0, 6)) + site + rand(rng, gap) + ovs[nmods]
            + backbone[:cut]
        )
        if any(count_sites(s, enz) != 2 for s in mods + [vec]):
            continue
        return vec, mods
    return None


_classes = {}


def classes_for(enz):
    if enz not in _classes:
        vec = type(str("Vector_" + str(enz)), (AbstractVector,), {"cutter": enz})
        mod = type(str("Module_" + str(enz)), (AbstractModule,), {"cutter": enz})
        _classes[enz] = vec, mod
    return _classes[enz]


def annotate(record, rng, with_refs=False):
    """Give a record a few features (one of them over the origin)."""
    n = len(record)
    if n < 8:
        return record
    a = rng.randrange(0, n - 4)
    record.features.append(
        SeqFeature(FeatureLocation(a, a + 4, strand=1), type="misc_feature",
                   qualifiers={"label": ["f1"]})
    )
    b = rng.randrange(1, n - 2)
    record.features.append(
        SeqFeature(FeatureLocation(b, min(n, b + 7), strand=-1), type="CDS",
                   qualifiers={"label": ["f2"]})
    )
    record.features.append(
        SeqFeature(
            CompoundLocation([FeatureLocation(n - 3, n, strand=1), FeatureLocation(0, 2, strand=1)]),
            type="misc_feature", qualifiers={"label": ["wrap"]},
        )
    )
    record.features.append(
        SeqFeature(FeatureLocation(0, n), type="source", qualifiers={"organism": ["x"]})
    )
    if with_refs:
        ref1, ref2 = Reference(), Reference()
        ref1.title, ref1.authors, ref1.journal = "T1 " + record.id, "A", "J"
        ref2.title, ref2.authors, ref2.journal = "T2 shared", "B", "J"
        record.annotations["references"] = [ref1, ref2]
        record.features[0].qualifiers["citation"] = ["[1]", "[2]"]
        record.features[1].qualifiers["citation"] = ["[2]"]
    return record


def describe_entity(entity):
    out = []
    out.append(attempt(entity.is_valid))
    out.append(attempt(entity.overhang_start))
    out.append(attempt(entity.overhang_end))
    out.append(attempt(entity.target_sequence))
    if isinstance(entity, AbstractVector):
        out.append(attempt(entity.placeholder_sequence))
    out.append(attempt(lambda: entity._match.span(0)))
    out.append(attempt(lambda: [entity._match.span(i) for i in (1, 2, 3)]))
    out.append(attempt(lambda: [str(entity._match.group(i).seq) for i in (0, 1, 2, 3)]))
    return out


# --- A. regex ----------------------------------------------------------------


def run_regex():
    section("regex")
    rng = random.Random(1)
    patterns = ["AA(NN)", "GGTCTCN(NNNN)(NN*N)(NNNN)NGAGACC", "(RY)(N*)(KM)", "A(C*)G",
                "N(NNNN)(NGAGACCN*GGTCTCN)(NNNN)N", "(B)(D)(H)(V)(S)(W)", "T(N)?(A)"]
    subjects = ["ATGCAAGCAATA", "ATGCAGCATA", "acgtGGTCTCaTTTTacgtacCCCCtGAGACCaa",
                "CCCCtGAGACCaaacgtGGTCTCaTTTTacgtac", "TTTTGAGACCAAGGTCTCTCCCC", "A", "",
                "ACGGAGACCTTAAGGTCTCTGGTTC"]
    for _ in range(25):
        subjects.append(rand(rng, rng.randint(5, 40), "ACGTacgtN"))
    emit("TypeError", attempt(DNARegex("NN").search, "ATGC"))
    emit("TypeError", attempt(DNARegex("NN").search, None))
    for pat in patterns:
        rx = DNARegex(pat)
        emit("pattern", rx.pattern, rx.regex.pattern)
        for s in subjects:
            forms = [
                ("Seq", Seq(s)),
                ("SeqRecord", annotate(SeqRecord(Seq(s), id="r"), random.Random(len(s)))),
                ("Circular", annotate(CircularRecord(Seq(s), id="c"), random.Random(len(s)))),
            ]
            for label, subject in forms:
                for kwargs in ({}, {"linear": False}, {"linear": True}, {"pos": 2}, {"pos": 1, "endpos": 4},
                               {"endpos": 0}, {"pos": 3, "linear": False}):
                    status, value, warns = attempt(rx.search, subject, **kwargs)
                    if status == "OK" and value is not None:
                        m = value
                        groups = list(range(m.match.re.groups + 1))
                        got = [
                            m.start(), m.end(), m.shift, m.rec is subject,
                            [m.span(g) for g in groups],
                            [attempt(m.group, g)[:2] for g in groups],
                            attempt(m.group, 99)[:2],
                        ]
                        emit(pat, s, label, kwargs, got)
                    else:
                        emit(pat, s, label, kwargs, status, value)
    # positional call form
    m = DNARegex("AA(NN)").search(Seq("ATGCAGCATA"), 0, 100, False)
    emit("positional", m.span(0), m.span(1), m.group(1))


# --- B. structures -----------------------------------------------------------


def run_structures():
    section("structures")
    for enz in FIVE + THREE + ODD:
        for base in (AbstractModule, AbstractVector, core_modules.Entry, core_vectors.CassetteVector):
            cls = type(str("S_" + base.__name__), (base,), {"cutter": enz})
            emit(str(enz), base.__name__, attempt(cls.structure)[:2])
            emit(str(enz), base.__name__, "new", attempt(lambda: type(cls(SeqRecord(Seq("ACGT")))).__name__)[:2])
        for base in (core_modules.Entry, core_vectors.EntryVector):
            for sig in (("ATGC", "GGTA"), ("AT", "CC"), ("N", "NN"), NotImplemented, ("ATG",)):
                cls = type(str("P_" + base.__name__), (AbstractPart, base), {"cutter": enz, "signature": sig})
                emit(str(enz), base.__name__, sig if sig is not NotImplemented else "NI", attempt(cls.structure)[:2])
    emit("abstract", attempt(AbstractModule.structure)[:2], attempt(AbstractVector.structure)[:2])
    emit("abstract-new", attempt(AbstractModule, SeqRecord(Seq("A")))[:2], attempt(AbstractVector, SeqRecord(Seq("A")))[:2],
         attempt(AbstractPart, SeqRecord(Seq("A")))[:2])

    class NotAModule(AbstractPart):
        cutter = Restriction.BsaI
        signature = ("AAAA", "CCCC")

    emit("neither", attempt(NotAModule.structure)[:2])
    for enz in (Restriction.BsaI, Restriction.EcoRV, Restriction.EcoRI, NotImplemented):
        emit("cutter_check", str(enz), attempt(cutter_check, enz, name="X")[:2])
    src = SeqRecord(Seq("ACGTACGT"), id="src")
    dst = SeqRecord(Seq("ACGT"), id="dst")
    emit("add_as_source", add_as_source(src, dst), add_as_source(src, dst, FeatureLocation(1, 3)))


# --- C. entities -------------------------------------------------------------


def run_entities():
    section("entities")
    rng = random.Random(2)
    for enz in FIVE + THREE:
        case = build_case(enz, rng, 1, flank=5)
        if case is None:
            emit(str(enz), "no case")
            continue
        vec, (mod,) = case
        vcls, mcls = classes_for(enz)
        for kind, cls, seq in (("vector", vcls, vec), ("module", mcls, mod), ("cross", mcls, vec), ("cross", vcls, mod)):
            step = 1 if len(FIVE) and enz in FIVE[:6] + THREE[:2] else 5
            for r in list(range(0, len(seq), step)) + [len(seq) - 1]:
                s = rotate(seq, r)
                if r % 3 == 1:
                    s = s.lower()
                elif r % 3 == 2:
                    s = "".join(c.lower() if i % 2 else c for i, c in enumerate(s))
                record = annotate(CircularRecord(Seq(s), id="p{}".format(r), name="n"), random.Random(r))
                before = ser(record)
                emit(str(enz), kind, r, describe_entity(cls(record)))
                emit("unchanged", ser(record) == before)
        # other containers and topologies
        for make in (
            lambda s: SeqRecord(Seq(s), id="plain"),
            lambda s: SeqRecord(Seq(s), id="lin", annotations={"topology": "linear"}),
            lambda s: SeqRecord(Seq(s), id="circ", annotations={"topology": "Circular"}),
            lambda s: CircularRecord(Seq(s), id="c", annotations={"topology": "circular"}),
        ):
            for r in (0, 3, len(mod) // 2, len(mod) - 2):
                emit(str(enz), "container", r, describe_entity(mcls(make(rotate(mod, r)))))
                emit(str(enz), "container-v", r, describe_entity(vcls(make(rotate(vec, r)))))
        # third site inside the target -> illegal site; no site -> invalid
        gap, k, _ = geometry(enz)
        bad = "AC" + enz.site + rand(rng, gap) + "ACGTA"[:k] + "TT" + enz.site + "TTT" + "CATGC"[:k] + rand(rng, gap) + rc(enz.site) + "G"
        emit(str(enz), "illegal", describe_entity(mcls(CircularRecord(Seq(bad), id="bad"))))
        emit(str(enz), "nosite", describe_entity(mcls(CircularRecord(Seq("ACGTTGCAAACC"), id="none"))))
        emit(str(enz), "nosite-v", describe_entity(vcls(CircularRecord(Seq("ACGTTGCAAACC"), id="none"))))
        emit(str(enz), "empty", describe_entity(mcls(CircularRecord(Seq(""), id="empty"))))


def run_threeprime():
    """3' overhang cutters are only usable with a hand-written structure."""
    section("threeprime")
    rng = random.Random(5)
    for enz, site in ((Restriction.BsrDI, "GCAATG"), (Restriction.BtsI, "GCAGTG"), (Restriction.BsaI, "GGTCTC")):
        class M3(AbstractModule):
            cutter = enz

            @classmethod
            def structure(cls):
                return site + "(NN)(N*)(NN)" + rc(site)

        class V3(AbstractVector):
            cutter = enz

            @classmethod
            def structure(cls):
                return "(NN)(" + rc(site) + "N*" + site + ")(NN)"

        emit(str(enz), M3.structure(), V3.structure(), enz.is_3overhang())
        mods = ["TT" + site + "AC" + "TTTTT" + "GA" + rc(site) + "CCA",
                "C" + site + "ga" + "AAccA" + "CT" + rc(site) + "TT"]
        vec = "TTAAC" + "AC" + rc(site) + "TATA" + site + "CT" + "GGTTGG"
        for kind, cls, seq in (("m0", M3, mods[0]), ("m1", M3, mods[1]), ("v", V3, vec)):
            for r in range(len(seq)):
                record = annotate(CircularRecord(Seq(rotate(seq, r)), id="t{}".format(r)), random.Random(r))
                emit(str(enz), kind, r, describe_entity(cls(record)))
        for trial in range(6):
            v = V3(annotate(CircularRecord(Seq(rotate(vec, rng.randrange(len(vec)))), id="v"), rng, True))
            ms = [M3(annotate(CircularRecord(Seq(rotate(m, rng.randrange(len(m)))), id="m{}".format(i)), rng, trial % 2))
                  for i, m in enumerate(mods)]
            if trial % 3 == 2:
                ms.reverse()
            run_assembly("{} three t={}".format(enz, trial), v, ms)
            run_assembly("{} three-missing t={}".format(enz, trial), v, ms[:1])


# --- D. assemblies -----------------------------------------------------------


def make_entities(enz, vec, mods, rng, refs=False, plain=()):
    vcls, mcls = classes_for(enz)
    vrec = annotate(CircularRecord(Seq(vec), id="vec", name="vec"), rng, refs)
    vector = vcls(vrec)
    modules = []
    for i, m in enumerate(mods):
        if i in plain:
            rec = annotate(SeqRecord(Seq(m), id="m{}".format(i), name="m{}".format(i)), rng, refs)
        else:
            rec = annotate(CircularRecord(Seq(m), id="m{}".format(i), name="m{}".format(i)), rng, refs)
        modules.append(mcls(rec))
    return vector, modules


def run_assembly(tag, vector, modules, **kwargs):
    status, value, warns = attempt(vector.assemble, *modules, **kwargs)
    emit(tag, status, value, warns)
    emit(tag, "inputs", [ser(e.record) for e in [vector] + list(modules)])


def run_assemblies():
    section("assemblies")
    rng = random.Random(3)
    for enz in FIVE + THREE:
        for nmods in (1, 2, 3, 5):
            case = build_case(enz, rng, nmods)
            if case is None:
                emit(str(enz), nmods, "no case")
                continue
            vec, mods = case
            for trial in range(4):
                order = list(range(nmods))
                rng.shuffle(order)
                v = rotate(vec, rng.randrange(len(vec)) if trial else 0)
                ms = [rotate(mods[i], rng.randrange(len(mods[i])) if trial else 0) for i in order]
                if trial == 2:
                    v = v.lower()
                    ms = [m.lower() if i % 2 else m for i, m in enumerate(ms)]
                if trial == 3:
                    v = "".join(c.lower() if rng.random() < 0.5 else c for c in v)
                    ms = ["".join(c.lower() if rng.random() < 0.5 else c for c in m) for m in ms]
                vector, modules = make_entities(enz, v, ms, rng, refs=(trial % 2 == 1))
                run_assembly("{} n={} t={}".format(enz, nmods, trial), vector, modules)
            # twice with the same objects, other order
            vector, modules = make_entities(enz, vec, mods, rng, refs=True)
            run_assembly("{} n={} again-1".format(enz, nmods), vector, modules, id="x", name="y")
            run_assembly("{} n={} again-2".format(enz, nmods), vector, modules[::-1], id="x2", bogus=1)
            if nmods >= 2:
                # missing module
                vector, modules = make_entities(enz, vec, mods, rng)
                run_assembly("{} n={} missing".format(enz, nmods), vector, modules[1:])
                vector, modules = make_entities(enz, vec, mods, rng, refs=True)
                run_assembly("{} n={} missing-last".format(enz, nmods), vector, modules[:-1])
                # duplicates (same start overhang), and the same object twice
                vector, modules = make_entities(enz, vec, mods + [rotate(mods[0], 3)], rng)
                run_assembly("{} n={} duplicate".format(enz, nmods), vector, modules)
                vector, modules = make_entities(enz, vec, mods, rng)
                run_assembly("{} n={} twice".format(enz, nmods), vector, modules + [modules[0]])
                # plain SeqRecord module
                vector, modules = make_entities(enz, vec, mods, rng, plain=(1,))
                run_assembly("{} n={} plain".format(enz, nmods), vector, modules)
            # unused module, reverse-complementing module
            other = build_case(enz, rng, 1)
            if other is not None:
                vector, modules = make_entities(enz, vec, mods + other[1], rng, refs=True)
                run_assembly("{} n={} unused".format(enz, nmods), vector, modules)
            gap, k, _ = geometry(enz)
            start = str(Seq(mods[0]).upper())
            vector, modules = make_entities(enz, vec, mods, rng)
            status, o, _ = attempt(lambda: str(modules[0].overhang_start()).upper())
            if status == "OK" and o != rc(o):
                rcmod = "A" + enz.site + rand(rng, gap) + rc(o) + "ACCA" + ("ACGTA"[:k]) + rand(rng, gap) + rc(enz.site) + "T"
                vector, modules = make_entities(enz, vec, mods + [rcmod], rng)
                run_assembly("{} n={} revcomp".format(enz, nmods), vector, modules)
            # vector used as module and module as vector
            vector, modules = make_entities(enz, vec, mods, rng)
            vcls, mcls = classes_for(enz)
            run_assembly("{} n={} swapped".format(enz, nmods), vcls(modules[0].record), [mcls(vector.record)])
        # vector with identical overhangs
        gap, k, _ = geometry(enz)
        o = "ACGTA"[:k] if k != 2 and k != 4 else "ACCA"[:k]
        same = "GG" + o + rand(rng, gap) + rc(enz.site) + "AA" + enz.site + rand(rng, gap) + o.lower() + "GC"
        vcls, mcls = classes_for(enz)
        case = build_case(enz, rng, 1)
        if case is not None and count_sites(same, enz) == 2:
            vector, modules = make_entities(enz, same, case[1], rng, refs=True)
            run_assembly("{} same-overhangs".format(enz), vector, modules)
    # manager used directly
    enz = Restriction.BsaI
    vec, mods = build_case(enz, rng, 3)
    vector, modules = make_entities(enz, vec, mods, rng, refs=True)
    mgr = AssemblyManager(vector, modules, "ID", "NAME")
    emit("mgr", mgr.id, mgr.name, mgr.vector is vector, mgr.modules == modules, len(mgr.elements))
    emit("mgr-map", {str(k): v for k, v in mgr._generate_modules_map().items()})
    emit("mgr-assemble", attempt(mgr.assemble))
    emit("mgr-assemble-again", attempt(mgr.assemble))
    mgr2 = AssemblyManager(vector=vector, modules=modules[:2], id_="i2", name="n2")
    emit("mgr2", attempt(mgr2.assemble))
    emit("mgr2-inputs", [ser(e.record) for e in mgr2.elements])
    emit("rx", AssemblyManager._CITATION_RX.pattern)
    # invalid citations
    rec = annotate(CircularRecord(Seq(mods[0]), id="cit"), rng, True)
    rec.features[1].qualifiers["citation"] = ["2"]
    emit("bad-citation", attempt(mgr._deref_citations, rec), ser(rec))
    rec = annotate(CircularRecord(Seq(mods[0]), id="cit"), rng, True)
    rec.features[1].qualifiers["citation"] = ["[7]"]
    emit("bad-citation-index", attempt(mgr._deref_citations, rec), ser(rec))
    rec = annotate(CircularRecord(Seq(mods[0]), id="cit"), rng, True)
    rec.features[1].qualifiers["citation"] = ["[]"]
    emit("bad-citation-empty", attempt(mgr._deref_citations, rec), ser(rec))
    rec = annotate(CircularRecord(Seq(mods[0]), id="cit"), rng, True)
    mgr._deref_citations(rec)
    emit("deref", ser(rec))
    mgr._ref_citations(rec)
    emit("ref", ser(rec))
    vector, modules = make_entities(enz, vec, mods, rng, refs=True)
    modules[1].record.features[0].qualifiers["citation"] = ["oops"]
    run_assembly("assembly-bad-citation", vector, modules)
    # errors built by hand
    emit("errors", errors.InvalidSequence("s"), errors.InvalidSequence("s", details="d"),
         errors.InvalidSequence("s", ValueError("v"), "d"), errors.IllegalSite(Seq("ACGT")),
         errors.DuplicateModules(modules[0], modules[1]), errors.DuplicateModules(modules[0], details="x"),
         errors.MissingModule("ACGT"), errors.MissingModule(Seq("AC"), details="why"),
         errors.UnusedModules(modules[0]), errors.UnusedModules(modules[0], modules[1], details=3))


# --- E. kits -----------------------------------------------------------------


def run_kits():
    section("kits")
    for kit in ("cidar", "ytk", "ecoflex", "moclo", "plant"):
        status, mod, _ = attempt(importlib.import_module, "moclo.kits." + kit)
        if status != "OK":
            emit(kit, status, mod)
            continue
        for name in sorted(vars(mod)):
            cls = getattr(mod, name)
            if not (isinstance(cls, type) and issubclass(cls, StructuredRecord)):
                continue
            emit(kit, name, [b.__name__ for b in cls.__mro__], str(getattr(cls, "cutter", None)),
                 getattr(cls, "_level", None), ser(getattr(cls, "signature", None)) if getattr(cls, "signature", None) is not NotImplemented else "NI",
                 attempt(cls.structure)[:2])
            status, rx, _ = attempt(cls._get_regex)
            emit(kit, name, "regex", status, rx.pattern if status == "OK" else rx,
                 (cls._get_regex() is rx) if status == "OK" else None)


# --- F. registries -----------------------------------------------------------


def run_registries():
    section("registries")
    regs = [("cidar", "CIDARRegistry"), ("ytk", "YTKRegistry"), ("ytk", "PTKRegistry"),
            ("ecoflex", "EcoFlexRegistry"), ("plant", "PlantRegistry"), ("moclo", "MoCloRegistry")]
    loaded = {}
    for modname, clsname in regs:
        status, mod, _ = attempt(importlib.import_module, "moclo.registry." + modname)
        if status != "OK" or not hasattr(mod, clsname):
            emit(clsname, "unavailable")
            continue
        registry = getattr(mod, clsname)()
        loaded[clsname] = registry
        for key in sorted(registry):
            item = registry[key]
            entity = item.entity
            h = hashlib.sha256()
            for res in describe_entity(entity):
                h.update(ser(res).encode("utf-8"))
            emit(clsname, item.id, item.name, item.resistance, type(entity).__name__, h.hexdigest())
            if isinstance(entity, AbstractPart):
                emit(clsname, item.id, "characterize", attempt(lambda: type(AbstractPart.characterize.__func__(type(entity).__mro__[1], item.record)).__name__)[:2])
    cidar = loaded.get("CIDARRegistry")
    if cidar is not None:
        for vec, names in (("DVK_AE", ("J23102_AB", "BCD2_BC", "E1010m_CD", "B0015_DE")),
                           ("DVK_EF", ("J23102_EB", "BCD2_BC", "E1010m_CD", "B0015_DF")),
                           ("DVA_EF", ("B0015_DF", "E1010m_CD", "J23102_EB", "BCD2_BC")),
                           ("DVA_AE", ("BCD2_BC", "J23102_AB", "B0015_DE", "E1010m_CD")),
                           ("DVA_AE", ("BCD2_BC", "J23102_AB", "E1010m_CD")),
                           ("DVA_AE", ("BCD2_BC", "J23102_AB", "J23102_EB", "B0015_DE", "E1010m_CD"))):
            vector = cidar[vec].entity
            modules = [cidar[n].entity for n in names]
            run_assembly("cidar {}".format(vec), vector, modules)
            # rotated inputs
            vcls = type(vector)
            rvec = vcls(vector.record >> 1234)
            rmods = [type(m)(m.record << (17 * (i + 1))) for i, m in enumerate(modules)]
            run_assembly("cidar {} rotated".format(vec), rvec, rmods)
    ytkreg = loaded.get("YTKRegistry")
    if ytkreg is not None:
        from moclo.kits import ytk
        from tests._utils import AssemblyTestCase
        status, data, _ = attempt(AssemblyTestCase("assertAssembly").load_data, "ytk_integration_vector")
        if status == "OK":
            result, vector, mods = data
            types = {"pYTK008.gb": ytk.YTKPart1, "pYTK047.gb": ytk.YTKPart234r, "pYTK073.gb": ytk.YTKPart5,
                     "pYTK074.gb": ytk.YTKPart6, "pYTK086.gb": ytk.YTKPart7, "pYTK092.gb": ytk.YTKPart8b}
            modules = [types[k](v) for k, v in sorted(mods.items())]
            run_assembly("ytk integration", ytk.YTKPart8a(vector), modules)
            run_assembly("ytk integration rotated", ytk.YTKPart8a(vector << 777),
                         [type(m)(m.record >> (311 * (i + 1))) for i, m in enumerate(modules)][::-1])
            emit("ytk expected", str(result.seq))
        else:
            emit("ytk data", status, data)


# --- G. rotation of records (used by the fragment extraction) ----------------


def run_records():
    section("records")
    rng = random.Random(4)
    for n in (1, 2, 5, 12, 30):
        rec = annotate(CircularRecord(Seq(rand(rng, n)), id="r{}".format(n), name="r",
                                      letter_annotations={"q": list(range(n))}), rng, True)
        for r in sorted({0, 1, 2, n - 1, n, n + 1, -1, -n, 3 * n + 2, n // 2}):
            emit(n, r, "rshift", attempt(lambda: rec >> r)[:2])
            emit(n, r, "lshift", attempt(lambda: rec << r)[:2])
            emit(n, r, "window", attempt(lambda: (rec << r)[: n // 2])[:2], attempt(lambda: (rec << r)[n // 2:])[:2])
        emit(n, "same", (rec >> 0) is rec, (rec << n) is rec)


# --- H. odds and ends of the API ---------------------------------------------


def run_api():
    section("api")
    import collections.abc
    from moclo._utils import isabstract, catch_warnings
    rng = random.Random(6)
    for cls in (int, collections.abc.Iterable, AbstractPart, AbstractModule, AbstractVector, StructuredRecord,
                core_modules.Entry, core_vectors.EntryVector):
        emit("isabstract", cls.__name__, attempt(isabstract, cls)[:2])
    for kit in ("cidar", "ytk", "ecoflex", "moclo", "plant"):
        status, mod, _ = attempt(importlib.import_module, "moclo.kits." + kit)
        if status != "OK":
            continue
        for name in sorted(vars(mod)):
            cls = getattr(mod, name)
            if isinstance(cls, type) and issubclass(cls, StructuredRecord):
                emit("isabstract", kit, name, attempt(isabstract, cls)[:2], "_regex" in vars(cls))
    # matches
    m = DNARegex("AA(NN)(C*)").search(CircularRecord(Seq("ATGCAGCATA"), id="x"))
    span = m.span(1)
    start, end = span
    emit("span", span == (11, 13), (11, 13) == span, hash(span) == hash((11, 13)), isinstance(span, tuple), len(span),
         span[0], span[1], start, end, list(span), m.span() == (9, 13), m.rec.id, m.shift, {span: 1}[(11, 13)],
         m.span(1) + m.span(2), sorted([m.span(2), m.span(1)]))
    # regex caches: one per class, following the cutter of the class
    chain = [AbstractVector]
    for enz in (Restriction.BsaI, Restriction.BsmBI, Restriction.BpiI, Restriction.BsaI, Restriction.SapI):
        chain.append(type(str("Derived" + str(len(chain))), (chain[-1],), {"cutter": enz}))
    for cls in chain[1:]:
        emit("derived", cls.__name__, vars(cls).get("_regex") is None, cls._regex is None or cls._regex.pattern)
        emit("derived", cls.__name__, cls._get_regex().pattern, cls._get_regex() is cls._get_regex(), vars(cls)["_regex"].pattern)
    for cls in chain[:0:-1]:
        emit("derived-back", cls.__name__, cls._get_regex().pattern, cls.structure())
    chain[2]._regex = None
    emit("derived-reset", chain[2]._get_regex().pattern, chain[3]._get_regex().pattern)
    # ... and the assemblies made with such derived classes
    for i, cls in enumerate(chain[1:]):
        enz = cls.cutter
        case = build_case(enz, rng, 2)
        vec, mods = case
        mcls = classes_for(enz)[1]
        vector = cls(CircularRecord(Seq(vec), id="dv{}".format(i)))
        modules = [mcls(CircularRecord(Seq(x), id="dm{}".format(j))) for j, x in enumerate(mods)]
        run_assembly("derived {}".format(cls.__name__), vector, modules)
    emit("no-module", attempt(chain[1](CircularRecord(Seq("ACGT"))).assemble)[:2])
    # error messages
    vector, modules = make_entities(Restriction.BsaI, *build_case(Restriction.BsaI, rng, 2), rng=rng)
    for exc in (errors.InvalidSequence("s", details=3), errors.InvalidSequence("s", details="{}{}"), errors.InvalidSequence("{s}", details="d"),
                errors.DuplicateModules(modules[0], details=3), errors.DuplicateModules(modules[0], "x"), errors.DuplicateModules(details="{0}{0}"),
                errors.MissingModule("ACGT", details=None), errors.MissingModule("ACGT", details=["l"]), errors.MissingModule("{}", details="{:>6}"),
                errors.UnusedModules(details=3), errors.UnusedModules(modules[1], details="{}{}"), errors.UnusedModules(vector, 3)):
        emit("message", type(exc).__name__, ser(exc.args), attempt(str, exc)[:2], exc.details)
    emit("raise", attempt(errors.MissingModule)[:2], attempt(errors.InvalidSequence)[:2], attempt(errors.MissingModule, "A", "B")[:2])
    emit("hierarchy", [(n, [b.__name__ for b in getattr(errors, n).__mro__]) for n in
                       ("MocloError", "InvalidSequence", "IllegalSite", "AssemblyError", "DuplicateModules",
                        "MissingModule", "AssemblyWarning", "UnusedModules")])

    @catch_warnings("error", category=errors.AssemblyWarning)
    def strict(vector, *modules):
        return vector.assemble(*modules)

    other = build_case(Restriction.BsaI, rng, 1)
    extra = classes_for(Restriction.BsaI)[1](CircularRecord(Seq(other[1][0]), id="extra"))
    emit("strict", attempt(strict, vector, *(modules + [extra])))
    emit("strict-inputs", [ser(e.record) for e in [vector] + modules + [extra]])


def main():
    run_regex()
    run_structures()
    run_entities()
    run_assemblies()
    run_threeprime()
    run_kits()
    run_registries()
    run_records()
    run_api()
    total = hashlib.sha256()
    for name in _sections:
        print("{:12s} {}".format(name, _sections[name].hexdigest()))
        total.update(_sections[name].digest())
    print("lines: {}".format(len(_lines)))
    print("DIGEST {}".format(total.hexdigest()))
    if "--dump" in sys.argv:
        with open(sys.argv[sys.argv.index("--dump") + 1], "w") as fh:
            fh.write("\n".join(_lines))


if __name__ == "__main__":
    main()
