# coding: utf-8
"""Differential test for the registry code (property C20).

Run as: cd /tmp/agents9/C20 && /venv/bin/python pairs_out/C20_t2/equiv.py

Exercises the embedded registries, `find_resistance`, `FilesystemRegistry`,
`CombinedRegistry`, the kit `_load_entity` hooks and the `ELabFTWRegistry`
constructor through the existing API and prints a digest of every result,
exception (type, message, args, chaining), warning and input state
afterwards. The digest must not change under a behaviour-preserving patch.
"""
import sys

sys.path.insert(0, "/tmp/agents9/C20")
import tests  # noqa: F401,E402

import collections  # noqa: E402
import copy  # noqa: E402
import hashlib  # noqa: E402
import itertools  # noqa: E402
import shutil  # noqa: E402
import tempfile  # noqa: E402
import warnings  # noqa: E402

import fs  # noqa: E402
import six  # noqa: E402
from Bio.Seq import Seq  # noqa: E402
from Bio.SeqFeature import SeqFeature, FeatureLocation  # noqa: E402
from Bio.SeqIO import write  # noqa: E402
from Bio.SeqRecord import SeqRecord  # noqa: E402

from moclo.core import AbstractModule, AbstractPart, AbstractVector  # noqa: E402
from moclo.kits import ytk, cidar, ecoflex, moclo as moclo_kit  # noqa: E402
from moclo.record import CircularRecord  # noqa: E402
from moclo.registry import base, _utils  # noqa: E402
from moclo.registry.base import (  # noqa: E402
    AbstractRegistry,
    CombinedRegistry,
    EmbeddedRegistry,
    FilesystemRegistry,
    Item,
)
from moclo.registry.cidar import CIDARRegistry  # noqa: E402
from moclo.registry.ecoflex import EcoFlexRegistry  # noqa: E402
from moclo.registry.elabftw import ELabFTWRegistry  # noqa: E402
from moclo.registry.plant import PlantRegistry  # noqa: E402
from moclo.registry.ytk import PTKRegistry, YTKRegistry  # noqa: E402
from moclo.registry._utils import find_resistance  # noqa: E402

LINES = []


def emit(*parts):
    LINES.append(" | ".join(str(p) for p in parts))


def sha(text):
    return hashlib.sha256(str(text).encode("utf-8")).hexdigest()[:16]


def describe_exc(e):
    cause = type(e.__cause__).__name__ if e.__cause__ is not None else None
    ctx = type(e.__context__).__name__ if e.__context__ is not None else None
    return "EXC {} str={!r} args={!r} cause={} ctx={} suppress={}".format(
        type(e).__name__, str(e), e.args, cause, ctx, e.__suppress_context__
    )


def describe_record(rec):
    return (
        type(rec).__name__,
        rec.id,
        rec.name,
        rec.description,
        len(rec.seq),
        sha(rec.seq),
        len(rec.features),
        sha(sorted(rec.annotations.items(), key=lambda kv: kv[0]).__repr__()),
        sha([(f.type, str(f.location), sorted(f.qualifiers.items())) for f in rec.features]),
    )


def describe_item(item):
    return (
        type(item).__name__,
        item._fields,
        len(item),
        item.id,
        item.name,
        item.resistance,
        type(item.resistance).__name__,
        type(item.entity).__name__,
        item.record is item.entity.record,
        tuple(item)[0] == item.id and tuple(item)[3] == item.resistance,
    ) + describe_record(item.entity.record)


def run(label, fn, show=repr):
    with warnings.catch_warnings(record=True) as caught:
        warnings.simplefilter("always")
        try:
            out = show(fn())
        except BaseException as e:  # noqa: B902
            out = describe_exc(e)
    emit(label, out)
    for w in caught:
        if issubclass(w.category, ResourceWarning):
            continue  # depends on when the garbage collector runs
        emit(label, "WARNING", w.category.__name__, str(w.message))


# --- Embedded registries ------------------------------------------------------

EMBEDDED = [YTKRegistry, PTKRegistry, CIDARRegistry, EcoFlexRegistry, PlantRegistry]
ABSENT = ["pYTK200", "", "nope", "pYTK001 ", "PYTK001", 5, None, ("a",)]


def embedded_section():
    for cls in EMBEDDED:
        name = cls.__name__
        r, other = cls(), cls()
        emit(name, "mro", [c.__name__ for c in cls.__mro__][:4])
        emit(name, "issubclass", issubclass(cls, EmbeddedRegistry), issubclass(cls, AbstractRegistry), isinstance(r, collections.abc.Mapping))
        emit(name, "attrs", cls._module, cls._file)
        it = iter(r)
        emit(name, "itertype", type(it).__name__)
        run(name + " len", lambda: len(r))
        run(name + " keys", lambda: list(r))
        run(name + " keys2", lambda: list(r.keys()) == list(r) == list(it))
        run(name + " eq", lambda: (r == other, r != other, hash(r) == hash(other), r == 5, r == PTKRegistry(), r == YTKRegistry()))
        keys = list(r)
        for k in keys:
            run(name + " item " + k, lambda: r[k], describe_item)
            run(name + " same " + k, lambda: (r[k] is r[k], r[k] is not other[k], k in r, r.get(k) is r[k]))
        run(name + " values", lambda: [i.id for i in r.values()])
        run(name + " items", lambda: [(k, i.id) for k, i in r.items()] == [(k, k) for k in keys])
        for k in ABSENT:
            run(name + " absent " + repr(k), lambda: r[k])
            run(name + " absent-in " + repr(k), lambda: k in r)
            run(name + " absent-get " + repr(k), lambda: r.get(k, "dflt"))
        run(name + " unhashable", lambda: r[[]])
        run(name + " load_name", lambda: r._load_name(r[keys[0]].entity.record))
        run(name + " load_res", lambda: r._load_resistance(r[keys[0]].entity.record))
        bare = CircularRecord(Seq("ATGC"), id="bare", name="bare_name")
        run(name + " load_res bare", lambda: r._load_resistance(bare))
        run(name + " data keys", lambda: list(r._data) == keys)
    run("EmbeddedRegistry()", lambda: EmbeddedRegistry())


def hooks_section():
    r = YTKRegistry()

    def ytk_rec(comment):
        rec = copy.deepcopy(r["pYTK002"].entity.record)
        if comment is None:
            rec.annotations.pop("comment", None)
        else:
            rec.annotations["comment"] = comment
        return rec

    comments = [
        None, "", "nothing here", "YTK:1", "YTK:2", "foo\nYTK:1\nbar", "YTK:99", "YTK: 1",
        "YTK:1 ", "  YTK:1", "YTK:1\nYTK:2", "YTK:cassette vector", "YTK:3a:b", "ytk:1",
    ]
    for c in comments:
        rec = ytk_rec(c)

        def call():
            ent = r._load_entity(rec)
            return type(ent).__name__, ent.record is rec

        run("ytk hook " + repr(c), call)
        emit("ytk hook after " + repr(c), repr(rec.annotations.get("comment")))
        if hasattr(r, "_types"):
            emit("ytk types", sorted((k, v.__name__) for k, v in r._types.items()))

    c = CIDARRegistry()
    descs = [
        "MoClo Basic Part: CDS - luxR", "MoClo Basic Part: RBS", "MoClo Basic Part: Nonsense",
        "MoClo Destination Vector: DVA", "MoClo Destination Vector: ", "MoClo Device: x", "garbage",
        "", "MoClo Transcriptional Unit: a [b]", "MoClo Basic Part: Double terminator (x)",
        "MoClo Unknown Class: CDS", "MoClo Basic Part : CDS", " MoClo Basic Part: CDS",
        "MoClo Entry Vector: foo", "MoClo Cassette Vector: foo",
        "MoClo Basic Part: Constitutive promoter", "MoClo Basic Part: Controllable promoter - x",
    ]
    for d in descs:
        for ident in ("DVA_XX", "DVK_XX", "OTHER"):
            rec = CircularRecord(Seq("ATGC" * 10), id=ident, name="n", description=d)

            def call():
                ent = c._load_entity(rec)
                return type(ent).__name__, ent.record is rec

            run("cidar hook {!r} {}".format(d, ident), call)
    emit("cidar tables", sorted((k, v.__name__) for k, v in c._CLASSES.items()), sorted((k, v.__name__) for k, v in c._TYPES.items()), c._ENTITY_RX.pattern)

    e = EcoFlexRegistry()
    for ident in ("pTU1-x", "pTU2-y", "pTU3-z", "pBP-x", "other"):
        rec = CircularRecord(Seq("ATGC" * 10), id=ident, name="n")

        def call():
            ent = e._load_entity(rec)
            return type(ent).__name__, ent.record is rec

        run("ecoflex hook " + ident, call)

    p = PlantRegistry()
    rec = CircularRecord(Seq("ATGC" * 10), id="x", name="n")
    run("plant hook", lambda: type(p._load_entity(rec)).__name__)


# --- find_resistance ----------------------------------------------------------

LABELS = ["KanR", "CamR", "CmR", "KnR", "AmpR", "SmR", "SpecR"]
OTHERS = ["GFP", "kanr", "KanR ", "", "AmpR promoter"]


def feature(labels, start=0, key="label"):
    quals = {} if labels is None else {key: labels}
    return SeqFeature(FeatureLocation(start, start + 3), type="misc_feature", qualifiers=quals)


def resistance_section():
    emit("antibiotics", sorted(_utils._ANTIBIOTICS.items()), type(_utils._ANTIBIOTICS).__name__)
    for k, v in sorted(_utils._ANTIBIOTICS.items()):
        emit("antibiotic", k, v, type(k).__name__, type(v).__name__, v == str(v), str(v), repr(v))
    cases = []
    pool = LABELS + OTHERS
    for a in pool:
        cases.append([[a]])
        cases.append([a])  # label given as a bare string
        cases.append([["GFP"], [a]])
        cases.append([None, [a], ["AmpR"]])
    for a, b in itertools.product(pool, repeat=2):
        cases.append([[a, b]])
        cases.append([[a], [b]])
    cases.append([])
    cases.append([None])
    cases.append([[]])
    cases.append([["GFP", "RFP"], ["KanR", "KanR"]])
    cases.append([("KanR",)])
    cases.append([{"KanR"}])
    for n, labels in enumerate(cases):
        rec = SeqRecord(Seq("ATGCATGCATGC"), id="rec{}".format(n), name="r")
        rec.features = [feature(l, i) for i, l in enumerate(labels)]
        before = repr([(f.type, str(f.location), sorted(f.qualifiers.items(), key=repr)) for f in rec.features])
        run("find_resistance {!r}".format(labels), lambda: find_resistance(rec))
        crec = CircularRecord(rec)
        run("find_resistance circ {!r}".format(labels), lambda: find_resistance(crec))
        after = repr([(f.type, str(f.location), sorted(f.qualifiers.items(), key=repr)) for f in rec.features])
        emit("find_resistance state", before == after, rec.id)
    rec = SeqRecord(Seq("ATGC"), id="other-key")
    rec.features = [feature(["KanR"], key="note")]
    run("find_resistance note", lambda: find_resistance(rec))
    run("find_resistance None", lambda: find_resistance(None))
    run("find_resistance str", lambda: find_resistance("ATGC"))
    run("find_resistance same fn", lambda: base.find_resistance is find_resistance)


# --- Filesystem registries ----------------------------------------------------


def genbank(record):
    buff = six.StringIO()
    write([record], buff, "genbank")
    return buff.getvalue()


def relabel(record, label, new_id=None):
    rec = copy.deepcopy(record)
    for f in rec.features:
        labs = f.qualifiers.get("label", [])
        if any(l in _utils._ANTIBIOTICS for l in labs):
            if label is None:
                f.qualifiers["label"] = ["nothing"]
            else:
                f.qualifiers["label"] = [label]
    if new_id is not None:
        rec.id = rec.name = new_id
    return rec


def build_tree(target):
    y = YTKRegistry()
    p2, p38, p95 = (y[k].entity.record for k in ("pYTK002", "pYTK038", "pYTK095"))
    target.settext("alpha.gb", genbank(p2))
    target.settext("beta.gbk", genbank(p38))
    target.settext("gamma.genbank", genbank(p2))
    target.settext("delta.txt", genbank(p2))
    target.settext("EPS.GB", genbank(p2))
    target.settext("zeta.gb", genbank(relabel(p38, "CmR", "inner_id")))
    target.settext("mixed.Case.gbk", genbank(p2))
    target.settext("vector.gb", genbank(p95))
    target.settext("notgb.gb", "this is not a GenBank file\n")
    target.settext("empty.gbk", "")
    target.settext("multi.gb", genbank(p2) + genbank(p38))
    target.settext("noext", genbank(p2))
    target.settext("nores.gb", genbank(relabel(p2, None)))
    target.settext("unknownres.gbk", genbank(relabel(p2, "TetR")))
    for label in LABELS:
        target.settext("res_{}.gb".format(label), genbank(relabel(p2, label, "res" + label)))
    target.makedir("sub")
    target.settext("sub/inner.gb", genbank(p2))
    target.makedir("dir.gb")
    target.settext("dir.gb/deep.gb", genbank(p38))
    target.makedir("emptydir.gbk")


def tree_state(target):
    out = []
    for path in sorted(target.walk.files("/")):
        out.append((path, sha(target.gettext(path))))
    for path in sorted(target.walk.dirs("/")):
        out.append((path, "dir"))
    return sha(out), len(out)


FS_KEYS = [
    "alpha", "beta", "gamma", "delta", "EPS", "eps", "zeta", "inner_id", "mixed.Case", "mixed",
    "vector", "notgb", "empty", "multi", "noext", "nores", "unknownres", "sub", "sub/inner",
    "inner", "dir", "dir.gb/deep", "emptydir", "missing", "", "alpha.gb", "/alpha", "../alpha",
    5, None, "ALPHA",
] + ["res_" + l for l in LABELS]

FS_BASES = [
    ("YTKPart", lambda: ytk.YTKPart),
    ("YTKPart1", lambda: ytk.YTKPart1),
    ("YTKPart8", lambda: ytk.YTKPart8),
    ("AbstractPart", lambda: AbstractPart),
    ("YTKCassetteVector", lambda: ytk.YTKCassetteVector),
    ("CIDARPart", lambda: cidar.CIDARPart),
]

FS_EXTENSIONS = [
    ("default", None),
    ("gb", lambda: ("gb",)),
    ("list", lambda: ["gbk", "gb"]),
    ("string", lambda: "gb"),
    ("genbank+txt", lambda: ("genbank", "txt")),
    ("empty", lambda: ()),
    ("upper", lambda: ("GB",)),
    ("star", lambda: ("*",)),
    ("iterator", lambda: iter(("gb", "gbk"))),
    ("Case.gbk", lambda: ("Case.gbk", "gb")),
]


def probe_fs_registry(label, r, keys=FS_KEYS, deep=True):
    run(label + " attrs", lambda: (r.base.__name__, type(r._extensions).__name__, r._recurse, type(r.fs).__name__))
    run(label + " files", lambda: r._files)
    run(label + " itertype", lambda: type(iter(r)).__name__)
    run(label + " len", lambda: len(r))
    run(label + " iter", lambda: sorted(r))
    run(label + " iter-again", lambda: (sorted(r), len(r)))
    if not deep:
        return
    try:
        found = sorted(r)
    except Exception:  # noqa: B902
        found = []
    for k in found + [k for k in keys if k not in found]:
        run(label + " get " + repr(k), lambda: r[k], describe_item)
        run(label + " in " + repr(k), lambda: k in r)
    run(label + " new-each-time", lambda: r["alpha"] is r["alpha"])
    run(label + " values", lambda: [i.id for i in r.values()])
    run(label + " ro", lambda: r.fs.remove("alpha.gb"))


def filesystem_section():
    mem = fs.open_fs("mem://")
    build_tree(mem)
    state = tree_state(mem)
    emit("tree", state)

    for (bname, bfn), (ename, efn) in itertools.product(FS_BASES, FS_EXTENSIONS):
        label = "fsreg[{},{}]".format(bname, ename)
        deep = bname in ("YTKPart", "YTKPart8") or ename == "default"

        def make():
            if efn is None:
                return FilesystemRegistry(mem, bfn())
            return FilesystemRegistry(mem, bfn(), efn())

        try:
            r = make()
        except Exception as e:  # noqa: B902
            emit(label, "ctor", describe_exc(e))
            continue
        probe_fs_registry(label, r, deep=deep)

    run("fsreg kw", lambda: sorted(FilesystemRegistry(fs_url=mem, base=ytk.YTKPart, extensions=("gbk",))))
    run("fsreg pos", lambda: sorted(FilesystemRegistry(mem, ytk.YTKPart, ("gbk",))))
    r = FilesystemRegistry(mem, ytk.YTKPart)
    r._extensions = ("genbank",)
    run("fsreg mutated ext", lambda: (sorted(r), len(r), r["gamma"].id, "alpha" in r))
    r.base = ytk.YTKPart8
    run("fsreg mutated base", lambda: r["gamma"])

    for bad in (5, "YTKPart", None, int, object, CircularRecord, AbstractRegistry, Item):
        run("fsreg bad base " + repr(bad), lambda: FilesystemRegistry(mem, bad))
    for good in (AbstractPart, AbstractModule, AbstractVector, ytk.YTKEntryVector, ytk.YTKCassette, moclo_kit.MoCloPart, ecoflex.EcoFlexPart):
        run("fsreg base " + good.__name__, lambda: sorted(FilesystemRegistry(mem, good))[:3])
        run("fsreg base get " + good.__name__, lambda: FilesystemRegistry(mem, good)["alpha"], describe_item)
        run("fsreg base get vector " + good.__name__, lambda: FilesystemRegistry(mem, good)["vector"], describe_item)
    run("fsreg bad url", lambda: FilesystemRegistry("nonexistent-protocol://x", ytk.YTKPart))
    run("fsreg bad dir", lambda: FilesystemRegistry("/nonexistent_dir_for_c20", ytk.YTKPart))
    run("fsreg no args", lambda: FilesystemRegistry())
    run("fsreg one arg", lambda: FilesystemRegistry(mem))
    run("fsreg extra kw", lambda: FilesystemRegistry(mem, ytk.YTKPart, suffixes=("gb",)))

    # sub-filesystem and a real directory
    sub = mem.opendir("sub")
    probe_fs_registry("fsreg[sub]", FilesystemRegistry(sub, ytk.YTKPart), keys=["inner", "alpha", "missing"])
    empty = fs.open_fs("mem://")
    probe_fs_registry("fsreg[emptyfs]", FilesystemRegistry(empty, ytk.YTKPart), keys=["alpha", ""])

    tmp = tempfile.mkdtemp(prefix="c20equiv")
    try:
        with fs.open_fs(tmp) as osfs:
            build_tree(osfs)
        probe_fs_registry("fsreg[osfs]", FilesystemRegistry(tmp, ytk.YTKPart))
        probe_fs_registry("fsreg[osfs-url]", FilesystemRegistry("osfs://" + tmp, ytk.YTKPart, ("gbk",)), deep=False)
    finally:
        shutil.rmtree(tmp)

    emit("tree after", tree_state(mem) == state)
    return mem


# --- Combined registries --------------------------------------------------------


class Brittle(AbstractRegistry):
    """A registry whose values break after a few items."""

    def __init__(self, inner, limit):
        self.inner, self.limit = inner, limit

    def __getitem__(self, key):
        return self.inner[key]

    def __iter__(self):
        return iter(self.inner)

    def __len__(self):
        return len(self.inner)

    def values(self):
        for n, k in enumerate(self.inner):
            if n == self.limit:
                raise ValueError("brittle registry broke")
            yield self.inner[k]


def fingerprint(item):
    return (item.id, item.name, item.resistance, type(item.entity).__name__, sha(item.entity.record.seq))


def combined_section():
    y, p, c = YTKRegistry(), PTKRegistry(), CIDARRegistry()
    yk = list(y)

    a = fs.open_fs("mem://")
    b = fs.open_fs("mem://")
    rec = {k: y[k].entity.record for k in yk[:12]}
    # A and B overlap on several identifiers, with different plasmids behind
    a.settext("pYTK001.gb", genbank(relabel(rec["pYTK002"], "KanR", "pYTK001")))
    a.settext("shared1.gb", genbank(rec["pYTK002"]))
    a.settext("onlyA.gbk", genbank(rec["pYTK003"]))
    a.settext("shared2.gb", genbank(rec["pYTK004"]))
    b.settext("onlyB1.gb", genbank(rec["pYTK005"]))
    b.settext("shared1.gb", genbank(rec["pYTK006"]))
    b.settext("onlyB2.gb", genbank(rec["pYTK007"]))
    b.settext("shared2.gbk", genbank(rec["pYTK008"]))
    b.settext("pPTK001.gb", genbank(rec["pYTK009"]))
    b.settext("zlast.gb", genbank(rec["pYTK010"]))
    ra = FilesystemRegistry(a, ytk.YTKPart)
    rb = FilesystemRegistry(b, ytk.YTKPart)
    plain = {"k1": y["pYTK011"], "k2": y["pYTK012"], "k3": p["pPTK002"]}
    odd = collections.OrderedDict(
        [
            ("whatever", Item(id="pYTK001", name="imposter", entity=y["pYTK020"].entity, resistance="Kanamycin")),
            ("pYTK002", Item(id="renamed", name="renamed", entity=y["pYTK021"].entity, resistance="Ampicillin")),
            ("dup1", Item(id="twice", name="first", entity=y["pYTK022"].entity, resistance="Ampicillin")),
            ("dup2", Item(id="twice", name="second", entity=y["pYTK023"].entity, resistance="Ampicillin")),
            ("tail", Item(id="tail", name="tail", entity=y["pYTK024"].entity, resistance="Ampicillin")),
        ]
    )
    pool = collections.OrderedDict(
        [("ytk", y), ("ptk", p), ("fsA", ra), ("fsB", rb), ("plain", plain), ("odd", odd), ("cidar", c)]
    )
    probes = ["pYTK001", "pYTK002", "pPTK001", "shared1", "shared2", "onlyA", "onlyB1", "onlyB2", "zlast",
              "k1", "whatever", "renamed", "twice", "tail", "dup1", "DVA_AE", "missing", "", 5, None]

    empty = CombinedRegistry()
    run("combined empty", lambda: (len(empty), list(empty), "x" in empty, empty.get("x")))
    run("combined empty get", lambda: empty["x"])
    run("combined empty unhashable", lambda: empty[[]])
    run("combined empty unhashable in", lambda: [] in empty)
    run("combined data type", lambda: (type(empty._data).__name__, empty._data == {}))
    run("combined is mapping", lambda: (isinstance(empty, AbstractRegistry), isinstance(empty, collections.abc.Mapping)))

    names = list(pool)
    sequences = []
    for n in (1, 2, 3):
        for seq in itertools.product(names[:6], repeat=n):
            sequences.append(seq)
    sequences.append(("cidar", "ytk", "ptk", "fsA", "fsB", "plain", "odd"))
    sequences.append(tuple(reversed(names)))
    for seq in sequences:
        label = "combined[{}]".format(",".join(seq))
        reg = CombinedRegistry()
        chained = reg
        for n, name in enumerate(seq):
            if n % 2:
                chained = chained << pool[name]
            else:
                reg.add_registry(pool[name])
        emit(label, "chain", chained is reg)
        keys = list(reg)
        emit(label, "len", len(reg), len(keys), len(set(keys)), sha(keys))
        emit(label, "data", list(reg._data) == keys, all(reg._data[k] is reg[k] for k in keys))
        emit(label, "ids", all(reg[k].id == k for k in keys))
        emit(label, "fingerprints", sha([fingerprint(reg[k]) for k in keys]))
        for k in probes:
            run(label + " probe " + repr(k), lambda: fingerprint(reg[k]))
            run(label + " in " + repr(k), lambda: k in reg)
        if len(seq) <= 2:
            emit(label, "keys", keys if len(keys) < 40 else sha(keys))
        # identity with the embedded members (they cache their items)
        emit(label, "identity", [(m, k, reg[k] is pool[m][k]) for m in ("ytk", "ptk") for k in ("pYTK001", "pPTK001", "pYTK050") if k in reg and k in pool[m]])

    # things that are not registries, or that break midway
    for bad in (5, None, "abc", [y["pYTK001"]], (y["pYTK001"],)):
        reg = CombinedRegistry() << p
        run("combined bad " + repr(type(bad).__name__), lambda: reg.add_registry(bad))
        run("combined bad lshift " + repr(type(bad).__name__), lambda: reg << bad)
        emit("combined bad after", len(reg), sha(list(reg)))
    run("combined dict of non-items", lambda: CombinedRegistry().add_registry({"a": 1}))
    for limit in (0, 1, 5, 30):
        reg = CombinedRegistry() << ra
        run("combined brittle {}".format(limit), lambda: reg.add_registry(Brittle(y, limit)))
        emit("combined brittle after", limit, len(reg), list(reg))
        run("combined brittle then", lambda: (reg << y) is reg)
        emit("combined brittle then after", limit, len(reg), sha(list(reg)), fingerprint(reg["pYTK001"]))
    reg = CombinedRegistry()
    weird = {"u": Item(id=["unhashable"], name="u", entity=y["pYTK001"].entity, resistance="x")}
    run("combined unhashable id", lambda: reg.add_registry(weird))
    weird2 = {"u": Item(id=("tuple", 1), name="u", entity=y["pYTK001"].entity, resistance="x"),
              "v": Item(id=None, name="v", entity=y["pYTK001"].entity, resistance="x")}
    run("combined tuple id", lambda: (reg.add_registry(weird2), list(reg), reg[None].name, reg[("tuple", 1)].name))
    run("combined nested", lambda: sorted((CombinedRegistry() << (CombinedRegistry() << p << ra) << rb)))
    nested = CombinedRegistry() << (CombinedRegistry() << rb << ra) << ra
    run("combined nested first wins", lambda: [fingerprint(nested[k]) for k in ("shared1", "shared2")])
    run("combined self", lambda: len((lambda r: r << r)(CombinedRegistry() << p)))
    # independence of two combined registries
    one, two = CombinedRegistry(), CombinedRegistry()
    one << p
    run("combined independent", lambda: (len(one), len(two), list(two)))
    # later changes to a member are not seen
    late = fs.open_fs("mem://")
    late.settext("first.gb", genbank(rec["pYTK002"]))
    rl = FilesystemRegistry(late, ytk.YTKPart)
    snap = CombinedRegistry() << rl
    late.settext("second.gb", genbank(rec["pYTK003"]))
    run("combined snapshot", lambda: (list(snap), sorted(rl), len(rl)))
    run("combined snapshot re-add", lambda: sorted(snap << rl))
    emit("combined fs state", tree_state(a), tree_state(b))


# --- eLabFTW ------------------------------------------------------------------------


def elabftw_section():
    cases = [
        dict(server="https://elab.example.org", token="t", base=ytk.YTKPart),
        dict(server="http://x", token="t", base=ytk.YTKPart, category="C", include_tags=["a", "b", "a"], exclude_tags=("c",), strict_ssl=True, ignore_unknown=False),
        dict(server="ftp://x", token="t", base=ytk.YTKPart),
        dict(server=5, token="t", base=ytk.YTKPart),
        dict(server=None, token="t", base=ytk.YTKPart),
        dict(server="https://x", token="t", base=5),
        dict(server=5, token="t", base="str"),
        dict(server="https://x", token="t", base=AbstractVector),
        dict(server="httpx", token=None, base=AbstractModule),
    ]
    for n, kw in enumerate(cases):
        def call():
            r = ELabFTWRegistry(**kw)
            return sorted((k, v if not isinstance(v, (set, type)) else (sorted(v) if isinstance(v, set) else v.__name__)) for k, v in vars(r).items())
        run("elabftw {}".format(n), call)
    run("elabftw positional", lambda: sorted(vars(ELabFTWRegistry("https://x", "tok", ytk.YTKPart, "Cat", ["i"], ["e"], True, False))))
    run("elabftw missing", lambda: ELabFTWRegistry("https://x"))


# --- Module surface -----------------------------------------------------------------


def surface_section():
    import moclo.registry._utils as u
    import moclo.registry.base as b
    import moclo.registry.cidar as mc
    import moclo.registry.ecoflex as me
    import moclo.registry.elabftw as ml
    import moclo.registry.plant as mp
    import moclo.registry.ytk as my

    wanted = {
        b: ["Item", "AbstractRegistry", "CombinedRegistry", "EmbeddedRegistry", "FilesystemRegistry",
            "find_resistance", "CircularRecord", "AbstractModule", "AbstractVector", "AbstractPart",
            "cached_property", "read_only", "splitext", "fs", "six", "typing", "tarfile", "io", "abc",
            "bz2", "json", "pkg_resources", "Bio"],
        u: ["find_resistance", "_ANTIBIOTICS", "isabstract"],
        my: ["YTKRegistry", "PTKRegistry", "EmbeddedRegistry", "ytk", "six"],
        mc: ["CIDARRegistry", "EmbeddedRegistry", "cidar", "find_resistance", "re", "six"],
        me: ["EcoFlexRegistry", "EmbeddedRegistry", "ecoflex", "find_resistance", "six"],
        mp: ["PlantRegistry", "EmbeddedRegistry", "moclo", "plant", "find_resistance", "six"],
        ml: ["ELabFTWRegistry", "AbstractRegistry", "Item", "find_resistance", "CircularRecord", "json", "ssl"],
    }
    for mod, names in wanted.items():
        emit("surface", mod.__name__, [(n, hasattr(mod, n)) for n in names])
    emit("item fields", Item._fields, Item.__mro__[1].__name__, Item.__name__, Item.__module__)
    it = Item("i", "n", "e", "r")
    emit("item positional", it, it.id, it.name, it.entity, it.resistance, it == ("i", "n", "e", "r"), repr(it))
    run("item record", lambda: it.record)
    run("item kw", lambda: Item(resistance="r", entity="e", name="n", id="i"))
    run("item missing", lambda: Item(id="i"))
    run("item replace", lambda: it._replace(id="j"))
    for cls in (CombinedRegistry, EmbeddedRegistry, FilesystemRegistry, ELabFTWRegistry, YTKRegistry, PTKRegistry, CIDARRegistry, EcoFlexRegistry, PlantRegistry):
        emit("class", cls.__name__, cls.__module__, [c.__name__ for c in cls.__mro__], sorted(getattr(cls, "__abstractmethods__", ())))
    emit("embedded defaults", EmbeddedRegistry._module, EmbeddedRegistry._file, EmbeddedRegistry._types)
    emit("ptk", PTKRegistry._file, PTKRegistry._module, PTKRegistry._types is YTKRegistry._types, issubclass(PTKRegistry, YTKRegistry))
    emit("hooks", [n for n in ("_load_name", "_load_resistance", "_load_entity", "_data") if hasattr(EmbeddedRegistry, n)])


def main():
    warnings.simplefilter("ignore")
    surface_section()
    embedded_section()
    hooks_section()
    resistance_section()
    filesystem_section()
    combined_section()
    elabftw_section()
    digest = hashlib.sha256("\n".join(LINES).encode("utf-8")).hexdigest()
    if "--dump" in sys.argv:
        for line in LINES:
            print(line)
    print("lines:", len(LINES))
    print("digest:", digest)


if __name__ == "__main__":
    main()
