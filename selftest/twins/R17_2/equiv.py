# coding: utf-8
"""Differential test: prints a digest of the observable behaviour of the
moclo core library (records, regexes, structured records, assemblies, parts,
errors) over many generated inputs.  The digest must be identical on the
pristine tree and with the rewrite applied.

Run as: cd /tmp/agentsR4/R17 && /venv/bin/python refactor_out/R17_<i>/equiv.py
"""
import sys

sys.path.insert(0, "/tmp/agentsR4/R17")
import tests  # noqa: F401,E402  (splices the kit packages into the namespace)

import copy  # noqa: E402
import hashlib  # noqa: E402
import inspect  # noqa: E402
import random  # noqa: E402
import re  # noqa: E402
import warnings  # noqa: E402

from Bio.Restriction import AcuI, BpiI, BsaI, BseRI, BsmBI, BtsI, EcoRV  # noqa: E402
from Bio.Seq import Seq  # noqa: E402
from Bio.SeqFeature import (  # noqa: E402
    CompoundLocation,
    FeatureLocation,
    Reference,
    SeqFeature,
)
from Bio.SeqRecord import SeqRecord  # noqa: E402

import moclo  # noqa: E402
from moclo import errors  # noqa: E402
from moclo.core import (  # noqa: E402
    AbstractModule,
    AbstractPart,
    AbstractVector,
    Cassette,
    CassetteVector,
    Device,
    DeviceVector,
    Entry,
    EntryVector,
    Product,
)
from moclo.record import CircularRecord  # noqa: E402
from moclo.regex import DNARegex, SeqMatch  # noqa: E402

warnings.simplefilter("ignore")

ONLY = set(sys.argv[1:])  # optional: restrict to some sections (debugging)
_ADDR = re.compile(r"0x[0-9a-fA-F]+")
_digest = hashlib.sha256()
_count = [0]


def emit(tag, value):
    _count[0] += 1
    _digest.update(repr((tag, value)).encode("utf-8"))
    _digest.update(b"\n")


# --- serialisation -----------------------------------------------------------


def ser_val(v):
    if isinstance(v, SeqRecord):
        return ser_rec(v)
    if isinstance(v, Seq):
        return ("Seq", str(v))
    if isinstance(v, SeqMatch):
        return ser_match(v)
    if isinstance(v, Reference):
        return ("Reference", v.title, v.authors, v.journal)
    if isinstance(v, (list, tuple)):
        return (type(v).__name__, [ser_val(x) for x in v])
    if isinstance(v, dict):
        return ("dict", [(ser_val(k), ser_val(x)) for k, x in v.items()])
    if isinstance(v, (AbstractModule, AbstractVector, AbstractPart)):
        return ("entity", type(v).__name__, v.record.id)
    if v is None or isinstance(v, (bool, int, float, str, bytes)):
        return v
    return _ADDR.sub("0x?", repr(v))


def ser_feat(f):
    return (
        type(f).__name__,
        f.type,
        f.id,
        None if f.location is None else (type(f.location).__name__, repr(f.location)),
        [(k, ser_val(v)) for k, v in f.qualifiers.items()],
    )


def ser_rec(r):
    return (
        type(r).__name__,
        type(r.seq).__name__,
        str(r.seq),
        r.id,
        r.name,
        r.description,
        ser_val(list(r.dbxrefs)),
        [ser_feat(f) for f in r.features],
        ser_val(dict(r.annotations)),
        ser_val(dict(r.letter_annotations)),
    )


def ser_match(m):
    out = ["SeqMatch", m.shift, m.start(), m.end(), m.span()]
    ngroups = getattr(getattr(m.match, "re", None), "groups", 0)
    for i in range(ngroups + 1):
        out.append((i, m.span(i), attempt(lambda i=i: m.group(i))))
    out.append(attempt(lambda: m.group(ngroups + 1)))
    return tuple(out)


def attempt(fn):
    """Run fn, returning its serialised outcome (value or exception) and the
    warnings it emitted."""
    with warnings.catch_warnings(record=True) as caught:
        warnings.simplefilter("always")
        try:
            res = ("ok", ser_val(fn()))
        except RecursionError:
            raise
        except Exception as e:  # noqa
            res = (
                "exc",
                type(e).__name__,
                _ADDR.sub("0x?", str(e)),
                [c.__name__ for c in type(e).__mro__],
                type(e.__cause__).__name__,
                type(e.__context__).__name__,
                e.__suppress_context__,
                ser_val(getattr(e, "details", "<none>")),
            )
    warns = [
        (w.category.__name__, _ADDR.sub("0x?", str(w.message)))
        for w in caught
        if not issubclass(w.category, (DeprecationWarning, PendingDeprecationWarning))
    ]
    return res + (warns,)


# --- generators --------------------------------------------------------------


def rand_dna(rng, n, alphabet="ACGT", lower=0.0):
    s = "".join(rng.choice(alphabet) for _ in range(n))
    if lower:
        s = "".join(c.lower() if rng.random() < lower else c for c in s)
    return s


def rand_location(rng, n):
    kind = rng.randrange(8)
    strand = rng.choice([1, -1, None, 0])
    if kind == 0:  # simple
        a = rng.randrange(0, n)
        b = rng.randrange(a, n + 1)
        return FeatureLocation(a, b, strand)
    if kind == 1:  # whole span
        return FeatureLocation(0, n, strand)
    if kind == 2 and n >= 4:  # wrapping the origin as a compound location
        a = rng.randrange(n // 2, n)
        b = rng.randrange(1, n // 2 + 1)
        parts = [FeatureLocation(a, n, strand), FeatureLocation(0, b, strand)]
        if strand == -1:
            parts.reverse()
        return CompoundLocation(parts)
    if kind == 3 and n >= 6:  # join of inner parts
        cuts = sorted(rng.sample(range(n + 1), 4))
        return CompoundLocation(
            [
                FeatureLocation(cuts[0], cuts[1], strand),
                FeatureLocation(cuts[2], cuts[3], strand),
            ],
            operator=rng.choice(["join", "order"]),
        )
    if kind == 4:  # empty location
        a = rng.randrange(0, n + 1)
        return FeatureLocation(a, a, strand)
    if kind == 5:  # ending exactly at the end
        a = rng.randrange(0, n)
        return FeatureLocation(a, n, strand, ref=rng.choice([None, "X1"]))
    if kind == 6:  # (partly) beyond the end of the sequence
        a = rng.randrange(n - 1, 3 * n + 2)
        return FeatureLocation(a, a + rng.randrange(0, n + 2), strand)
    a = rng.randrange(0, n)
    return FeatureLocation(a, min(n, a + rng.randrange(0, 4)), strand)


def rand_features(rng, n, refs=0, allow_none=True):
    feats = []
    for _ in range(rng.randrange(0, 5)):
        ftype = rng.choice(["source", "CDS", "misc_feature", "promoter", "source"])
        if allow_none and rng.random() < 0.08:
            loc = None
        elif ftype == "source" and rng.random() < 0.5:
            loc = FeatureLocation(0, n, rng.choice([1, None]))
        else:
            loc = rand_location(rng, n)
        quals = {"label": ["f{}".format(rng.randrange(100))]}
        if rng.random() < 0.3:
            quals["note"] = ["n"]
        if refs and rng.random() < 0.6:
            quals["citation"] = [
                "[{}]".format(rng.randrange(1, refs + 1))
                for _ in range(rng.randrange(1, 3))
            ]
        feats.append(
            SeqFeature(
                loc, type=ftype, id=rng.choice(["<unknown id>", "fid"]), qualifiers=quals
            )
        )
    return feats


def rand_references(rng, pool):
    refs = []
    for title in rng.sample(pool, rng.randrange(0, len(pool) + 1)):
        r = Reference()
        r.title = title
        r.authors = "A. Uthor"
        refs.append(r)
    return refs


REF_POOL = ["paper A", "paper B", "paper C", "Direct Submission"]


def rand_record(rng, seq=None, cls=CircularRecord, citations=False, allow_none=True):
    if seq is None:
        seq = rand_dna(rng, rng.randrange(1, 40), lower=rng.choice([0, 0, 0.3]))
    n = len(seq)
    ants = {}
    topo = rng.choice([None, "circular", "CIRCULAR", "Circular"])
    if topo is not None:
        ants["topology"] = topo
    if rng.random() < 0.5:
        ants["molecule_type"] = "DNA"
    refs = []
    if citations:
        refs = rand_references(rng, REF_POOL)
        if refs or rng.random() < 0.5:
            ants["references"] = refs
    letter = {}
    if rng.random() < 0.4:
        letter["phred_quality"] = [rng.randrange(40) for _ in range(n)]
    if rng.random() < 0.2:
        letter["tag"] = rand_dna(rng, n, "xyz")
    ident = "rec{}".format(rng.randrange(1000))
    return cls(
        Seq(seq),
        id=ident,
        name=ident + "_n",
        description="d " + ident,
        dbxrefs=rng.choice([[], ["db:1"]]),
        features=rand_features(rng, n, refs=len(refs), allow_none=allow_none)
        if n
        else [],
        annotations=ants,
        letter_annotations=letter,
    )


class MyRecord(CircularRecord):
    """A user-defined subclass."""

    extra = "x"


# --- section A: records ------------------------------------------------------


def section_records():
    rng = random.Random(1701)
    for case in range(260):
        cls = MyRecord if case % 5 == 0 else CircularRecord
        rec = rand_record(rng, cls=cls)
        n = len(rec)
        before = ser_rec(rec)
        emit("rec", before)
        amounts = [
            -2 * n - 1, -n - 1, -n, -3, -1, 0, 1, 2, n - 1, n, n + 1, 2 * n,
            2 * n + 3, 7 * n, rng.randrange(-100, 100), rng.randrange(0, n + 1),
        ]
        for k in amounts:
            for op, name in ((lambda r, k: r >> k, ">>"), (lambda r, k: r << k, "<<")):
                out = attempt(lambda: op(rec, k))
                emit(("rot", case, name, k), out)
                try:
                    res = op(rec, k)
                except Exception:
                    continue
                emit(
                    ("rot-id", case, name, k),
                    (
                        res is rec,
                        type(res) is type(rec),
                        [
                            f2.qualifiers is f1.qualifiers
                            for f1, f2 in zip(rec.features, res.features)
                        ],
                        [
                            f2.location is f1.location
                            for f1, f2 in zip(rec.features, res.features)
                        ],
                        res.annotations is rec.annotations,
                        res.dbxrefs is rec.dbxrefs,
                    ),
                )
        # chained rotations
        a, b = rng.randrange(-50, 50), rng.randrange(-50, 50)
        emit(("rot2", case), attempt(lambda: (rec >> a) >> b))
        emit(("rot3", case), attempt(lambda: ((rec << a) >> b) << (a - b)))
        # odd rotation amounts
        for k in (2.5, "a", None, True, [1]):
            emit(("rot-odd", case, repr(k)), attempt(lambda: rec >> k))
            emit(("lrot-odd", case, repr(k)), attempt(lambda: rec << k))
        # indexing
        for _ in range(8):
            i, j = rng.randrange(-n - 2, n + 3), rng.randrange(-n - 2, n + 3)
            step = rng.choice([None, None, 1, 2, -1])
            if step is None or step == 1:
                sl = slice(i, j, step)
            else:
                sl = slice(None, None, step)  # stepped slices drop features
            emit(("slice", case, repr(sl)), attempt(lambda: rec[sl]))
            emit(("item", case, i), attempt(lambda: rec[i]))
        emit(("slice-all", case), attempt(lambda: rec[:]))
        emit(("item-bad", case), attempt(lambda: rec["a"]))
        emit(
            ("slice-indep", case),
            attempt(
                lambda: (
                    type(rec[:]).__name__,
                    rec[:].annotations is rec.annotations,
                    rec[:].dbxrefs is rec.dbxrefs,
                    rec[:].annotations.get("topology"),
                )
            ),
        )
        # containment
        s2 = str(rec.seq) * 3
        for _ in range(8):
            i = rng.randrange(0, 2 * n)
            ln = rng.randrange(0, n + 3)
            probe = s2[i : i + ln]
            emit(("in", case, probe), attempt(lambda: probe in rec))
            emit(("in-seq", case, probe), attempt(lambda: Seq(probe) in rec))
        emit(("in-x", case), attempt(lambda: "ACGTTGCA" in rec))
        emit(("in-int", case), attempt(lambda: 3 in rec))
        # reverse complement
        for _ in range(4):
            kw = {
                k: rng.choice([True, False, "zz"]) if k in ("id", "name", "description")
                else rng.choice([True, False])
                for k in rng.sample(
                    ["id", "name", "description", "features", "annotations",
                     "letter_annotations", "dbxrefs"],
                    rng.randrange(0, 5),
                )
            }
            emit(
                ("rc", case, sorted(kw.items(), key=repr)),
                attempt(lambda: rec.reverse_complement(**kw)),
            )
        emit(("rc-type", case), attempt(lambda: type(rec.reverse_complement()).__name__))
        # ambiguous operations
        emit(("add", case), attempt(lambda: rec + rec))
        emit(("add-str", case), attempt(lambda: rec + "A"))
        emit(("radd", case), attempt(lambda: "A" + rec))
        emit(("radd-seq", case), attempt(lambda: Seq("A") + rec))
        emit(("radd-rec", case), attempt(lambda: SeqRecord(Seq("A")) + rec))
        emit(("sum", case), attempt(lambda: sum([rec])))
        emit(("names", case), (type(rec).__add__.__name__, type(rec).__radd__.__name__,
                               bool(type(rec).__add__.__doc__)))
        # non mutation
        emit(("rec-after", case), ser_rec(rec) == before)
        # construction from records
        emit(("ctor", case), attempt(lambda: cls(rec)))
        emit(("ctor-indep", case), attempt(lambda: cls(rec).features is not rec.features))
        lin = SeqRecord(
            rec.seq,
            id=rec.id,
            features=copy.deepcopy(rec.features),
            annotations={"topology": rng.choice(["linear", "LINEAR", "circular", "x"])},
        )
        emit(("ctor-lin", case), attempt(lambda: cls(lin)))
        emit(("ctor-lin2", case), attempt(lambda: cls(lin.seq, annotations=lin.annotations)))
        emit(("ctor-kw", case), attempt(lambda: cls(seq=rec.seq, id="k", annotations=None)))
        emit(("ctor-badtopo", case), attempt(lambda: cls(rec.seq, annotations={"topology": 3})))
        emit(("ctor-pos", case), attempt(
            lambda: cls(rec.seq, "i", "n", "d", ["x"], [], {"topology": "circular"}, {})))
    # empty records
    empty = CircularRecord(Seq(""), id="empty")
    for k in (0, 1, -1):
        emit(("empty>>", k), attempt(lambda: empty >> k))
        emit(("empty<<", k), attempt(lambda: empty << k))
    emit("empty-in", attempt(lambda: "" in empty))
    emit("ctor-none", attempt(lambda: CircularRecord(None)))
    emit("ctor-str", attempt(lambda: CircularRecord("ACGT")))


# --- section B: regexes ------------------------------------------------------

PATTERNS = [
    "ATG",
    "atgN",
    "GGTCTCN(NNNN)(NN*N)(NNNN)NGAGACC",
    "(A)(N*)(T)",
    "(A)(N*?)(T)",
    "RYN",
    "(?:AC)+",
    "A|C",
    "(G)|(T)",
    "WSKM(BDHV)?",
    "N*",
    "",
    "(CA)(N*)",
    "T(A)?(C)",
]


class FakeMatch(object):
    def __init__(self, *spans):
        self.spans = spans

    def span(self, index=0):
        return self.spans[index]

    def start(self):
        return self.spans[0][0]

    def end(self):
        return self.spans[0][1]


def section_regex():
    rng = random.Random(2202)
    emit("lettermap", sorted(DNARegex._lettermap.items()))
    for p in PATTERNS + ["[", "(", "N{2,3}", "Ñ", "B*D+"]:
        emit(("transcribe", p), attempt(lambda: DNARegex._transcribe(p)))
        emit(("compile", p), attempt(lambda: (DNARegex(p).pattern, DNARegex(p).regex.pattern,
                                              DNARegex(p).regex.flags)))
    emit("transcribe-list", attempt(lambda: DNARegex._transcribe(["A", "N", "x"])))
    emit("transcribe-int", attempt(lambda: DNARegex._transcribe([1, 2])))
    emit("transcribe-none", attempt(lambda: DNARegex._transcribe(None)))

    class MyRegex(DNARegex):
        _lettermap = dict(DNARegex._lettermap, X="[AX]")

    emit("transcribe-sub", MyRegex._transcribe("AXN"))
    regexes = [DNARegex(p) for p in PATTERNS] + [MyRegex("XN(X)")]
    for case in range(220):
        n = rng.randrange(0, 36)
        seq = rand_dna(rng, n, rng.choice(["ACGT", "ACGT", "AT", "ACGTN"]),
                       lower=rng.choice([0, 0.4]))
        if rng.random() < 0.3 and n > 12:
            # plant a full structure, possibly wrapping the origin
            core = "GGTCTCA" + rand_dna(rng, 4) + rand_dna(rng, rng.randrange(2, 6)) \
                + rand_dna(rng, 4) + "TGAGACC"
            seq = core + rand_dna(rng, rng.randrange(0, 6))
            k = rng.randrange(0, len(seq))
            seq = seq[k:] + seq[:k]
            n = len(seq)
        subjects = [
            Seq(seq),
            SeqRecord(Seq(seq), id="lin"),
            CircularRecord(Seq(seq), id="circ"),
            MyRecord(Seq(seq), id="mine"),
        ]
        for rx in regexes:
            for subj in subjects:
                for kw in (
                    {},
                    {"linear": False},
                    {"pos": rng.randrange(0, n + 2)},
                    {"pos": rng.randrange(0, n + 2), "endpos": rng.randrange(0, n + 2),
                     "linear": rng.choice([True, False])},
                    {"pos": -rng.randrange(1, 4)},
                ):
                    out = attempt(lambda: rx.search(subj, **kw))
                    emit(("search", case, rx.pattern, type(subj).__name__,
                          sorted(kw.items())), out)
                    m = rx.search(subj, **kw) if out[0] == "ok" else None
                    if m is not None:
                        emit(("search-id", case), (m.rec is subj, type(m).__name__,
                                                   attempt(lambda: type(m.group()).__name__)))
        rx = regexes[case % len(regexes)]
        for bad in (seq, seq.encode(), None, 3, [seq], bytearray(b"AC")):
            emit(("search-bad", case, type(bad).__name__), attempt(lambda: rx.search(bad)))
        emit(("search-posargs", case), attempt(lambda: rx.search(subjects[2], 1, n, False)))
        # direct SeqMatch objects, every branch of group()
        for subj in subjects[:3]:
            for _ in range(6):
                a = rng.randrange(0, 3 * n + 2)
                b = a + rng.randrange(0, n + 2)
                m = SeqMatch(FakeMatch((a, b), (-1, -1), (b, a)), subj, shift=rng.randrange(3))
                emit(("fake", case, a, b, type(subj).__name__),
                     (attempt(lambda: m.group()), attempt(lambda: m.group(0)),
                      attempt(lambda: m.group(1)), attempt(lambda: m.group(2)),
                      attempt(lambda: m.group(3)), m.start(), m.end(), m.span(), m.span(1),
                      m.shift))
    emit("seqmatch-sig", str(inspect.signature(SeqMatch.__init__)))
    emit("search-sig", str(inspect.signature(DNARegex.search)))


# --- section C: structured records and assemblies ----------------------------


class MockVector(AbstractVector):
    cutter = BpiI


class MockModule(AbstractModule):
    cutter = BpiI


class BsaVector(EntryVector):
    cutter = BsaI


class BsaModule(Product):
    cutter = BsaI


class BsmCassette(Cassette):
    cutter = BsmBI


class BsmCassetteVector(CassetteVector):
    cutter = BsmBI


class ThreeModule(Device):
    cutter = BseRI  # 3' overhang


class ThreeVector(DeviceVector):
    cutter = BtsI  # 3' overhang


class NoCutterModule(AbstractModule):
    pass


class BluntVector(AbstractVector):
    cutter = EcoRV


SITES = {
    BpiI: ("GAAGAC", "GTCTTC", 2),
    BsaI: ("GGTCTC", "GAGACC", 1),
    BsmBI: ("CGTCTC", "GAGACG", 1),
}


def no_site(rng, n, cutter, lower=0.0):
    fwd, rev, _ = SITES[cutter]
    while True:
        s = rand_dna(rng, n)
        if fwd not in s * 2 and rev not in s * 2:
            return "".join(c.lower() if rng.random() < lower else c for c in s)


def pad(rng, cutter):
    return rand_dna(rng, SITES[cutter][2])


def module_seq(rng, cutter, start, end, lower=0.0, illegal=False, payload=None):
    fwd, rev, _ = SITES[cutter]
    if payload is None:
        payload = no_site(rng, rng.randrange(2, 14), cutter, lower)
    if illegal:
        payload = payload + fwd + "A" + payload
    backbone = no_site(rng, rng.randrange(0, 12), cutter, lower)
    return fwd + pad(rng, cutter) + start + payload + end + pad(rng, cutter) + rev + backbone


def vector_seq(rng, cutter, start, end, lower=0.0, illegal=False):
    # N (end) (NN rev N* fwd NN) (start) N   -- group(1) is overhang_end
    fwd, rev, _ = SITES[cutter]
    placeholder = no_site(rng, rng.randrange(0, 10), cutter, lower)
    backbone = no_site(rng, rng.randrange(2, 14), cutter, lower)
    if illegal:
        backbone = backbone + rev + "AC"
    return (
        "C" + end + pad(rng, cutter) + rev + placeholder + fwd + pad(rng, cutter)
        + start + "G" + backbone
    )


def rc(s):
    return str(Seq(s).reverse_complement())


def make_entity(rng, cls, seq, ident, rotate=True, citations=True, linear=False):
    n = len(seq)
    ants = {}
    refs = []
    if citations and rng.random() < 0.7:
        refs = rand_references(rng, REF_POOL)
        ants["references"] = refs
    if linear:
        ants["topology"] = "linear"
        rec_cls = SeqRecord
    else:
        rec_cls = rng.choice([CircularRecord, CircularRecord, MyRecord])
        if rng.random() < 0.5:
            ants["topology"] = rng.choice(["circular", "Circular"])
    feats = rand_features(rng, n, refs=len(refs), allow_none=False)
    rec = rec_cls(Seq(seq), id=ident, name=ident, description=ident, features=feats,
                  annotations=ants)
    if rotate and not linear and rng.random() < 0.7:
        rec = rec >> rng.randrange(-n, 2 * n)
    return cls(rec)


def probe_entity(tag, ent):
    emit((tag, "valid"), attempt(ent.is_valid))
    emit((tag, "valid2"), attempt(ent.is_valid))
    emit((tag, "ovs"), attempt(ent.overhang_start))
    emit((tag, "ove"), attempt(ent.overhang_end))
    emit((tag, "target"), attempt(ent.target_sequence))
    emit((tag, "match"), attempt(lambda: ent._match))
    if isinstance(ent, AbstractVector):
        emit((tag, "placeholder"), attempt(ent.placeholder_sequence))
    emit((tag, "record"), ser_rec(ent.record))
    emit((tag, "attrs"), (ent.seq is ent.record.seq, ent._level, type(ent).__name__))


def overhang_pool(rng, k, alphabet="ACGT"):
    pool = []
    while len(pool) < k:
        o = rand_dna(rng, 4, alphabet)
        if o != rc(o) and o not in pool and rc(o) not in pool:
            pool.append(o)
    return pool


def section_assembly():
    rng = random.Random(3303)
    for cls in (MockVector, MockModule, BsaVector, BsaModule, BsmCassette, BsmCassetteVector,
                ThreeModule, ThreeVector, NoCutterModule, BluntVector, AbstractModule,
                AbstractVector, Product, Entry, Cassette, Device, EntryVector,
                CassetteVector, DeviceVector):
        emit(("structure", cls.__name__), attempt(cls.structure))
        emit(("regex", cls.__name__), attempt(lambda: cls._get_regex().regex.pattern))
        emit(("regex-cached", cls.__name__),
             attempt(lambda: cls._get_regex() is cls._get_regex()))
        emit(("new", cls.__name__),
             attempt(lambda: type(cls(CircularRecord(Seq("ACGT"), id="x"))).__name__))
        emit(("new-kw", cls.__name__),
             attempt(lambda: type(cls(record=CircularRecord(Seq("ACGT"), id="x"))).__name__))
        emit(("new-extra", cls.__name__),
             attempt(lambda: cls(CircularRecord(Seq("ACGT"), id="x"), 1)))
    emit("assemble-sig-call", attempt(lambda: MockVector.assemble()))

    kinds = [(MockVector, MockModule, BpiI), (BsaVector, BsaModule, BsaI),
             (BsmCassetteVector, BsmCassette, BsmBI)]
    for case in range(320):
        vcls, mcls, cutter = kinds[case % 3]
        lower = rng.choice([0, 0, 0.3])
        alphabet = rng.choice(["ACGT", "ACGT", "ACGT", "AC"])
        nmod = rng.randrange(1, 6)
        try:
            pool = overhang_pool(rng, nmod + 3, alphabet)
        except Exception:
            pool = overhang_pool(rng, nmod + 3)
        chain = pool[: nmod + 1]
        scenario = rng.choice(
            ["ok", "ok", "ok", "missing", "dup-obj", "dup-start", "unused", "revcomp",
             "same-vector", "illegal-mod", "illegal-vec", "invalid-mod", "badcite",
             "linear-mod", "case-mix", "cycle", "short"]
        )
        vstart, vend = chain[-1], chain[0]
        if scenario == "same-vector":
            vstart = vend
        if scenario == "case-mix":
            lower = 0.5
        vector = make_entity(
            rng, vcls,
            vector_seq(rng, cutter, vstart, vend, lower, illegal=scenario == "illegal-vec"),
            "vec{}".format(case),
        )
        mods = []
        for i in range(nmod):
            mods.append(
                make_entity(
                    rng, mcls,
                    module_seq(rng, cutter, chain[i], chain[i + 1], lower,
                               illegal=scenario == "illegal-mod" and i == 0),
                    "mod{}_{}".format(case, i),
                    linear=scenario == "linear-mod" and i == 0,
                )
            )
        if scenario == "missing" and mods:
            del mods[rng.randrange(len(mods))]
        elif scenario == "dup-obj":
            mods.append(rng.choice(mods))
        elif scenario == "dup-start":
            i = rng.randrange(nmod)
            mods.insert(
                rng.randrange(len(mods) + 1),
                make_entity(rng, mcls,
                            module_seq(rng, cutter, chain[i].lower() if rng.random() < .5
                                       else chain[i], pool[-1]),
                            "dup{}".format(case)),
            )
        elif scenario == "unused":
            for j in range(rng.randrange(1, 3)):
                mods.append(make_entity(rng, mcls,
                                        module_seq(rng, cutter, pool[-1 - j], pool[-2 - j]),
                                        "extra{}_{}".format(case, j)))
        elif scenario == "revcomp":
            i = rng.randrange(nmod)
            mods.append(make_entity(rng, mcls, module_seq(rng, cutter, rc(chain[i]), pool[-1]),
                                    "rev{}".format(case)))
        elif scenario == "invalid-mod":
            mods.append(make_entity(rng, mcls, rand_dna(rng, rng.randrange(1, 30)),
                                    "inv{}".format(case)))
        elif scenario == "badcite":
            victim = rng.choice(mods + [vector]).record
            victim.features.append(
                SeqFeature(FeatureLocation(0, 1), type="misc",
                           qualifiers={"citation": [rng.choice(
                               ["[x]", "[]", "[9]", "[0]", "1", "", "[1", "[-1]", "[1]x"])]}))
        elif scenario == "cycle":
            # a module that closes a loop without reaching the vector
            mods.append(make_entity(rng, mcls, module_seq(rng, cutter, pool[-1], pool[-1]),
                                    "loop{}".format(case)))
        elif scenario == "short":
            # a module going straight from the vector end to the vector start
            mods[0] = make_entity(rng, mcls, module_seq(rng, cutter, chain[0], chain[-1]),
                                  "short{}".format(case))
        rng.shuffle(mods)
        ents = [vector] + mods
        for i, e in enumerate(ents):
            if rng.random() < 0.35:
                probe_entity(("probe", case, i), e)
        kw = rng.choice([{}, {}, {"name": "N{}".format(case)}, {"id": "I{}".format(case)},
                         {"id": "i", "name": "n", "foo": 1}, {"name": None}, {"id": 12}])
        before = [ser_rec(e.record) for e in ents]
        emit(("asm-before", case, scenario), before)
        if mods:
            out = attempt(lambda: vector.assemble(*mods, **kw))
        else:
            out = attempt(lambda: vector.assemble(**kw))
        emit(("asm", case, scenario, sorted(kw.items())), out)
        emit(("asm-after", case), [ser_rec(e.record) for e in ents])
        # a second run sees the re-referenced citations
        if mods:
            emit(("asm-again", case), attempt(lambda: vector.assemble(*reversed(mods))))
            with warnings.catch_warnings():
                warnings.simplefilter("error")
                try:
                    vector.assemble(*mods)
                    r = "fine"
                except Exception as e:  # noqa
                    r = (type(e).__name__, _ADDR.sub("0x?", str(e)))
            emit(("asm-werror", case), r)
        emit(("asm-after2", case), [ser_rec(e.record) for e in ents])
        for i, e in enumerate(ents):
            if rng.random() < 0.2:
                probe_entity(("probe-after", case, i), e)
    # misuse
    v = MockVector(CircularRecord(Seq("CCATGCTTGTCTTCCACAGAAGACTTCGTAGG"), "vector"))
    emit("asm-nomod", attempt(lambda: v.assemble()))
    emit("asm-kwmod", attempt(lambda: v.assemble(
        module=MockModule(CircularRecord(Seq("GAAGACTTATGCCACACGTATTGTCTTC"), "m")))))
    emit("asm-badmod", attempt(lambda: v.assemble("nope")))
    emit("asm-sig", sorted(
        (p.name, str(p.kind)) for p in
        inspect.signature(MockVector.assemble).parameters.values()
        if p.kind in (p.VAR_POSITIONAL, p.POSITIONAL_OR_KEYWORD))[:3])


# --- section D: parts -------------------------------------------------------


class BsaPartBase(AbstractPart):
    cutter = BsaI
    signature = NotImplemented


class PartA(BsaPartBase, Entry):
    signature = ("ATGC", "GGCT")


class PartB(BsaPartBase, Entry):
    signature = ("GGCT", "TTAC")


class PartVec(BsaPartBase, EntryVector):
    signature = ("TTAC", "ATGC")


class LoosePart(AbstractPart, Product):
    cutter = BpiI
    signature = ("NNNN", "ACNN")


class ThreePart(AbstractPart, Device):
    cutter = BseRI
    signature = ("AC", "TG")


class ThreePartVec(AbstractPart, DeviceVector):
    cutter = AcuI
    signature = ("AC", "TG")


class ThreePart2(AbstractPart, Device):
    cutter = BseRI
    signature = ("TG", "AC")


def three_module_seq(rng, start, end):
    # filler restricted to A/T so that no extra restriction site can appear
    return (
        "GAGGAG" + rand_dna(rng, 8, "AT") + start + rand_dna(rng, rng.randrange(2, 9), "AT")
        + end + rand_dna(rng, 8, "AT") + "CTCCTC" + rand_dna(rng, rng.randrange(0, 9), "AT")
    )


def three_vector_seq(rng, start="AC", end="TG"):
    return (
        "A" + end + rand_dna(rng, 14, "AT") + "CTTCAG" + rand_dna(rng, rng.randrange(0, 7), "AT")
        + "CTGAAG" + rand_dna(rng, 14, "AT") + start + "T" + rand_dna(rng, rng.randrange(1, 9), "AT")
    )


class OrphanPart(AbstractPart):
    cutter = BsaI
    signature = ("AAAA", "CCCC")

    @classmethod
    def structure(cls):
        return super(OrphanPart, cls).structure()


class NoSigPart(AbstractPart, Entry):
    cutter = BsaI


class NoCutterPart(AbstractPart, Entry):
    signature = ("AAAA", "CCCC")


class BadSigPart(AbstractPart, Entry):
    cutter = BsaI
    signature = ("AAAA", "CCCC", "GGGG")


class BluntPart(AbstractPart, Entry):
    cutter = EcoRV
    signature = ("AAAA", "CCCC")


PART_CLASSES = [BsaPartBase, PartA, PartB, PartVec, LoosePart, ThreePart, ThreePartVec,
                OrphanPart, NoSigPart, NoCutterPart, BadSigPart, BluntPart, AbstractPart]


def section_parts():
    rng = random.Random(4404)
    for cls in PART_CLASSES:
        emit(("part-structure", cls.__name__), attempt(cls.structure))
        emit(("part-new", cls.__name__),
             attempt(lambda: type(cls(CircularRecord(Seq("ACGT"), id="x"))).__name__))
        emit(("part-char", cls.__name__),
             attempt(lambda: cls.characterize(CircularRecord(Seq("ACGTACGT"), id="x"))))
    import moclo.kits
    import pkgutil
    import importlib

    for info in sorted(pkgutil.iter_modules(moclo.kits.__path__), key=lambda m: m.name):
        mod = importlib.import_module("moclo.kits." + info.name)
        for name in sorted(dir(mod)):
            obj = getattr(mod, name)
            if inspect.isclass(obj) and issubclass(
                obj, (AbstractPart, AbstractModule, AbstractVector)
            ):
                emit(("kit-structure", info.name, name), attempt(obj.structure))
    for case in range(300):
        kind = rng.randrange(6)
        if kind == 0:
            seq = module_seq(rng, BsaI, "ATGC", "GGCT", lower=rng.choice([0, 0.3]))
        elif kind == 1:
            seq = module_seq(rng, BsaI, "GGCT", "TTAC")
        elif kind == 2:
            seq = vector_seq(rng, BsaI, "TTAC", "ATGC")
        elif kind == 3:
            seq = module_seq(rng, BpiI, rand_dna(rng, 4), "AC" + rand_dna(rng, 2))
        elif kind == 4:
            seq = module_seq(rng, BsaI, rand_dna(rng, 4), rand_dna(rng, 4),
                             illegal=rng.random() < 0.3)
        else:
            seq = rand_dna(rng, rng.randrange(1, 50))
        rec = CircularRecord(Seq(seq), id="p{}".format(case))
        if rng.random() < 0.6:
            rec = rec >> rng.randrange(-len(seq), 2 * len(seq))
        for cls in (BsaPartBase, PartA, PartVec, LoosePart, AbstractPart):
            emit(("characterize", case, cls.__name__), attempt(lambda: cls.characterize(rec)))
        for cls in (PartA, PartB, PartVec, LoosePart):
            if rng.random() < 0.5:
                probe_entity(("part-probe", case, cls.__name__), cls(rec))
    # parts cut by enzymes that leave a 3' overhang
    for case in range(60):
        lower = rng.random() < 0.3
        mseq = three_module_seq(rng, *rng.choice([("TG", "AC"), ("TG", "AC"), ("AC", "TG")]))
        vseq = three_vector_seq(rng, *rng.choice([("AC", "TG"), ("AC", "TG"), ("TG", "AC")]))
        if lower:
            mseq, vseq = mseq.lower(), vseq.swapcase()
        mrec = make_entity(rng, ThreePart2, mseq, "m3_{}".format(case)).record
        vrec = make_entity(rng, ThreePartVec, vseq, "v3_{}".format(case)).record
        for cls in (ThreePart, ThreePart2, ThreePartVec):
            probe_entity(("three-m", case, cls.__name__), cls(mrec))
            probe_entity(("three-v", case, cls.__name__), cls(vrec))
        emit(("three-asm", case), attempt(lambda: ThreePartVec(vrec).assemble(ThreePart2(mrec))))
        emit(("three-asm2", case), attempt(
            lambda: ThreePartVec(vrec).assemble(ThreePart2(mrec), ThreePart(mrec), name="t")))
        emit(("three-after", case), (ser_rec(mrec), ser_rec(vrec)))
    # assemble parts
    for case in range(40):
        a = PartA(CircularRecord(Seq(module_seq(rng, BsaI, "ATGC", "GGCT")), id="a"))
        b = PartB(CircularRecord(Seq(module_seq(rng, BsaI, "GGCT", "TTAC")), id="b"))
        v = PartVec(CircularRecord(Seq(vector_seq(rng, BsaI, "TTAC", "ATGC")), id="v"))
        args = rng.choice([(a, b), (b, a), (a,), (b,), (a, a), (a, b, a)])
        emit(("part-asm", case, len(args)), attempt(lambda: v.assemble(*args)))


# --- section E: registries (real records) -----------------------------------


def section_registry():
    rng = random.Random(5505)
    from moclo.kits import ytk
    from moclo.registry.ytk import YTKRegistry

    reg = YTKRegistry()
    items = [reg[k] for k in sorted(reg)]
    for it in items:
        rec = it.entity.record
        n = len(rec)
        k = rng.randrange(-n, 2 * n)
        emit(("reg-rot", it.id, k), attempt(lambda: rec >> k))
        emit(("reg-lrot", it.id), attempt(lambda: rec << (k // 3)))
        emit(("reg-probe", it.id), type(it.entity).__name__)
        probe_entity(("reg", it.id), it.entity)
        emit(("reg-char", it.id), attempt(lambda: ytk.YTKPart.characterize(rec)))
    good = [reg[i].entity for i in
            ("pYTK008", "pYTK047", "pYTK073", "pYTK074", "pYTK086", "pYTK092")]
    vectors = [it.entity for it in items if isinstance(it.entity, AbstractVector)]
    modules = [it.entity for it in items if isinstance(it.entity, AbstractModule)]
    for v in vectors:
        emit(("reg-asm", v.record.id), attempt(lambda: v.assemble(*good)))
        emit(("reg-asm-after", v.record.id), [ser_rec(e.record) for e in good + [v]])
    for case in range(25):
        v = rng.choice(vectors)
        mods = list(good)
        if rng.random() < 0.7:
            mods[rng.randrange(len(mods))] = rng.choice(modules)
        if rng.random() < 0.3:
            mods.append(rng.choice(modules))
        rng.shuffle(mods)
        emit(("reg-asm-rand", case), attempt(lambda: v.assemble(*mods, id="x", name="y")))


# --- section F: errors and utils --------------------------------------------


class Dummy(object):
    def __init__(self, ident):
        self.record = SeqRecord(Seq("A"), id=ident)

    def __repr__(self):
        return "Dummy({})".format(self.record.id)


class BadDummy(object):
    record = None


def section_errors():
    rng = random.Random(6606)
    details_pool = [None, "plain", "", "with {} braces", "with {0} index", "{", "}", "{{}}",
                    "{x}", 3, ["l"], b"bytes", Seq("ACGT"), "ünï", "{!r}", "{:>5}", 0, False]
    seq_pool = ["ACGT", Seq("ACGT"), 3, None, "{}", "ü", ("t",), Dummy("d")]
    for d in details_pool:
        for s in seq_pool:
            for cls in (errors.InvalidSequence, errors.IllegalSite):
                emit(("inv", cls.__name__, repr(d), repr(s)),
                     attempt(lambda: str(cls(s, details=d))))
                emit(("inv-pos", cls.__name__, repr(d), repr(s)),
                     attempt(lambda: str(cls(s, ValueError("e"), d))))
            emit(("missing", repr(d), repr(s)),
                 attempt(lambda: str(errors.MissingModule(s, details=d))))
            emit(("missing-opt", repr(d), repr(s)),
                 attempt(lambda: str(errors.MissingModule(s, details=d, other=1))))
        for k in range(0, 4):
            dummies = [Dummy("m{}".format(rng.randrange(50))) for _ in range(k)]
            for cls in (errors.DuplicateModules, errors.UnusedModules):
                e = cls(*dummies, details=d)
                emit(("multi", cls.__name__, repr(d), k),
                     (attempt(lambda: str(e)), repr(e.args), ser_val(e.details),
                      repr(getattr(e, "duplicates", None)), repr(getattr(e, "remaining", None))))
                emit(("multi-opt", cls.__name__, repr(d), k),
                     attempt(lambda: str(cls(*dummies, details=d, foo=1, bar=None))))
                emit(("multi-nodetails", cls.__name__, k),
                     (attempt(lambda: str(cls(*dummies))),
                      attempt(lambda: cls(*dummies, foo=2).details)))
                emit(("multi-bad", cls.__name__, repr(d)),
                     attempt(lambda: str(cls(BadDummy(), details=d))))
                emit(("multi-bad2", cls.__name__, repr(d)),
                     attempt(lambda: str(cls("str", details=d))))
    e = errors.InvalidSequence("s")
    emit("inv-attrs", (e.sequence, e.exc, e.details, repr(e.args)))
    e = errors.InvalidSequence("s", "x", "y")
    emit("inv-attrs2", (e.sequence, e.exc, e.details, repr(e.args)))
    emit("inv-noargs", attempt(lambda: errors.InvalidSequence()))
    emit("inv-kw", attempt(lambda: str(errors.InvalidSequence(sequence="q", details="d"))))
    emit("missing-noargs", attempt(lambda: errors.MissingModule()))
    emit("missing-2", attempt(lambda: errors.MissingModule("a", "b")))
    emit("missing-3", attempt(lambda: errors.MissingModule("a", "b", details="d")))
    emit("missing-kw", attempt(lambda: str(errors.MissingModule(start_overhang="q"))))
    e = errors.MissingModule("AAAA", details="x")
    emit("missing-attrs", (e.start_overhang, e.details, repr(e.args)))
    emit("dup-kwonly", attempt(lambda: errors.DuplicateModules(duplicates=3).duplicates))
    emit("unused-kwonly", attempt(lambda: errors.UnusedModules(remaining=3).remaining))
    for cls in (errors.MocloError, errors.InvalidSequence, errors.IllegalSite,
                errors.AssemblyError, errors.DuplicateModules, errors.MissingModule,
                errors.AssemblyWarning, errors.UnusedModules):
        emit(("mro", cls.__name__), [c.__name__ for c in cls.__mro__])

    class MyInvalid(errors.InvalidSequence):
        _msg = "my {} message {{x}}"

    for d in details_pool:
        emit(("myinv", repr(d)), attempt(lambda: str(MyInvalid("S", details=d))))

    class MyDup(errors.DuplicateModules):
        def __init__(self, *a, **kw):
            super(MyDup, self).__init__(*a, **kw)
            self.kw = kw

    e = MyDup(Dummy("a"), details="d", z=1)
    emit("mydup", (str(e), sorted(e.kw.items())))
    # warnings machinery
    with warnings.catch_warnings(record=True) as caught:
        warnings.simplefilter("always")
        warnings.warn(errors.UnusedModules(Dummy("a"), Dummy("b"), details=5))
    emit("warn", [(w.category.__name__, str(w.message)) for w in caught])
    # moclo._utils
    from moclo._utils import catch_warnings, classproperty, isabstract

    class K(object):
        @classproperty
        def name(cls):
            return cls.__name__.lower()

    emit("classproperty", (K.name, K().name))
    emit("isabstract", [(c.__name__, isabstract(c)) for c in PART_CLASSES +
                        [MockModule, MockVector, AbstractModule, AbstractVector]])
    for action in ("ignore", "error", "always", "bogus"):
        @catch_warnings(action, category=UserWarning)
        def f(x, y=2):
            """doc"""
            warnings.warn("w{}".format(x), UserWarning)
            warnings.warn("d", errors.AssemblyWarning)
            return x + y

        emit(("catch", action), (attempt(lambda: f(1)), attempt(lambda: f(1, y=3)),
                                 f.__name__, f.__doc__))
    from moclo.core._utils import add_as_source, cutter_check

    for cut in (BsaI, BpiI, EcoRV, NotImplemented, None, BseRI):
        emit(("cutter_check", repr(cut)), attempt(lambda: cutter_check(cut, "Name")))
        emit(("cutter_check-kw", repr(cut)),
             attempt(lambda: cutter_check(cutter=cut, name="Na{}me")))
    for _ in range(30):
        src = rand_record(rng)
        dst = rand_record(rng, allow_none=False)
        loc = rng.choice([None, None, FeatureLocation(0, 1), FeatureLocation(0, 0)])
        nfeat = len(dst.features)
        res = add_as_source(src, dst, loc) if rng.random() < .5 else \
            add_as_source(src_record=src, dst_record=dst, location=loc)
        emit("add_as_source", (res is dst, len(dst.features) - nfeat, ser_rec(dst),
                               dst.features[-1].location is loc))
    emit("version", isinstance(moclo.__version__, str))


SECTIONS = [
    ("records", section_records),
    ("regex", section_regex),
    ("assembly", section_assembly),
    ("parts", section_parts),
    ("registry", section_registry),
    ("errors", section_errors),
]

if __name__ == "__main__":
    for name, fn in SECTIONS:
        if ONLY and name not in ONLY:
            continue
        before = _count[0]
        fn()
        sys.stderr.write("section {}: {} observations\n".format(name, _count[0] - before))
    print("observations:", _count[0])
    print("digest:", _digest.hexdigest())
