# coding: utf-8
"""C10 differential test: same digest before and after a behaviour-preserving refactoring.

Run as: cd /tmp/agents5/C10 && /venv/bin/python pairs_out/C10_p1/equiv.py
"""
import sys

sys.path.insert(0, "/tmp/agents5/C10")
import tests  # noqa: F401,E402  (splices the kit packages into the moclo namespace)

# --------------------------------------------------------------------------
# input construction helpers (shared verbatim by demo.py and equiv.py)
# --------------------------------------------------------------------------
import copy
import random
import warnings

from Bio.Seq import Seq
from Bio.SeqFeature import SeqFeature, FeatureLocation, CompoundLocation, Reference
from Bio.SeqRecord import SeqRecord
from Bio.Restriction import BpiI, BsaI, BsmBI

from moclo.record import CircularRecord
from moclo.core.vectors import AbstractVector
from moclo.core.modules import AbstractModule


def _kit(enzyme):
    vector = type(str("Vector" + enzyme.__name__), (AbstractVector,), {"cutter": enzyme})
    module = type(str("Module" + enzyme.__name__), (AbstractModule,), {"cutter": enzyme})
    return vector, module


# enzyme -> (vector class, module class, site, spacer length)
KITS = {
    "BpiI": _kit(BpiI) + ("GAAGAC", 2),
    "BsaI": _kit(BsaI) + ("GGTCTC", 1),
    "BsmBI": _kit(BsmBI) + ("CGTCTC", 1),
}


def revcomp(text):
    return str(Seq(text).reverse_complement())


def clean_dna(rng, length, forbidden):
    """Random DNA free of the given sites (and their reverse complements)."""
    while True:
        text = "".join(rng.choice("ACGT") for _ in range(length))
        if not any(site in text or revcomp(site) in text for site in forbidden):
            return text


def sites_ok(text, site):
    """True if the circular sequence has exactly one site on each strand."""
    circ = (text + text[: len(site) - 1]).upper()
    return circ.count(site) == 1 and circ.count(revcomp(site)) == 1


def make_reference(title, authors="Doe J.", journal="J. Synth. Biol. 1:1-2", pubmed=""):
    ref = Reference()
    ref.title = title
    ref.authors = authors
    ref.journal = journal
    ref.pubmed_id = pubmed
    return ref


def located(start, end, length, shift, strand=1):
    """Location of [start, end) of the unrotated sequence once the origin of
    the circular sequence has been moved `shift` letters to the right."""
    start, end = start + shift, end + shift
    if start >= length:
        start, end = start - length, end - length
    if end <= length:
        return FeatureLocation(start, end, strand)
    return CompoundLocation(
        [FeatureLocation(start, length, strand), FeatureLocation(0, end - length, strand)]
    )


def rotate_text(text, shift):
    shift %= len(text)
    return text if shift == 0 else text[-shift:] + text[:-shift]


class Plan(object):
    """The unrotated layout of one plasmid: its letters, the bounds of the
    fragment that an assembly retains, and the feature plans."""

    def __init__(self, text, kept, name):
        self.text = text
        self.kept = kept  # (start, end) in unrotated coordinates
        self.name = name
        self.features = []  # (label, start, end, strand, [reference numbers])
        self.references = []

    def feature(self, label, start, end, cites=(), strand=1, type_="misc_feature"):
        self.features.append((label, start, end, strand, list(cites), type_))
        return self

    def inside(self, start, end):
        return self.kept[0] <= start and end <= self.kept[1]

    def build(self, shift=0, circular=True, case=None, rng=None, citation_text=None):
        length = len(self.text)
        shift %= length
        text = rotate_text(self.text, shift)
        if case == "lower":
            text = text.lower()
        elif case == "mixed":
            text = "".join(c.lower() if rng.random() < 0.5 else c for c in text)
        features = []
        for label, start, end, strand, cites, type_ in self.features:
            quals = {"label": [label]}
            if cites:
                quals["citation"] = [
                    (citation_text or "[{}]").format(n) if isinstance(n, int) else n
                    for n in cites
                ]
            features.append(
                SeqFeature(located(start, end, length, shift, strand), type=type_, qualifiers=quals)
            )
        annotations = {"molecule_type": "DNA", "topology": "circular"}
        if self.references is not None:
            annotations["references"] = list(self.references)
        record = SeqRecord(
            Seq(text),
            id=self.name,
            name=self.name,
            description="plasmid " + self.name,
            features=features,
            annotations=annotations,
        )
        if circular:
            record = CircularRecord(record)
        return record


def module_plan(rng, kit, oh_start, oh_end, name, target_len=None, backbone_len=None):
    _, _, site, spacer = KITS[kit]
    forbidden = [site]
    while True:
        target = clean_dna(rng, target_len or rng.randint(6, 40), forbidden)
        backbone = clean_dna(rng, backbone_len or rng.randint(8, 50), forbidden)
        sp1 = clean_dna(rng, spacer, [])
        sp2 = clean_dna(rng, spacer, [])
        text = site + sp1 + oh_start + target + oh_end + sp2 + revcomp(site) + backbone
        if sites_ok(text, site):
            break
    kept_start = len(site) + spacer
    kept_end = kept_start + 4 + len(target)
    return Plan(text, (kept_start, kept_end), name)


def vector_plan(rng, kit, oh_start, oh_end, name, placeholder_len=None, backbone_len=None):
    """oh_end is where the insert begins, oh_start where the backbone begins."""
    _, _, site, spacer = KITS[kit]
    forbidden = [site]
    while True:
        placeholder = clean_dna(rng, placeholder_len or rng.randint(0, 20), forbidden)
        backbone = clean_dna(rng, backbone_len or rng.randint(10, 60), forbidden)
        sp1 = clean_dna(rng, spacer, [])
        sp2 = clean_dna(rng, spacer, [])
        text = (
            oh_end + sp1 + revcomp(site) + placeholder + site + sp2 + oh_start + backbone
        )
        if sites_ok(text, site):
            break
    kept_start = 4 + spacer + len(site) + len(placeholder) + len(site) + spacer
    # the flanking N of the structure must not be the overhang of the other end
    return Plan(text, (kept_start, len(text)), name)


OVERHANGS = ["AACG", "CTGA", "GGAT", "TCCA", "ACTC", "GTAA", "CAGG", "TGTC", "AGGC", "CCTT"]
# none is palindromic, and none is the reverse complement of another one
assert all(revcomp(o) not in OVERHANGS for o in OVERHANGS)


def describe_reference(ref):
    if isinstance(ref, Reference):
        return ("Reference", ref.title, ref.authors, ref.journal, ref.pubmed_id,
                ref.medline_id, ref.consrtm, ref.comment, [repr(l) for l in ref.location])
    return (type(ref).__name__, repr(ref))


def describe_value(value):
    if isinstance(value, (list, tuple)):
        return [describe_value(v) for v in value]
    if isinstance(value, Reference):
        return describe_reference(value)
    return repr(value)


def describe_record(record):
    if record is None:
        return None
    return {
        "class": type(record).__name__,
        "seq": str(record.seq),
        "id": record.id,
        "name": record.name,
        "description": record.description,
        "dbxrefs": list(record.dbxrefs),
        "annotations": [(k, describe_value(v)) for k, v in record.annotations.items()],
        "letter_annotations": sorted(record.letter_annotations),
        "features": [
            (f.type, repr(f.location), f.id,
             [(k, describe_value(v)) for k, v in f.qualifiers.items()])
            for f in record.features
        ],
    }

# --------------------------------------------------------------------------
# differential driver
# --------------------------------------------------------------------------
import collections
import hashlib
import json
import re

from Bio.SeqFeature import BeforePosition, AfterPosition, ExactPosition

from moclo import errors
from moclo.core import _utils as core_utils

TALLY = collections.Counter()
ADDRESS = re.compile(r"0x[0-9a-fA-F]+")


def describe_error(err):
    text = ADDRESS.sub("0x?", str(err))  # default object reprs hold addresses
    info = [type(err).__name__, text, type(err.__cause__).__name__, err.__suppress_context__]
    if isinstance(err, errors.DuplicateModules):
        info.append([d.record.id for d in err.duplicates])
    if isinstance(err, errors.MissingModule):
        info.append(repr(err.start_overhang))
    return info


def observe(func, filter_="always"):
    """Call func, return what it did: value or exception, and the warnings."""
    with warnings.catch_warnings(record=True) as caught:
        warnings.simplefilter(filter_)
        warnings.filterwarnings("ignore", message="pkg_resources")
        try:
            value = func()
        except Exception as err:  # noqa
            outcome = {"raised": describe_error(err)}
            TALLY[type(err).__name__] += 1
        else:
            if isinstance(value, SeqRecord):
                outcome = {"record": describe_record(value)}
                TALLY["record"] += 1
            else:
                outcome = {"value": repr(value)}
        outcome["warnings"] = [(w.category.__name__, str(w.message)) for w in caught]
        TALLY["warnings"] += len(caught)
    return outcome


def random_references(rng, name, pool):
    count = rng.choice([0, 1, 1, 2, 2, 3, 4, 6, 10, 11, 13])
    refs = []
    for i in range(count):
        if pool and rng.random() < 0.35:
            title, authors = rng.choice(pool)
            refs.append(make_reference(title, authors))  # equal to one of another input
        else:
            refs.append(make_reference("{} ref {}".format(name, i + 1), "Author {}".format(i)))
            pool.append((refs[-1].title, refs[-1].authors))
    if refs and rng.random() < 0.15:
        refs.append(make_reference(refs[0].title, refs[0].authors))  # duplicate entry
    return refs


ODD_CITATIONS = ["[x]", "1", "[]", "[0]", "[99]", "[-1]", "[2] and more", "", "[1", " [1]", "[01]"]


def random_features(rng, plan, odd=False):
    length = len(plan.text)
    nrefs = len(plan.references or [])
    for i in range(rng.randint(0, 7)):
        zone = rng.choice(["kept", "kept", "any", "out"])
        if zone == "kept":
            lo, hi = plan.kept
        elif zone == "out" and plan.kept[1] < length - 2:
            lo, hi = plan.kept[1], length
        else:
            lo, hi = 0, length + rng.randint(0, 8)  # may run over the plan's end
        if hi - lo < 1:
            continue
        start = rng.randint(lo, hi - 1)
        end = rng.randint(start + 1, hi) if rng.random() < 0.9 else start
        cites = []
        if rng.random() < 0.7:
            for _ in range(rng.choice([1, 1, 2, 3])):
                if odd and rng.random() < 0.3:
                    cites.append(rng.choice(ODD_CITATIONS))
                elif nrefs:
                    cites.append(rng.randint(1, nrefs))
                elif odd:
                    cites.append(1)
        plan.feature(
            "{}_f{}".format(plan.name, i), start, end, cites=cites,
            strand=rng.choice([1, -1, None]), type_=rng.choice(["misc_feature", "CDS", "source", "promoter"]),
        )


def input_state(records):
    return [describe_record(r) for r in records]


def assembly_case(rng, number):
    kind = rng.choice([
        "plain", "plain", "plain", "plain", "missing", "duplicate", "revcomp", "unused",
        "unused-error", "odd", "odd", "norefs", "seqrecord-module", "seqrecord-vector",
        "linear", "same-record", "same-module", "tuple", "string", "named", "vector-bad",
    ])
    TALLY["kind:" + kind] += 1
    kit = rng.choice(sorted(KITS))
    vcls, mcls = KITS[kit][:2]
    count = rng.randint(1, 3)
    ohs = rng.sample(OVERHANGS, count + 2)
    pool = []
    case = rng.choice([None, None, "lower", "mixed"])

    vplan = vector_plan(rng, kit, ohs[count], ohs[0], "v{}".format(number))
    mplans = [
        module_plan(rng, kit, ohs[i], ohs[i + 1], "m{}_{}".format(number, i)) for i in range(count)
    ]
    if kind == "vector-bad":
        vplan = vector_plan(rng, kit, ohs[0], ohs[0], "v{}".format(number))
    if kind == "duplicate":
        mplans.append(module_plan(rng, kit, ohs[0], ohs[count + 1], "m{}_dup".format(number)))
    if kind == "revcomp":
        mplans.append(module_plan(rng, kit, revcomp(ohs[0]), ohs[count + 1], "m{}_rc".format(number)))
    if kind in ("unused", "unused-error"):
        mplans.append(module_plan(rng, kit, ohs[count + 1], ohs[0], "m{}_extra".format(number)))
    if kind == "missing":
        del mplans[rng.randrange(len(mplans))]
        if not mplans:
            mplans = [module_plan(rng, kit, ohs[count + 1], ohs[count], "m{}_other".format(number))]
    plans = [vplan] + mplans
    for plan in plans:
        plan.references = random_references(rng, plan.name, pool)
        if kind == "norefs" and rng.random() < 0.6:
            plan.references = None
        random_features(rng, plan, odd=kind in ("odd", "norefs"))
    rng.shuffle(mplans)

    records = []
    for plan in plans:
        circular = True
        if kind == "seqrecord-module" and plan is mplans[0]:
            circular = False
        if kind in ("seqrecord-vector", "linear") and plan is vplan:
            circular = False
        record = plan.build(
            shift=rng.choice([0, 0, rng.randrange(len(plan.text))]), circular=circular, case=case, rng=rng
        )
        if kind == "linear" and plan is vplan:
            record.annotations["topology"] = "linear"
        if kind in ("tuple", "string"):
            for feature in record.features:
                if "citation" in feature.qualifiers and rng.random() < 0.5:
                    value = feature.qualifiers["citation"]
                    feature.qualifiers["citation"] = tuple(value) if kind == "tuple" else value[0]
        records.append(record)

    vector = vcls(records[0])
    modules = [mcls(r) for r in records[1:]]
    if kind == "same-record":
        modules.append(mcls(records[-1]))
    if kind == "same-module":
        modules.append(modules[0])
    kwargs = {}
    if kind == "named":
        kwargs = rng.choice([{"id": "X1"}, {"name": "construct"}, {"id": "X2", "name": "n2"}])

    out = {"kind": kind, "kit": kit, "before": input_state(records), "calls": []}
    filter_ = "error" if kind == "unused-error" else "always"
    for call in range(2):
        result = observe(lambda: vector.assemble(*modules, **kwargs), filter_)
        out["calls"].append({"result": result, "inputs": input_state(records)})
    # a third call through fresh wrappers of the very same records
    vector = vcls(records[0])
    modules = [mcls(r) for r in records[1:]]
    result = observe(lambda: vector.assemble(*modules, **kwargs))
    out["calls"].append({"result": result, "inputs": input_state(records)})
    # the pieces on their own
    out["pieces"] = [observe(vector.target_sequence), observe(vector.placeholder_sequence)]
    out["pieces"] += [observe(m.target_sequence) for m in modules]
    out["pieces"] += [observe(m.overhang_start) for m in modules] + [observe(m.overhang_end) for m in modules]
    out["after-pieces"] = input_state(records)
    return out


def odd_location(rng, length):
    if rng.random() < 0.04:
        return None
    choice = rng.randrange(1, 6)
    if choice == 1:
        return FeatureLocation(0, length, rng.choice([1, -1, None]))
    if choice == 2:
        a = rng.randint(0, length - 1)
        return FeatureLocation(BeforePosition(a), AfterPosition(rng.randint(a, length)), 1)
    if choice == 3:
        parts = []
        for _ in range(rng.randint(2, 4)):
            a = rng.randint(0, length - 1)
            parts.append(FeatureLocation(a, rng.randint(a, length), rng.choice([1, -1])))
        return CompoundLocation(parts, operator=rng.choice(["join", "order"]))
    if choice == 4:
        a = rng.randint(0, length - 1)
        return FeatureLocation(a, rng.randint(a, length), 1, ref="other", ref_db="db")
    a = rng.randint(0, length - 1)
    return FeatureLocation(a, rng.randint(a, length), rng.choice([1, -1, 0, None]))


def record_case(rng, number):
    length = rng.randint(1, 40)
    text = "".join(rng.choice("ACGTacgtN") for _ in range(length))
    features = []
    for i in range(rng.randint(0, 6)):
        features.append(
            SeqFeature(
                odd_location(rng, length),
                type=rng.choice(["source", "misc_feature", "CDS"]),
                id="f{}".format(i),
                qualifiers={"label": ["r{}_{}".format(number, i)], "citation": ["[1]"]},
            )
        )
    annotations = {"topology": "circular", "molecule_type": "DNA", "references": [make_reference("R")]}
    record = CircularRecord(
        Seq(text), id="rec{}".format(number), name="rec", description="d", features=features,
        annotations=rng.choice([annotations, {}, None]),
        letter_annotations=rng.choice([None, {"phred_quality": list(range(length))}]),
        dbxrefs=rng.choice([None, ["db:1"]]),
    )
    before = describe_record(record)
    out = {"before": before, "ops": []}
    for shift in [0, 1, length - 1, length, length + 3, -1, -length, 2 * length + 1, rng.randint(-100, 100), rng.randint(0, length)]:
        out["ops"].append(("rshift", shift, observe(lambda: record >> shift)))
        out["ops"].append(("lshift", shift, observe(lambda: record << shift)))
    for _ in range(4):
        a, b = rng.randint(-3, length + 3), rng.randint(-3, length + 3)
        out["ops"].append(("slice", a, b, observe(lambda: record[a:b])))
        out["ops"].append(("rot-slice", a, b, observe(lambda: (record << a)[: b])))
    out["ops"].append(("revcomp", observe(record.reverse_complement)))
    out["ops"].append(("contains", observe(lambda: text[-2:] + text[:2] in record)))
    out["ops"].append(("add", observe(lambda: record + record)))
    out["ops"].append(("copy", observe(lambda: CircularRecord(record))))
    # is the rotated record sharing its qualifiers / annotations with the original?
    rotated = record >> 1 if length > 1 else record
    out["sharing"] = [
        rotated.annotations is record.annotations,
        [a.qualifiers is b.qualifiers for a, b in zip(rotated.features, record.features)],
        rotated.dbxrefs is record.dbxrefs,
    ]
    out["after"] = describe_record(record)
    empty = CircularRecord(Seq(""), id="empty")
    out["empty"] = [observe(lambda: empty >> 1), observe(lambda: empty << 1)]
    return out


def source_case(rng, number):
    length = rng.randint(0, 30)
    src = SeqRecord(Seq("ACGT"), id=rng.choice(["pX", "", "<unknown id>", "p{}".format(number)]))
    dst = SeqRecord(Seq("A" * length), id="dst", features=[SeqFeature(FeatureLocation(0, length), type="gene")] if length else [])
    location = rng.choice([None, None, FeatureLocation(0, 0), FeatureLocation(1, 3, -1),
                           CompoundLocation([FeatureLocation(0, 1), FeatureLocation(2, 3)])])
    result = observe(lambda: core_utils.add_as_source(src, dst, location) is dst)
    odd = [observe(lambda: core_utils.add_as_source(None, dst)), observe(lambda: core_utils.add_as_source(src, None))]
    return {"result": result, "dst": describe_record(dst), "src": describe_record(src), "odd": odd}


def main():
    sections = [("assembly", assembly_case, 420), ("record", record_case, 200), ("source", source_case, 60)]
    total = hashlib.sha256()
    for name, make, count in sections:
        rng = random.Random(20240 + count)
        digest = hashlib.sha256()
        for number in range(count):
            payload = ADDRESS.sub("0x?", json.dumps(make(rng, number), sort_keys=True, default=repr))
            digest.update(payload.encode("utf-8"))
        total.update(digest.digest())
        print("{:<9} {:>4} cases  sha256 {}".format(name, count, digest.hexdigest()))
    print("outcomes:", ", ".join("{}={}".format(k, v) for k, v in sorted(TALLY.items())))
    print("DIGEST", total.hexdigest())


if __name__ == "__main__":
    main()
