# coding: utf-8
"""Differential test for the code touched by the C09_t1 pull request.

Exercises digestion (overhangs, target / placeholder sequences), assembly
(chains, failures, warnings, citations, ids / names, multi-level assemblies,
3'-overhang enzymes, plain SeqRecord inputs) and the private helpers that the
pull request moved around, through the names that exist in the pristine tree,
and prints a digest of everything observed.
"""
import sys

sys.path.insert(0, "/tmp/agents9/C09")
import tests  # noqa: F401,E402

import collections  # noqa: E402
import copy  # noqa: E402
import hashlib  # noqa: E402
import io  # noqa: E402
import json  # noqa: E402
import random  # noqa: E402
import re  # noqa: E402
import warnings  # noqa: E402

from Bio import SeqIO  # noqa: E402
from Bio.Restriction import BsaI, BsmBI, BpiI, BsrDI, BtsI  # noqa: E402
from Bio.Seq import Seq  # noqa: E402
from Bio.SeqFeature import (  # noqa: E402
    SeqFeature,
    FeatureLocation,
    CompoundLocation,
    Reference,
)
from Bio.SeqRecord import SeqRecord  # noqa: E402

from moclo import errors  # noqa: E402
from moclo.record import CircularRecord  # noqa: E402
from moclo.core import modules, vectors, parts  # noqa: E402
from moclo.core import _assembly, _utils  # noqa: E402
from moclo.core.modules import AbstractModule  # noqa: E402
from moclo.core.vectors import AbstractVector  # noqa: E402

RESULTS = []
COUNTS = collections.Counter()
KINDS = []


# --- digest helpers -----------------------------------------------------------


def val(v):
    if isinstance(v, Reference):
        return ["Reference", v.title, v.authors, v.journal, repr(v.location)]
    if isinstance(v, (list, tuple)):
        return [type(v).__name__] + [val(x) for x in v]
    if isinstance(v, dict):
        return ["dict"] + sorted([str(k), val(x)] for k, x in v.items())
    if isinstance(v, (Seq,)):
        return ["Seq", str(v)]
    if isinstance(v, SeqRecord):
        return rec(v)
    if isinstance(v, (AbstractModule, AbstractVector)):
        return [type(v).__name__, v.record.id]
    if isinstance(v, (str, int, float, bool)) or v is None:
        return [type(v).__name__, v if not isinstance(v, str) else str.__str__(v)]
    return [type(v).__name__, scrub(str(v))]


def feat(f):
    return {
        "type": f.type,
        "loc": repr(f.location),
        "id": val(f.id),
        "quals": sorted([str(k), val(x)] for k, x in f.qualifiers.items()),
    }


def rec(r):
    if r is None:
        return None
    return {
        "cls": type(r).__name__,
        "seq": str(r.seq),
        "id": val(r.id),
        "name": val(r.name),
        "description": val(r.description),
        "dbxrefs": val(r.dbxrefs),
        "annotations": val(dict(r.annotations)),
        "features": [feat(f) for f in r.features],
        "letter": sorted([k, str(v)] for k, v in r.letter_annotations.items()),
    }


def short(obj):
    data = json.dumps(obj, sort_keys=True, default=str)
    return hashlib.sha256(data.encode("utf-8")).hexdigest()[:16]


def scrub(text):
    """Remove object addresses from default reprs."""
    return re.sub(r"0x[0-9a-fA-F]+", "0x?", text)


def safe_str(e):
    try:
        return scrub(str(e))
    except Exception as err:  # noqa
        return ["str() failed", type(err).__name__, scrub(str(err))]


def exc(e):
    out = {
        "exc_type": type(e).__name__,
        "str": safe_str(e),
        "args": val(list(e.args)),
        "cause": type(e.__cause__).__name__,
        "context": type(e.__context__).__name__,
        "suppress": e.__suppress_context__,
    }
    for attr in ("details", "start_overhang", "exc"):
        if hasattr(e, attr):
            out[attr] = val(getattr(e, attr))
    for attr in ("duplicates", "remaining"):
        if hasattr(e, attr):
            out[attr] = val(list(getattr(e, attr)))
    if hasattr(e, "sequence"):
        out["sequence"] = val(e.sequence)
    return out


def observe(label, func, inputs=()):
    """Run func, record result / exception / warnings / state of the inputs."""
    with warnings.catch_warnings(record=True) as caught:
        warnings.simplefilter("always")
        try:
            res = func()
            out = {"ok": val(res)}
            COUNTS["ok"] += 1
        except Exception as e:  # noqa
            out = exc(e)
            res = None
            COUNTS[type(e).__name__] += 1
    out["warnings"] = [
        [w.category.__name__, safe_str(w.message), exc(w.message)] for w in caught
    ]
    COUNTS["warnings"] += len(caught)
    out["inputs"] = [short(rec(r)) for r in inputs]
    RESULTS.append([label, short(out)])
    KINDS.append(out.get("exc_type", "ok") + (" +%dw" % len(caught) if caught else ""))
    return res


def gb(record):
    handle = io.StringIO()
    SeqIO.write(record, handle, "genbank")
    return handle.getvalue()


# --- synthetic kits -----------------------------------------------------------


class L0Vector(AbstractVector):
    cutter = BsaI


class L0Module(AbstractModule):
    cutter = BsaI


class L1Vector(AbstractVector):
    cutter = BsmBI


class L1Module(AbstractModule):
    cutter = BsmBI


class BpiVector(AbstractVector):
    cutter = BpiI


class BpiModule(AbstractModule):
    cutter = BpiI


class ThreeVector(AbstractVector):
    cutter = BsrDI

    @classmethod
    def structure(cls):
        return "(NN)(CATTGCN*GCAATG)(NN)"


class ThreeModule(AbstractModule):
    cutter = BsrDI

    @classmethod
    def structure(cls):
        return "GCAATG(NN)(N*)(NN)CATTGC"


class BtsVector(AbstractVector):
    cutter = BtsI

    @classmethod
    def structure(cls):
        return "(NN)(CACTGCN*GCAGTG)(NN)"


class BtsModule(AbstractModule):
    cutter = BtsI

    @classmethod
    def structure(cls):
        return "GCAGTG(NN)(N*)(NN)CACTGC"


SITES = {
    "BsaI": ("GGTCTC", "GAGACC"),
    "BsmBI": ("CGTCTC", "GAGACG"),
    "BpiI": ("GAAGAC", "GTCTTC"),
    "BsrDI": ("GCAATG", "CATTGC"),
    "BtsI": ("GCAGTG", "CACTGC"),
}
ALL_SITES = [s for pair in SITES.values() for s in pair]


def rand_dna(rng, n):
    while True:
        s = "".join(rng.choice("ACGT") for _ in range(n))
        if not any(site in s for site in ALL_SITES):
            return s


def clean_join(rng, pieces):
    """Join pieces (str = literal, int = random filler of that length)."""
    literals = [p for p in pieces if isinstance(p, str)]
    expected = {site: sum(p.count(site) for p in literals) for site in ALL_SITES}
    for _ in range(200):
        s = "".join(p if isinstance(p, str) else rand_dna(rng, p) for p in pieces)
        if all((s + s[:8]).count(site) == n for site, n in expected.items()):
            return s
    raise RuntimeError("could not build a sequence")


def five_module(rng, enzyme, oh1, oh2, size=40):
    fwd, rev = SITES[enzyme]
    pad = "AA" if enzyme == "BpiI" else "A"
    return clean_join(
        rng, [rng.randint(5, 30), fwd + pad + oh1, size, oh2 + "T" * len(pad) + rev, rng.randint(5, 30)]
    )


def five_vector(rng, enzyme, oh_end, oh_start, size=30, pre="", post=""):
    fwd, rev = SITES[enzyme]
    pad = "AA" if enzyme == "BpiI" else "A"
    return clean_join(
        rng,
        [
            rng.randint(20, 60),
            pre + oh_end + pad + rev,
            size,
            fwd + "T" * len(pad) + oh_start + post,
            rng.randint(20, 60),
        ],
    )


def three_module(rng, enzyme, oh1, oh2, size=40):
    fwd, rev = SITES[enzyme]
    return clean_join(rng, [rng.randint(5, 30), fwd + oh1, size, oh2 + rev, rng.randint(5, 30)])


def three_vector(rng, enzyme, oh_end, oh_start, size=30):
    fwd, rev = SITES[enzyme]
    return clean_join(
        rng, [rng.randint(20, 60), oh_end + rev, size, fwd + oh_start, rng.randint(20, 60)]
    )


def mixed_case(rng, s, mode):
    if mode == 0:
        return s
    if mode == 1:
        return s.lower()
    return "".join(c.lower() if rng.random() < 0.5 else c for c in s)


def make_refs(rng, tag, n):
    refs = []
    for i in range(n):
        r = Reference()
        r.title = "{} title {}".format(tag, i)
        r.authors = "{} et al. {}".format(tag, rng.randint(0, 3))
        r.journal = "J. {} {}".format(tag, i)
        refs.append(r)
    return refs


def decorate(rng, record, tag, citations=True):
    """Add features (plain, compound, wrapping, whole-length source) and references."""
    n = len(record)
    nrefs = rng.randint(0, 3) if citations else 0
    if nrefs:
        record.annotations["references"] = make_refs(rng, tag, nrefs)
    record.annotations["topology"] = "circular"
    record.annotations["molecule_type"] = "DNA"
    feats = []
    if rng.random() < 0.7:
        feats.append(
            SeqFeature(
                FeatureLocation(0, n),
                type="source",
                qualifiers={"organism": ["x"], "mol_type": ["other DNA"]},
            )
        )
    for i in range(rng.randint(1, 6)):
        a = rng.randint(0, n - 2)
        b = rng.randint(a + 1, min(n, a + 40))
        quals = {"label": ["{}-f{}".format(tag, i)]}
        if nrefs and rng.random() < 0.6:
            quals["citation"] = [
                "[{}]".format(rng.randint(1, nrefs)) for _ in range(rng.randint(1, 2))
            ]
        strand = rng.choice([1, -1, None])
        if rng.random() < 0.25 and b < n - 4:
            c = rng.randint(b + 1, n - 2)
            d = rng.randint(c + 1, n)
            loc = CompoundLocation(
                [FeatureLocation(a, b, strand), FeatureLocation(c, d, strand)]
            )
        else:
            loc = FeatureLocation(a, b, strand)
        feats.append(
            SeqFeature(loc, type=rng.choice(["CDS", "misc_feature", "promoter"]), qualifiers=quals)
        )
    if rng.random() < 0.3:
        a = rng.randint(n // 2, n - 1)
        b = rng.randint(1, n // 3)
        feats.append(
            SeqFeature(
                CompoundLocation([FeatureLocation(a, n, 1), FeatureLocation(0, b, 1)]),
                type="misc_feature",
                qualifiers={"label": ["{}-wrap".format(tag)]},
            )
        )
    record.features.extend(feats)
    return record


def plasmid(rng, seq, rid, case=0, rotate=None, citations=True, plain=False):
    seq = mixed_case(rng, seq, case)
    r = CircularRecord(Seq(seq), id=rid, name=rid, description="synthetic " + rid)
    decorate(rng, r, rid, citations)
    if rotate is None:
        rotate = rng.randint(0, len(seq) - 1)
    r = r >> rotate
    if plain:
        r = SeqRecord(
            r.seq, id=r.id, name=r.name, description=r.description,
            features=r.features, annotations=r.annotations,
        )
    return r


def rand_overhangs(rng, n, size=4):
    """n distinct overhangs, none reverse complementing another one or itself."""
    out = []
    while len(out) < n:
        oh = "".join(rng.choice("ACGT") for _ in range(size))
        rc = str(Seq(oh).reverse_complement())
        if oh == rc or oh in out or rc in out:
            continue
        out.append(oh)
    return out


# --- sections -----------------------------------------------------------------


def entity_probe(label, entity, with_placeholder):
    rec_in = entity.record
    observe(label + ":valid", entity.is_valid, [rec_in])
    observe(label + ":ohs", entity.overhang_start, [rec_in])
    observe(label + ":ohe", entity.overhang_end, [rec_in])
    observe(label + ":target", entity.target_sequence, [rec_in])
    observe(label + ":target2", entity.target_sequence, [rec_in])
    if with_placeholder:
        observe(label + ":placeholder", entity.placeholder_sequence, [rec_in])


def section_registries():
    from moclo.registry.ytk import YTKRegistry, PTKRegistry
    from moclo.registry.cidar import CIDARRegistry
    from moclo.registry.ecoflex import EcoFlexRegistry
    from moclo.registry.plant import PlantRegistry

    regs = {}
    for cls in (YTKRegistry, PTKRegistry, CIDARRegistry, EcoFlexRegistry, PlantRegistry):
        reg = regs[cls.__name__] = cls()
        for key in sorted(reg):
            item = reg[key]
            ent = item.entity
            label = "{}:{}:{}".format(cls.__name__, key, type(ent).__name__)
            entity_probe(label, ent, isinstance(ent, AbstractVector))
    return regs


def section_kit_classes():
    import moclo.kits.ytk, moclo.kits.cidar, moclo.kits.ecoflex  # noqa
    import moclo.kits.moclo, moclo.kits.plant  # noqa

    rng = random.Random(909)
    probes = [CircularRecord(Seq(rand_dna(rng, 120)), id="probe{}".format(i)) for i in range(2)]
    seen = []

    def walk(cls):
        for sub in cls.__subclasses__():
            if sub not in seen:
                seen.append(sub)
                walk(sub)

    walk(AbstractModule)
    walk(AbstractVector)
    walk(parts.AbstractPart)
    for cls in sorted(seen, key=lambda c: (c.__module__, c.__name__)):
        if not cls.__module__.startswith("moclo."):
            continue
        label = "class:{}.{}".format(cls.__module__, cls.__name__)
        observe(label + ":structure", cls.structure)
        observe(label + ":mro", lambda: [c.__name__ for c in cls.__mro__])
        for p in probes:
            def probe():
                ent = cls(p)
                return [ent.is_valid(), ent.target_sequence()]
            observe(label + ":" + p.id, probe, [p])


def section_real_assemblies(regs):
    ytk = regs["YTKRegistry"]
    cidar = regs["CIDARRegistry"]
    cases = [
        ("ytk-cassette", ytk, "pYTK095", ["pYTK002", "pYTK009", "pYTK033", "pYTK051", "pYTK067", "pYTK074", "pYTK081", "pYTK084"]),
        ("ytk-missing", ytk, "pYTK095", ["pYTK002", "pYTK009", "pYTK051", "pYTK067"]),
        ("cidar-AE", cidar, "DVK_AE", ["J23102_AB", "BCD2_BC", "E0040m_CD", "B0015_DE"]),
        ("cidar-EF", cidar, "DVK_EF", ["J23102_EB", "BCD2_BC", "E0040m_CD", "B0015_DF"]),
        ("cidar-unused", cidar, "DVK_AE", ["J23102_AB", "BCD2_BC", "E0040m_CD", "B0015_DE", "B0015_DF"]),
        ("cidar-l2", cidar, "DVA_AF", ["pJ02B2Rm_AE", "pJ02B2Gm_EF"]),
    ]
    for label, reg, vec, mods in cases:
        def run():
            vector = reg[vec].entity
            ms = [reg[m].entity for m in mods]
            return vector.assemble(*ms, id=label.replace("-", "_"), name=label.upper())
        inputs = []
        try:
            inputs = [reg[vec].entity.record] + [reg[m].entity.record for m in mods]
        except KeyError:
            pass
        product = observe("real:" + label, run, inputs)
        if product is not None:
            observe("real:" + label + ":gb", lambda: gb(product))


def build_level(rng, enzyme, mod_cls, vec_cls, n, case, three=False, ohsize=4, pre="", post="", tag="x", citations=True, rotate=None):
    ohs = rand_overhangs(rng, n + 1, ohsize)
    mk_mod = three_module if three else five_module
    mk_vec = three_vector if three else five_vector
    mods = []
    for i in range(n):
        seq = mk_mod(rng, enzyme, ohs[i], ohs[i + 1], size=rng.randint(10, 60))
        mods.append(
            mod_cls(plasmid(rng, seq, "{}m{}".format(tag, i), case, rotate, citations))
        )
    if three:
        seq = mk_vec(rng, enzyme, ohs[0], ohs[n], size=rng.randint(10, 40))
    else:
        seq = mk_vec(rng, enzyme, ohs[0], ohs[n], size=rng.randint(10, 40), pre=pre, post=post)
    vec = vec_cls(plasmid(rng, seq, "{}v".format(tag), case, rotate, citations))
    return vec, mods, ohs


def run_assembly(label, vec, mods, **kw):
    inputs = [vec.record] + [m.record for m in mods]
    product = observe(label, lambda: vec.assemble(*mods, **kw), inputs)
    if product is not None:
        observe(label + ":gb", lambda: gb(product))
        observe(label + ":rot", lambda: product >> (len(product) // 3))
    return product


def section_synthetic():
    rng = random.Random(20240909)
    kits = [
        ("BsaI", L0Module, L0Vector, False, 4),
        ("BsmBI", L1Module, L1Vector, False, 4),
        ("BpiI", BpiModule, BpiVector, False, 4),
        ("BsrDI", ThreeModule, ThreeVector, True, 2),
        ("BtsI", BtsModule, BtsVector, True, 2),
    ]
    for round_ in range(12):
        for enzyme, mcls, vcls, three, ohsize in kits:
            n = rng.randint(1, 4) if not three else rng.randint(1, 3)
            case = rng.choice([0, 0, 1, 2])
            tag = "{}{}".format(enzyme, round_)
            vec, mods, ohs = build_level(rng, enzyme, mcls, vcls, n, case, three, ohsize, tag=tag)
            label = "syn:{}:{}".format(enzyme, round_)
            for m in mods:
                entity_probe(label + ":" + m.record.id, m, False)
            entity_probe(label + ":" + vec.record.id, vec, True)
            shuffled = mods[:]
            rng.shuffle(shuffled)
            run_assembly(label + ":default", vec, shuffled)
            run_assembly(label + ":named", vec, shuffled, id="ID_" + tag, name="NAME_" + tag)
            run_assembly(label + ":idonly", vec, mods, id="only_" + tag)
            run_assembly(label + ":nameonly", vec, mods, name="nm_" + tag, other=1)
            # second run on the same objects: history must not matter
            run_assembly(label + ":again", vec, shuffled, id="again", name="again")
            # failures
            if n > 1:
                run_assembly(label + ":missing", vec, mods[:-1] if round_ % 2 else mods[1:])
            # unused module
            mk_mod = three_module if three else five_module
            extra_ohs = rand_overhangs(rng, 2, ohsize)
            if not (set(extra_ohs) & set(ohs)) and not (
                {str(Seq(o).reverse_complement()) for o in extra_ohs} & set(ohs)
            ):
                extra = mcls(plasmid(rng, mk_mod(rng, enzyme, extra_ohs[0], extra_ohs[1]), tag + "extra", case))
                run_assembly(label + ":unused", vec, mods + [extra], id="unused")
            # duplicate start overhang
            dup = mcls(plasmid(rng, mk_mod(rng, enzyme, ohs[0], ohs[1]), tag + "dup", case))
            run_assembly(label + ":dup", vec, mods + [dup])
            # reverse complementing overhangs
            rc0 = str(Seq(ohs[0]).reverse_complement())
            rcm = mcls(plasmid(rng, mk_mod(rng, enzyme, rc0, ohs[1]), tag + "rc", case))
            run_assembly(label + ":rc", vec, mods + [rcm])
            # invalid vector
            mk_vec = three_vector if three else five_vector
            bad = vcls(plasmid(rng, mk_vec(rng, enzyme, ohs[0], ohs[0].lower()), tag + "bad", 0))
            run_assembly(label + ":badvec", bad, mods)
            # not a vector at all
            notvec = vcls(plasmid(rng, rand_dna(rng, 80), tag + "nov", case))
            run_assembly(label + ":novec", notvec, mods)
            notmod = mcls(plasmid(rng, rand_dna(rng, 80), tag + "nom", case))
            run_assembly(label + ":nomod", vec, mods + [notmod])
            # plain SeqRecord inputs
            pm = mcls(plasmid(rng, mk_mod(rng, enzyme, ohs[0], ohs[n]), tag + "plain", case, plain=True))
            entity_probe(label + ":plainmod", pm, False)
            run_assembly(label + ":plainmod:asm", vec, [pm])
            pv = vcls(plasmid(rng, mk_vec(rng, enzyme, ohs[0], ohs[n]), tag + "plainv", case, plain=True))
            entity_probe(label + ":plainvec", pv, True)
            run_assembly(label + ":plainvec:asm", pv, mods)
            # illegal extra site
            fwd, _ = SITES[enzyme]
            ill_seq = mk_mod(rng, enzyme, ohs[0], ohs[n])
            cut = ill_seq.upper().index(fwd) + len(fwd) + 12
            ill_seq = ill_seq[:cut] + fwd + "ACGTACGTAC" + ill_seq[cut:]
            ill = mcls(plasmid(rng, ill_seq, tag + "ill", 0, rotate=0, citations=False))
            entity_probe(label + ":illegal", ill, False)
            run_assembly(label + ":illegal:asm", vec, [ill])


def section_citations():
    rng = random.Random(77)
    for i in range(12):
        vec, mods, ohs = build_level(rng, "BsaI", L0Module, L0Vector, 2, 0, tag="cit{}".format(i))
        target = mods[0].record if i % 2 else vec.record
        target.annotations["references"] = make_refs(rng, "c{}".format(i), 2)
        bad = ["[x]", "[]", "nope", "[9]", "[0]", "[2] trailing"][i % 6]
        target.features.append(
            SeqFeature(FeatureLocation(1, 4), type="misc_feature", qualifiers={"citation": ["[1]", bad]})
        )
        run_assembly("cit:{}:{}".format(i, bad), vec, mods)
        mgr = _assembly.AssemblyManager(vec, mods, "cid", "cname")
        observe("cit:{}:deref".format(i), lambda: mgr._deref_citations(target), [target])
        observe("cit:{}:ref".format(i), lambda: mgr._ref_citations(target), [target])
        fresh = SeqRecord(Seq("ACGT" * 5), id="fresh")
        fresh.features.append(
            SeqFeature(FeatureLocation(1, 4), type="misc_feature", qualifiers={"citation": make_refs(rng, "f", 2)})
        )
        observe("cit:{}:ref-fresh".format(i), lambda: mgr._ref_citations(fresh), [fresh])
        observe("cit:{}:ref-fresh2".format(i), lambda: mgr._ref_citations(fresh), [fresh])
        observe("cit:{}:deref-fresh".format(i), lambda: mgr._deref_citations(fresh), [fresh])
    observe("cit:rx", lambda: _assembly.AssemblyManager._CITATION_RX.pattern)


def section_multilevel():
    rng = random.Random(4242)
    for i in range(10):
        case = rng.choice([0, 1, 2])
        l2_n = rng.randint(1, 3)
        l2_ohs = rand_overhangs(rng, l2_n + 1, 4)
        cassettes = []
        for j in range(l2_n):
            fwd, rev = SITES["BsmBI"]
            pre = fwd + "A" + l2_ohs[j] + rand_dna(rng, rng.randint(0, 12))
            post = rand_dna(rng, rng.randint(0, 12)) + l2_ohs[j + 1] + "T" + rev
            n = rng.randint(1, 3)
            vec, mods, ohs = build_level(
                rng, "BsaI", L0Module, L0Vector, n, case, pre=pre, post=post, tag="ml{}_{}_".format(i, j)
            )
            label = "ml:{}:{}".format(i, j)
            product = run_assembly(label + ":l1", vec, mods, id="cas{}_{}".format(i, j), name="CAS{}{}".format(i, j))
            if product is None:
                continue
            if (i + j) % 2:
                product = CircularRecord(SeqIO.read(io.StringIO(gb(product)), "genbank"))
            if (i + j) % 3 == 0:
                product = product >> rng.randint(1, len(product) - 1)
            cas = L1Module(product)
            entity_probe(label + ":cassette", cas, False)
            cassettes.append(cas)
        seq = five_vector(rng, "BsmBI", l2_ohs[0], l2_ohs[l2_n], size=rng.randint(10, 40))
        l2vec = L1Vector(plasmid(rng, seq, "ml{}dv".format(i), case))
        rng.shuffle(cassettes)
        device = run_assembly("ml:{}:l2".format(i), l2vec, cassettes, id="dev{}".format(i), name="DEV{}".format(i))
        if device is not None:
            observe("ml:{}:l2:reread".format(i), lambda: rec(CircularRecord(SeqIO.read(io.StringIO(gb(device)), "genbank"))))


def section_helpers():
    rng = random.Random(5)
    for i in range(20):
        src = SeqRecord(Seq(rand_dna(rng, 30)), id="src{}".format(i))
        dst = SeqRecord(Seq(rand_dna(rng, rng.randint(0, 25))), id="dst{}".format(i))
        if i % 3 == 0:
            dst.features.append(SeqFeature(FeatureLocation(0, min(3, len(dst))), type="misc_feature"))
        loc = [None, FeatureLocation(2, 5), FeatureLocation(0, 0), FeatureLocation(1, 9, -1)][i % 4]
        observe("helper:add:{}".format(i), lambda: _utils.add_as_source(src, dst, loc), [src, dst])
        observe("helper:add2:{}".format(i), lambda: _utils.add_as_source(src, dst), [src, dst])
        observe("helper:addkw:{}".format(i), lambda: _utils.add_as_source(src_record=src, dst_record=dst, location=loc), [src, dst])
        observe("helper:same:{}".format(i), lambda: _utils.add_as_source(src, dst) is dst)
    for cutter, name in [(NotImplemented, "X"), (BsaI, "Y"), (BsrDI, "Z")]:
        observe("helper:cutter:{}".format(name), lambda: _utils.cutter_check(cutter, name))
    from Bio.Restriction import EcoRV, SnaI  # blunt, unknown
    observe("helper:cutter:blunt", lambda: _utils.cutter_check(EcoRV, "B"))
    observe("helper:cutter:unknown", lambda: _utils.cutter_check(SnaI, "U"))
    observe("helper:names", lambda: sorted(
        n for n in ("AssemblyManager",) if hasattr(_assembly, n)
    ) + sorted(n for n in ("add_as_source", "cutter_check") if hasattr(_utils, n)
    ) + sorted(n for n in ("add_as_source", "cutter_check", "AbstractModule", "Product", "Entry", "Cassette", "Device") if hasattr(modules, n)
    ) + sorted(n for n in ("add_as_source", "cutter_check", "AssemblyManager", "AbstractVector", "EntryVector", "CassetteVector", "DeviceVector") if hasattr(vectors, n)))
    # AssemblyManager used directly
    vec, mods, ohs = build_level(rng, "BsaI", L0Module, L0Vector, 2, 0, tag="mgr")
    observe("helper:mgr:pos", lambda: _assembly.AssemblyManager(vec, mods, "i1", "n1").assemble(), [vec.record])
    observe("helper:mgr:kw", lambda: _assembly.AssemblyManager(vector=vec, modules=mods, id_="i2", name="n2").assemble(), [vec.record])
    observe("helper:mgr:default", lambda: _assembly.AssemblyManager(vec, mods).assemble(), [vec.record])
    mgr = _assembly.AssemblyManager(vec, mods, id_="i3")
    observe("helper:mgr:attrs", lambda: [mgr.id, mgr.name, mgr.vector is vec, mgr.modules is mods, [e.record.id for e in mgr.elements]])
    observe("helper:mgr:modmap", lambda: sorted((str(k), v.record.id) for k, v in mgr._generate_modules_map().items()))
    observe("helper:mgr:gen", lambda: mgr._generate_assembly(mgr._generate_modules_map()), [vec.record])
    observe("helper:mgr:gen-empty", lambda: mgr._generate_assembly({}), [vec.record])
    blank = CircularRecord(Seq("ACGT"), id="blank")
    observe("helper:mgr:annotate", lambda: (mgr._annotate_assembly(blank), blank)[1])
    observe("helper:assemble:nomodule", lambda: vec.assemble())
    observe("helper:assemble:errors-as-warnings", lambda: errors_as_warnings(vec, mods, rng))


def errors_as_warnings(vec, mods, rng):
    extra_ohs = ["AAAA", "CCCC"]
    extra = L0Module(plasmid(rng, five_module(rng, "BsaI", *extra_ohs), "extra", 0))
    with warnings.catch_warnings():
        warnings.simplefilter("error")
        return vec.assemble(*(mods + [extra]))


def main():
    regs = section_registries()
    section_kit_classes()
    section_real_assemblies(regs)
    section_synthetic()
    section_citations()
    section_multilevel()
    section_helpers()
    digest = hashlib.sha256(json.dumps(RESULTS, sort_keys=True).encode("utf-8")).hexdigest()
    print("observations:", len(RESULTS))
    print("outcomes:", dict(sorted(COUNTS.items())))
    print("DIGEST", digest)
    if "--dump" in sys.argv:
        for (label, h), kind in zip(RESULTS, KINDS):
            print(label, h, kind)


if __name__ == "__main__":
    main()
