# coding: utf-8
"""Differential test for the code behind C06 (structured records, DNA regex,
parts / modules / vectors, assembly), through the existing API only.

Run as:  cd /tmp/agents7/C06 && /venv/bin/python pairs_out/C06_r1/equiv.py
Prints a digest of every result / exception / warning / input state; the
digest has to be identical before and after a behaviour preserving change.
"""
import copy
import hashlib
import random
import re
import sys
import warnings

sys.path.insert(0, "/tmp/agents7/C06")
with warnings.catch_warnings():
    warnings.simplefilter("ignore")
    import tests  # noqa: F401
    from Bio.Seq import Seq
    from Bio.SeqFeature import SeqFeature, FeatureLocation
    from Bio.SeqRecord import SeqRecord
    from Bio.Restriction import BpiI, BsaI, BsmBI, EcoRV, SapI
    from moclo import errors
    from moclo.record import CircularRecord
    from moclo.regex import DNARegex
    from moclo.core import (
        AbstractModule, AbstractPart, AbstractVector, Cassette, CassetteVector,
        Entry, EntryVector, Product, Device, DeviceVector,
    )
    from moclo.kits import ytk, cidar, ecoflex, plant
    from moclo.kits import moclo as moclo_kit
    from moclo.registry.ytk import YTKRegistry


LINES = []


_ADDRESS = re.compile(r" at 0x[0-9a-fA-F]+")


def log(*parts):
    LINES.append(_ADDRESS.sub(" at 0x?", " | ".join(str(p) for p in parts)))


def outcome(func, *args, **kwargs):
    """Result or exception of a call, with the warnings it emitted."""
    with warnings.catch_warnings(record=True) as caught:
        warnings.simplefilter("always")
        try:
            res = func(*args, **kwargs)
            text = "OK " + show(res)
        except Exception as err:  # noqa
            text = "EXC {}: {}".format(type(err).__name__, err)
    warns = [
        "{}: {}".format(type(w.message).__name__, w.message)
        for w in caught
        if "pkg_resources" not in str(w.message)
    ]
    return text + (" WARN " + repr(warns) if warns else "")


def show(obj):
    if isinstance(obj, SeqRecord):
        return "{}<{}|{}|{}|{}|{}>".format(
            type(obj).__name__, obj.id, obj.name, str(obj.seq),
            state(obj), sorted((k, str(v)) for k, v in obj.annotations.items()),
        )
    if isinstance(obj, Seq):
        return "Seq<{}>".format(str(obj))
    if isinstance(obj, (AbstractModule, AbstractVector)):
        return "{}({})".format(type(obj).__name__, obj.record.id)
    return repr(obj)


def state(record):
    feats = []
    for f in record.features:
        quals = sorted((k, str(v)) for k, v in f.qualifiers.items())
        feats.append((f.type, str(f.location), quals))
    return repr(feats)


def full_state(record):
    return "{}|{}|{}|{}".format(
        type(record).__name__, str(record.seq), state(record),
        sorted((k, str(v)) for k, v in record.annotations.items()),
    )


SITES = ["GGTCTC", "GAGACC", "CGTCTC", "GAGACG", "GAAGAC", "GTCTTC", "GCTCTTC", "GAAGAGC"]
rng = random.Random(606)


def filler(n):
    while True:
        s = "".join(rng.choice("ACGT") for _ in range(n))
        if not any(site in s * 2 for site in SITES):
            return s


def rotate(s, n):
    n %= len(s)
    return s[n:] + s[:n]


def mixcase(s):
    return "".join(c.lower() if rng.random() < 0.4 else c for c in s)


def revcomp(s):
    return str(Seq(s).reverse_complement())


# --- A. DNARegex.search ----------------------------------------------------

def section_regex():
    patterns = ["AA(NN)", "GGTCTCN(NNNN)(NN*N)(NNNN)NGAGACC", "(ATG)N*?(TAA)", "RYN*W", "(NN)"]
    regexes = [DNARegex(p) for p in patterns]
    for i in range(120):
        s = "".join(rng.choice("ACGTN" if i % 7 == 0 else "ACGT") for _ in range(rng.randint(1, 40)))
        if i % 5 == 0:
            s = "ATAA" + s + "GGTCTCAATGCTTTTACGTAGAGACC"
        if i % 3 == 0:
            s = mixcase(s)
        s = rotate(s, rng.randint(0, len(s)))
        kind = i % 4
        if kind == 0:
            target = Seq(s)
        elif kind == 1:
            target = SeqRecord(Seq(s), id="r{}".format(i))
        elif kind == 2:
            target = CircularRecord(Seq(s), id="c{}".format(i))
        else:
            target = SeqRecord(Seq(s), id="l{}".format(i), annotations={"topology": "linear"})
        for rx in regexes:
            variants = [
                {}, {"linear": False}, {"linear": True}, {"linear": None}, {"linear": 0},
                {"pos": rng.randint(0, len(s))},
                {"pos": rng.randint(0, len(s)), "endpos": rng.randint(0, len(s) + 3), "linear": bool(i % 2)},
            ]
            for kw in variants:
                try:
                    m = rx.search(target, **kw)
                    if m is None:
                        res = None
                    else:
                        res = (
                            m.start(), m.end(), m.span(), [m.span(g) for g in range(rx.regex.groups + 1)],
                            [show(m.group(g)) for g in range(rx.regex.groups + 1)], m.shift,
                            m.rec is target,
                        )
                except Exception as err:  # noqa
                    res = "EXC {}: {}".format(type(err).__name__, err)
                log("A", i, rx.pattern, sorted(kw.items()), res)
    rx = regexes[0]
    for bad in ["ATGC", b"ATGC", None, 12, ["A"]]:
        log("A-bad", outcome(rx.search, bad))
        log("A-bad", outcome(rx.search, bad, linear=False))


# --- B. verdicts of the kit classes -----------------------------------------

def kit_classes():
    out = []
    for mod in (ytk, cidar, ecoflex, plant, moclo_kit):
        for name in sorted(vars(mod)):
            obj = getattr(mod, name)
            if isinstance(obj, type) and issubclass(obj, (AbstractModule, AbstractVector, AbstractPart)):
                if obj.__module__ == mod.__name__:
                    out.append(obj)
    return out


def module_seq(cutter, up, down, insert=None):
    site = cutter.site
    pad = "A" * (cutter.fst5 - len(site))
    return filler(25) + site + pad + up + (insert or filler(rng.randint(5, 40))) + down \
        + revcomp(pad) + revcomp(site) + filler(25)


def vector_seq(cutter, up, down, placeholder=None):
    site = cutter.site
    pad = "T" * (cutter.fst5 - len(site))
    return filler(25) + down + revcomp(pad) + revcomp(site) + (placeholder or filler(20)) \
        + site + pad + up + filler(25)


def make_record(seq, ident, kind):
    if kind == 0:
        return CircularRecord(Seq(seq), id=ident, name=ident)
    if kind == 1:
        return SeqRecord(Seq(seq), id=ident, name=ident)
    if kind == 2:
        return SeqRecord(Seq(seq), id=ident, name=ident, annotations={"topology": "circular"})
    if kind == 3:
        return SeqRecord(Seq(seq), id=ident, name=ident, annotations={"topology": "linear"})
    if kind == 4:
        return SeqRecord(Seq(seq), id=ident, name=ident, annotations={"topology": "Linear"})
    if kind == 5:
        return CircularRecord(Seq(seq), id=ident, name=ident, annotations={"topology": "CIRCULAR"})
    return SeqRecord(Seq(seq), id=ident, name=ident, annotations={"topology": None})


def verdict(cls, record):
    before = full_state(record)
    try:
        entity = cls(record)
    except Exception as err:  # noqa
        return "NEW-EXC {}: {}".format(type(err).__name__, err)
    parts = [outcome(entity.is_valid)]
    for name in ("overhang_start", "overhang_end", "target_sequence", "placeholder_sequence"):
        if hasattr(entity, name):
            parts.append(name + "=" + outcome(getattr(entity, name)))
    parts.append("again=" + outcome(entity.is_valid))
    parts.append("same-record={}".format(entity.record is record and entity.seq is record.seq))
    parts.append("unchanged={}".format(full_state(record) == before))
    return " ; ".join(parts)


def section_verdicts():
    classes = kit_classes()
    log("B-classes", [c.__name__ for c in classes])
    for c in classes:
        log("B-structure", c.__name__, outcome(c.structure))

    sigs = [
        ("CCCT", "AACG"), ("AACG", "TATG"), ("TATG", "ATCC"), ("ATCC", "GCTG"), ("GCTG", "TACA"),
        ("TACA", "GAGT"), ("GAGT", "CCGA"), ("CCGA", "CCCT"), ("TACT", "AATG"), ("AATG", "AGGT"),
        ("GGAG", "TACT"), ("AGGT", "GCTT"), ("GGAG", "AATG"), ("AATG", "GCTT"), ("CTAT", "GTAC"),
        ("TACA", "CCCT"), ("CCGA", "CAAT"),
    ]
    records = []
    n = 0
    for cutter in (BsaI, BsmBI, BpiI):
        for up, down in sigs:
            n += 1
            if cutter is not BsaI and n % 4:
                continue
            for builder in (module_seq, vector_seq):
                seq = builder(cutter, up, down)
                variant = n % 6
                if variant == 1:
                    seq = mixcase(seq)
                if variant == 2:
                    seq = seq.lower()
                if variant == 3:  # an illegal extra site in the backbone
                    seq = seq + cutter.site + filler(8)
                shift = 0 if n % 3 == 0 else rng.randint(1, len(seq) - 1)
                seq = rotate(seq, shift)
                kind = (n + (builder is vector_seq)) % 7
                ident = "{}_{}{}_{}_{}".format(cutter.__name__, up, down, builder.__name__[0], kind)
                records.append(make_record(seq, ident, kind))
    # special layouts: YTK product, YTK 234r, CIDAR vectors
    prod = filler(20) + "CGTCTCA" + "TCGG" + "TCTCA" + "TATG" + filler(30) + "ATCC" + "TGA" + "GACC" + "TGAGACG" + filler(20)
    records.append(CircularRecord(Seq(rotate(prod, 70)), id="ytk_product", name="ytk_product"))
    records.append(SeqRecord(Seq(prod), id="ytk_product_lin", annotations={"topology": "linear"}))
    r234 = filler(30) + "AACG" + "TGAGACC" + filler(30) + "GGTCTCA" + "GCTG" + filler(30)
    records.append(CircularRecord(Seq(r234), id="ytk_234r", name="ytk_234r"))
    records.append(SeqRecord(Seq(rotate(r234, 50)), id="ytk_234r_rot", name="ytk_234r_rot"))
    records.append(CircularRecord(Seq("ATG"), id="tiny"))
    records.append(SeqRecord(Seq(""), id="empty"))

    log("B-records", len(records), len(classes))
    order = [(c, r) for c in classes for r in records]
    rng.shuffle(order)
    # every kit class sees a parent-friendly record early, subclasses afterwards
    for c, r in order:
        log("B", c.__name__, r.id, verdict(c, r))
    # dynamically created subclasses
    dyn1 = type(str("DynPart"), (ytk.YTKPart3,), {"signature": ("TATG", "GGGG")})
    dyn2 = type(str("DynEntry"), (ytk.YTKEntry,), {})
    dyn3 = type(str("DynBpiI"), (ytk.YTKPart2,), {"cutter": BpiI})
    for c in (dyn1, dyn2, dyn3):
        log("B-dyn-structure", c.__name__, outcome(c.structure))
        for r in records[::5]:
            log("B-dyn", c.__name__, r.id, verdict(c, r))
    return records


# --- C. characterize / class level errors -----------------------------------

def section_characterize(records):
    for base in (ytk.YTKPart, cidar.CIDARPart, ecoflex.EcoFlexPart, ytk.YTKPart3, AbstractPart):
        for r in records[::3]:
            log("C", base.__name__, r.id, outcome(base.characterize, r))

    class NoCutterModule(Entry):
        pass

    class BluntVector(EntryVector):
        cutter = EcoRV

    class NoSignature(AbstractPart, Entry):
        cutter = BsaI

    class NeitherPart(AbstractPart):
        cutter = BsaI
        signature = ("AAAA", "CCCC")

    class SapModule(Cassette):
        cutter = SapI

    class SapVector(CassetteVector):
        cutter = SapI

    rec = records[0]
    for cls in (NoCutterModule, BluntVector, NoSignature, NeitherPart, SapModule, SapVector,
                AbstractModule, AbstractVector, AbstractPart, Product, Device, DeviceVector):
        log("C-new", cls.__name__, outcome(cls, rec))
        log("C-structure", cls.__name__, outcome(cls.structure))
        log("C-verdict", cls.__name__, verdict(cls, rec))
    sap = filler(20) + "GCTCTTCA" + "ATG" + filler(20) + "TAA" + "TGAAGAGC" + filler(20)
    for k in (0, 1, 3):
        log("C-sap", k, verdict(SapModule, make_record(rotate(sap, 30 * k), "sap{}".format(k), k)))


# --- D. assemblies ------------------------------------------------------------

class MockVector(AbstractVector):
    cutter = BpiI


class MockModule(AbstractModule):
    cutter = BpiI


def with_citations(record, n):
    record.annotations["references"] = ["ref-{}-{}".format(record.id, i) for i in range(n)]
    for i in range(n):
        feat = SeqFeature(FeatureLocation(i, i + 5), type="misc_feature",
                          qualifiers={"citation": ["[{}]".format(i + 1)], "label": ["f{}".format(i)]})
        record.features.append(feat)
    return record


def section_assembly():
    ovs = ["ATGC", "CGTA", "GGAT", "TTCA", "ACCA", "AAAA", "CCCC"]
    for i in range(60):
        k = rng.randint(1, 4)
        chain = rng.sample(ovs, k + 1)
        mods = []
        for j in range(k):
            seq = module_seq(BpiI, chain[j], chain[j + 1])
            if i % 4 == 1:
                seq = mixcase(seq)
            seq = rotate(seq, rng.randint(0, len(seq) - 1))
            ident = "m{}_{}".format(i, j)
            if i % 10 == 9 and j == 0:
                # `<<` needs a CircularRecord: a plain record fails in target_sequence
                rec = SeqRecord(Seq(seq), id=ident, name=ident)
            else:
                rec = CircularRecord(Seq(seq), id=ident, name=ident)
            if i % 5 == 0:
                with_citations(rec, 2)
            mods.append(rec)
        vseq = vector_seq(BpiI, chain[-1], chain[0])
        vrec = CircularRecord(Seq(rotate(vseq, rng.randint(0, len(vseq) - 1))), id="v{}".format(i), name="v{}".format(i))
        if i % 5 == 0:
            with_citations(vrec, 3)
        scenario = i % 6
        if scenario == 1 and k > 1:
            mods.pop(rng.randrange(len(mods)))  # missing module
        elif scenario == 2:
            extra = CircularRecord(Seq(module_seq(BpiI, "TGTG", "GAGA")), id="x{}".format(i))
            mods.append(extra)  # unused module
        elif scenario == 3:
            dup = CircularRecord(Seq(module_seq(BpiI, chain[0], chain[1])), id="d{}".format(i))
            mods.append(dup)  # duplicate start overhang
        elif scenario == 4 and i % 12 == 4:
            vrec = CircularRecord(Seq(vector_seq(BpiI, chain[0], chain[0])), id="v{}".format(i))
        rng.shuffle(mods)
        before = [full_state(r) for r in mods + [vrec]]
        vector = MockVector(vrec)
        modules = [MockModule(r) for r in mods]
        kwargs = {} if i % 2 else {"id": "asm{}".format(i), "name": "asm{}".format(i)}
        log("D", i, scenario, outcome(vector.assemble, *modules, **kwargs))
        after = [full_state(r) for r in mods + [vrec]]
        log("D-state", i, before == after, after)
        log("D-verdicts", i, [outcome(m.is_valid) for m in modules], outcome(vector.placeholder_sequence),
            outcome(vector.target_sequence))
    log("D-noarg", outcome(MockVector(CircularRecord(Seq(vector_seq(BpiI, "CGTA", "ATGC")), id="v")).assemble))


# --- E. the YTK registry ---------------------------------------------------------

def section_registry():
    reg = YTKRegistry()
    ids = sorted(reg)
    log("E-len", len(reg), len(ids))
    for ident in ids:
        item = reg[ident]
        e = item.entity
        log("E", ident, item.name, item.resistance, type(e).__name__, outcome(e.is_valid),
            outcome(e.overhang_start), outcome(e.overhang_end), len(outcome(e.target_sequence)))
    # a classical cassette: one part of each type 1..5 in a 678 vector
    first = {}
    for ident in ids:
        first.setdefault(type(reg[ident].entity).__name__, ident)
    chosen = [first["YTKPart{}".format(t)] for t in ("1", "2", "3", "4", "5")]
    vector = reg[first["YTKPart678"]].entity
    res = outcome(vector.assemble, *[reg[i].entity for i in chosen])
    log("E-assembly", chosen, res[:60], hashlib.sha256(res.encode("utf-8")).hexdigest(), len(res))
    res = outcome(vector.assemble, *[reg[i].entity for i in chosen[:-1]])
    log("E-assembly-missing", res[:200])
    for ident in ids[::7]:
        rec = copy.deepcopy(reg[ident].record)
        log("E-char", ident, outcome(ytk.YTKPart.characterize, rec))
        plain = SeqRecord(rec.seq, id=rec.id, name=rec.name, annotations={"topology": "circular"})
        log("E-plain", ident, [verdict(c, plain)[:200] for c in (ytk.YTKEntry, ytk.YTKPart3, ytk.YTKCassetteVector)])


def main():
    section_regex()
    records = section_verdicts()
    section_characterize(records)
    section_assembly()
    section_registry()
    blob = "\n".join(LINES).encode("utf-8")
    if "--dump" in sys.argv:
        sys.stdout.write(blob.decode("utf-8") + "\n")
    print("lines: {}".format(len(LINES)))
    print("digest: {}".format(hashlib.sha256(blob).hexdigest()))


if __name__ == "__main__":
    main()
