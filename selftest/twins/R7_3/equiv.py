# coding: utf-8
"""Differential test: prints a digest that must be identical on the pristine
tree and on the refactored tree.  Run as

    cd /tmp/agentsR/R7 && /venv/bin/python refactor_out/<dir>/equiv.py
"""
import sys
import warnings

warnings.filterwarnings("ignore", category=UserWarning)
warnings.filterwarnings("ignore", category=DeprecationWarning)

sys.path.insert(0, "/tmp/agentsR/R7")
import tests  # noqa: E402,F401  (splices the kit packages into the moclo namespace)

import hashlib  # noqa: E402
import random  # noqa: E402

from Bio.Seq import Seq  # noqa: E402
from Bio.SeqFeature import SeqFeature, FeatureLocation, CompoundLocation  # noqa: E402
from Bio.SeqRecord import SeqRecord  # noqa: E402
from Bio import Restriction  # noqa: E402
from Bio.Restriction import BsaI, BpiI, BsmBI, BseRI, BtsI, SapI, EcoRV  # noqa: E402

from moclo import errors  # noqa: E402
from moclo.record import CircularRecord  # noqa: E402
from moclo.core.vectors import AbstractVector  # noqa: E402
from moclo.core.modules import AbstractModule  # noqa: E402
from moclo.core.parts import AbstractPart  # noqa: E402

RESULTS = []

IUPAC = {
    "A": "A", "C": "C", "G": "G", "T": "T",
    "B": "CGT", "D": "AGT", "H": "ACT", "K": "GT", "M": "AC", "N": "ACGT",
    "R": "AG", "S": "CG", "V": "ACG", "W": "AT", "Y": "CT",
}


# --- canonical description of results ---------------------------------------


def canon_location(loc):
    if loc is None:
        return None
    return repr(loc)


def canon_feature(feat):
    quals = sorted((str(k), repr(v)) for k, v in feat.qualifiers.items())
    return (feat.type, canon_location(feat.location), feat.id, quals)


def canon(obj, depth=0):
    """Return a deterministic, address-free description of `obj`."""
    if depth > 6:
        return "<deep>"
    if isinstance(obj, BaseException):
        extra = []
        for attr in ("details", "start_overhang"):
            if hasattr(obj, attr):
                extra.append((attr, canon(getattr(obj, attr), depth + 1)))
        for attr in ("duplicates", "remaining"):
            if hasattr(obj, attr):
                extra.append((attr, [canon(x, depth + 1) for x in getattr(obj, attr)]))
        try:
            msg = str(obj)
        except Exception as exc:  # the message itself can fail to render
            msg = ("<str failed>", type(exc).__name__, str(exc))
        return ("EXC", type(obj).__name__, msg, extra)
    if isinstance(obj, SeqRecord):
        return (
            "REC",
            type(obj).__name__,
            str(obj.seq),
            obj.id,
            obj.name,
            obj.description,
            sorted((str(k), repr(v)) for k, v in obj.annotations.items()),
            [canon_feature(f) for f in obj.features],
            list(obj.dbxrefs),
        )
    if isinstance(obj, Seq):
        return ("SEQ", str(obj))
    if isinstance(obj, (AbstractVector, AbstractModule, AbstractPart)):
        return ("ENT", type(obj).__name__, canon(obj.record, depth + 1))
    if isinstance(obj, (list, tuple)):
        return [canon(x, depth + 1) for x in obj]
    if isinstance(obj, dict):
        return sorted((repr(k), canon(v, depth + 1)) for k, v in obj.items())
    if isinstance(obj, type):
        return ("CLS", obj.__module__, obj.__name__)
    if obj is None or isinstance(obj, (bool, int, float, str, bytes)):
        return obj
    return ("OBJ", type(obj).__name__)


def attempt(label, func, *args, **kwargs):
    """Call `func`, recording either its result or the raised exception."""
    with warnings.catch_warnings(record=True) as caught:
        warnings.simplefilter("always")
        try:
            out = ("OK", canon(func(*args, **kwargs)))
        except Exception as exc:
            out = ("RAISED", canon(exc))
    warned = [
        (w.category.__name__, canon(w.message))
        for w in caught
        if isinstance(w.message, errors.MocloError)
    ]
    RESULTS.append((label, out, warned))
    return out


def finish():
    import re

    text = re.sub(r" at 0x[0-9a-fA-F]+", " at 0x?", repr(RESULTS))
    blob = text.encode("utf-8")
    print(len(RESULTS), "observations")
    print(hashlib.sha256(blob).hexdigest())


# --- generators ---------------------------------------------------------------


def rand_dna(rng, n, alphabet="ACGT"):
    return "".join(rng.choice(alphabet) for _ in range(n))


def instantiate(pattern, rng, filler=None, overhangs=None):
    """Generate a sequence matching a moclo structure pattern.

    ``N*`` is replaced by `filler` (random when `None`), the capture groups
    are dropped, IUPAC letters are drawn at random.  When `overhangs` is given
    it is a list of strings substituted, in order, for the capture groups that
    are made of 'N' only and have the same length.
    """
    overhangs = list(overhangs or [])
    out = []
    i = 0
    while i < len(pattern):
        c = pattern[i]
        if c == "(" and overhangs:
            j = pattern.find(")", i)
            inner = pattern[i + 1 : j] if j > 0 else ""
            if inner and set(inner) == {"N"} and len(inner) == len(overhangs[0]):
                out.append(overhangs.pop(0))
                i = j + 1
                continue
        if c in "()":
            i += 1
            continue
        if c == "N" and i + 1 < len(pattern) and pattern[i + 1] == "*":
            out.append(rand_dna(rng, rng.randint(0, 40)) if filler is None else filler)
            i += 2
            continue
        out.append(rng.choice(IUPAC.get(c, c)))
        i += 1
    return "".join(out)


def recase(rng, s):
    mode = rng.randint(0, 3)
    if mode == 0:
        return s
    if mode == 1:
        return s.lower()
    if mode == 2:
        return "".join(rng.choice((c.lower(), c.upper())) for c in s)
    return s[: len(s) // 2].lower() + s[len(s) // 2 :]


REFS = ["Lee et al. 2015", "Weber et al. 2011", "Iverson et al. 2016", "Moore 2016"]


def random_features(rng, n, with_citations=True):
    feats = []
    for k in range(rng.randint(0, 4)):
        if n < 2:
            break
        a = rng.randrange(0, n - 1)
        b = rng.randrange(a + 1, n + 1)
        quals = {"label": ["feat{}".format(k)]}
        if with_citations and rng.random() < 0.5:
            quals["citation"] = ["[{}]".format(rng.randint(1, 2))]
        if rng.random() < 0.2 and b < n - 1:
            c = rng.randrange(b, n - 1)
            d = rng.randrange(c + 1, n + 1)
            loc = CompoundLocation(
                [FeatureLocation(a, b, strand=1), FeatureLocation(c, d, strand=1)]
            )
        else:
            loc = FeatureLocation(a, b, strand=rng.choice((1, -1, None)))
        feats.append(SeqFeature(loc, type=rng.choice(("CDS", "misc_feature", "promoter")), qualifiers=quals))
    return feats


def make_record(rng, core, ident, rotate=True, kind=None, backbone=None, case=True):
    """Wrap `core` in a random backbone, rotate it and build a record."""
    if backbone is None:
        backbone = rand_dna(rng, rng.randint(0, 50))
    full = core + backbone
    if rotate and full:
        # rotation amounts may be negative or larger than the length
        k = rng.randint(-2 * len(full), 2 * len(full))
        k %= len(full)
        full = full[k:] + full[:k]
    if case:
        full = recase(rng, full)
    kind = kind or rng.choice(("circ",) * 20 + ("circ-ann",) * 6 + ("Circ-ann",) * 6 + ("linear", "plain-circ", "plain"))
    annotations = {"molecule_type": "DNA", "references": list(REFS[:2])}
    feats = random_features(rng, len(full))
    if kind == "circ":
        return CircularRecord(Seq(full), id=ident, name=ident, features=feats, annotations=annotations)
    if kind == "circ-ann":
        annotations["topology"] = "circular"
        return CircularRecord(Seq(full), id=ident, name=ident, features=feats, annotations=annotations)
    if kind == "Circ-ann":
        annotations["topology"] = "CIRCULAR"
        return CircularRecord(Seq(full), id=ident, name=ident, features=feats, annotations=annotations)
    if kind == "linear":
        annotations["topology"] = "linear"
        return SeqRecord(Seq(full), id=ident, name=ident, features=feats, annotations=annotations)
    if kind == "plain-circ":
        annotations["topology"] = "circular"
        return SeqRecord(Seq(full), id=ident, name=ident, features=feats, annotations=annotations)
    return SeqRecord(Seq(full), id=ident, name=ident, features=feats, annotations=annotations)


def usable_enzymes():
    """All the commercially known enzymes of Biopython, sorted by name."""
    return sorted(Restriction.AllEnzymes, key=str)


# =============================================================================

def all_subclasses(base):
    seen, todo = [], [base]
    while todo:
        cls = todo.pop()
        for sub in cls.__subclasses__():
            if sub not in seen:
                seen.append(sub)
                todo.append(sub)
    return sorted(seen, key=lambda c: (c.__module__, c.__name__))


def load_kits():
    import importlib

    for kit in ("cidar", "ecoflex", "moclo", "plant", "ytk"):
        try:
            importlib.import_module("moclo.kits.{}".format(kit))
        except ImportError:
            pass


def structure_of(cls):
    try:
        return cls.structure()
    except Exception:
        return None

# Refactoring R7_3: moclo._utils.isabstract / AbstractPart.characterize.

import abc  # noqa: E402
import builtins  # noqa: E402
import collections.abc  # noqa: E402

from moclo._utils import isabstract, classproperty  # noqa: E402
from moclo.core._structured import StructuredRecord  # noqa: E402
from moclo.core import modules as core_modules, vectors as core_vectors  # noqa: E402
import moclo.registry._utils  # noqa: E402

load_kits()
rng = random.Random(7003)

# --- isabstract ---------------------------------------------------------------


class WithNotImplemented(object):
    thing = NotImplemented


class InheritsNotImplemented(WithNotImplemented):
    pass


class OverridesNotImplemented(WithNotImplemented):
    thing = 3


class RaisingProperty(object):
    @classproperty
    def boom(cls):
        raise ValueError("boom from {}".format(cls.__name__))


class RaisingAttributeError(object):
    @classproperty
    def missing(cls):
        raise AttributeError("hidden")


class RaisingAfterNotImplemented(object):
    aaa = NotImplemented

    @classproperty
    def zzz(cls):
        raise ValueError("never reached")


class RaisingBeforeNotImplemented(object):
    zzz = NotImplemented

    @classproperty
    def aaa(cls):
        raise ValueError("reached first")


class ReturnsNotImplemented(object):
    @classproperty
    def lazy(cls):
        return NotImplemented


class AbstractAndRaising(abc.ABC):
    @abc.abstractmethod
    def method(self):
        pass

    @classproperty
    def boom(cls):
        raise ValueError("not evaluated, the class is abstract")


class WeirdDirMeta(type):
    def __dir__(cls):
        return ["nothing_here", "thing"]


class WeirdDir(WithNotImplemented, metaclass=WeirdDirMeta):
    pass


class EmptyDirMeta(type):
    def __dir__(cls):
        return []


class EmptyDir(WithNotImplemented, metaclass=EmptyDirMeta):
    pass


SUBJECTS = [getattr(builtins, n) for n in sorted(dir(builtins)) if isinstance(getattr(builtins, n), type)]
SUBJECTS += [getattr(collections.abc, n) for n in collections.abc.__all__]
SUBJECTS += [
    WithNotImplemented, InheritsNotImplemented, OverridesNotImplemented, RaisingProperty,
    RaisingAttributeError, RaisingAfterNotImplemented, RaisingBeforeNotImplemented,
    ReturnsNotImplemented, AbstractAndRaising, WeirdDir, EmptyDir,
    StructuredRecord, AbstractVector, AbstractModule, AbstractPart,
]
SUBJECTS += all_subclasses(StructuredRecord)
SUBJECTS += [3, "string", None, NotImplemented, WithNotImplemented(), isabstract, collections.abc]
for subject in SUBJECTS:
    label = getattr(subject, "__name__", repr(type(subject)))
    attempt(("isabstract", label), isabstract, subject)
    attempt(("isabstract-type", label), lambda: type(isabstract(subject)).__name__)
RESULTS.append(("same-function", moclo.registry._utils.isabstract is isabstract))

# --- characterize on the embedded registries ----------------------------------

from moclo.registry.ytk import YTKRegistry, PTKRegistry  # noqa: E402
from moclo.registry.cidar import CIDARRegistry  # noqa: E402
from moclo.registry.ecoflex import EcoFlexRegistry  # noqa: E402
from moclo.registry.plant import PlantRegistry  # noqa: E402
from moclo.kits import ytk, cidar, ecoflex, moclo as moclokit  # noqa: E402

BASES = [ytk.YTKPart, cidar.CIDARPart, ecoflex.EcoFlexPart, moclokit.MoCloPart]
for factory in (YTKRegistry, PTKRegistry, CIDARRegistry, EcoFlexRegistry, PlantRegistry):
    registry = factory()
    for key in sorted(registry):
        def load():
            item = registry[key]
            return (item.id, type(item.entity).__name__, item.resistance, item.name)
        attempt(("registry", factory.__name__, key), load)
        record = registry[key].entity.record
        for base in BASES:
            attempt(("characterize", base.__name__, key), lambda: type(base.characterize(record)).__name__)
            shifted = record >> rng.randint(-3 * len(record), 3 * len(record))
            attempt(("characterize-rot", base.__name__, key), lambda: type(base.characterize(shifted)).__name__)

# --- characterize on generated records ------------------------------------------

PART_CLASSES = [c for c in all_subclasses(AbstractPart) if c.__module__.startswith("moclo.kits")]
RESULTS.append(("part-classes", [c.__name__ for c in PART_CLASSES]))
count = 0
for cls in PART_CLASSES:
    pattern = structure_of(cls)
    if pattern is None or cls.cutter is NotImplemented:
        continue
    base = [b for b in BASES if issubclass(cls, b)][0]
    for j in range(6):
        count += 1
        core = instantiate(pattern, rng, filler=rand_dna(rng, rng.randint(0, 40), "ACT"))
        rec = make_record(rng, core, "g{}".format(count), backbone=rand_dna(rng, rng.randint(0, 40), "ACT"))
        for target in (base, cls, rng.choice(BASES)):
            attempt(("gen", cls.__name__, target.__name__, j), target.characterize, rec)
for j in range(60):
    rec = make_record(rng, rand_dna(rng, rng.randint(0, 120)), "junk{}".format(j))
    for base in BASES:
        attempt(("junk", base.__name__, j), base.characterize, rec)

# --- characterize on hand-made hierarchies ---------------------------------------


class Family(AbstractPart):
    cutter = BsaI
    signature = NotImplemented


class FamilyA(Family, core_modules.Entry):
    signature = ("AAAA", "CCCC")


class FamilyB(Family, core_modules.Entry):
    signature = ("AAAA", "TTTT")


class FamilyA2(Family, core_modules.Entry):
    # same structure as FamilyA, declared later: FamilyA wins
    signature = ("AAAA", "CCCC")


class FamilyV(Family, core_vectors.EntryVector):
    signature = ("GGGG", "ACAC")


class FamilyDeep(FamilyB):
    # not a direct subclass of Family: never proposed by Family.characterize
    signature = ("ACGT", "TGCA")


class Concrete(AbstractPart, core_modules.Entry):
    cutter = BpiI
    signature = ("ATGC", "CGTA")


class ConcreteChild(Concrete):
    signature = ("ATGC", "GGGG")


class ConcreteTwin(Concrete):
    # same signature as the parent: the child is tried first
    pass


class Lonely(AbstractPart, core_modules.Entry):
    cutter = BsmBI
    signature = ("ACCA", "TGGT")


class NoCutterBase(AbstractPart):
    signature = NotImplemented


class NoCutterChild(NoCutterBase, core_modules.Entry):
    signature = ("ATGC", "CGTA")


class BluntBase(AbstractPart):
    cutter = BsaI
    signature = NotImplemented


class BluntChild(BluntBase, core_modules.Entry):
    cutter = EcoRV
    signature = ("ATGC", "CGTA")


class Childless(AbstractPart):
    cutter = BsaI
    signature = NotImplemented


class NeitherBase(AbstractPart):
    cutter = BsaI
    signature = NotImplemented


class NeitherChild(NeitherBase):
    signature = ("ATGC", "CGTA")


class NoId(object):
    seq = Seq("ATGC")
    annotations = {}


HIERARCHY = [Family, FamilyA, FamilyB, FamilyA2, FamilyV, FamilyDeep, Concrete, ConcreteChild,
             ConcreteTwin, Lonely, NoCutterBase, NoCutterChild, BluntBase, BluntChild, Childless,
             NeitherBase, NeitherChild, AbstractPart]
SOURCES = [FamilyA, FamilyB, FamilyV, FamilyDeep, Concrete, ConcreteChild, Lonely]
for j in range(12):
    for source in SOURCES:
        core = instantiate(source.structure(), rng, filler=rand_dna(rng, rng.randint(0, 30), "ACT"))
        rec = make_record(rng, core, "h{}-{}".format(source.__name__, j), backbone=rand_dna(rng, rng.randint(0, 30), "ACT"))
        for target in HIERARCHY:
            attempt(("hier", source.__name__, target.__name__, j), target.characterize, rec)
for target in HIERARCHY:
    attempt(("hier-noid", target.__name__), target.characterize, NoId())
    attempt(("hier-none", target.__name__), target.characterize, None)
    attempt(("hier-isabstract", target.__name__), isabstract, target)

finish()
