# Differential test for R8_2: EmbeddedRegistry archive handling (_data, __len__, __iter__)
import sys
sys.path.insert(0, "/tmp/agentsR/R8")
import tests  # noqa: F401  (splices the kit packages into the moclo namespace)

import hashlib
import io
import itertools
import os
import random
import shutil
import tarfile
import tempfile
import warnings

warnings.simplefilter("ignore")

from Bio.Seq import Seq
from Bio.SeqFeature import SeqFeature, FeatureLocation
from Bio.SeqIO import write
from Bio.SeqRecord import SeqRecord

from moclo.record import CircularRecord
from moclo.registry import base


def ensure(kit, *archives):
    from tests._utils import build_registries
    root = "/tmp/agentsR/R8/moclo-{0}/moclo/registry".format(kit)
    if not all(os.path.exists(os.path.join(root, a)) for a in archives):
        build_registries(kit)


def outcome(func, *args):
    try:
        return ("ok", func(*args))
    except BaseException as err:  # noqa
        return (
            "err",
            type(err).__name__,
            str(err),
            type(err.__cause__).__name__,
            type(err.__context__).__name__,
            err.__suppress_context__,
        )


def describe(item):
    rec = item.record
    return (
        item.id,
        item.name,
        item.resistance,
        type(item.entity).__name__,
        type(rec).__name__,
        rec.id,
        rec.name,
        rec.description,
        hashlib.md5(str(rec.seq).encode()).hexdigest(),
        len(rec.features),
        rec.annotations.get("comment"),
    )


RESISTANCES = ["KanR", "CamR", "CmR", "KnR", "AmpR", "SmR", "SpecR", "ori", "GFP"]


def random_genbank(rng, ident):
    length = rng.randint(30, 300)
    rec = SeqRecord(
        Seq("".join(rng.choice("ATGC") for _ in range(length))),
        id=ident,
        name=ident[:10],
        description="synthetic {}".format(rng.randint(0, 999)),
    )
    rec.annotations["molecule_type"] = "DNA"
    rec.annotations["topology"] = "circular"
    if rng.random() < 0.6:
        rec.annotations["comment"] = "\n".join(
            rng.choice(["YTK:1", "note", "YTK:8a", "X:y"]) for _ in range(rng.randint(1, 3))
        )
    for _ in range(rng.randint(0, 4)):
        start = rng.randrange(length - 1)
        end = rng.randint(start + 1, length)
        labels = [rng.choice(RESISTANCES) for _ in range(rng.choice([1, 1, 1, 2]))]
        rec.features.append(
            SeqFeature(FeatureLocation(start, end, rng.choice([1, -1])), type="misc_feature",
                       qualifiers={"label": labels})
        )
    buff = io.StringIO()
    write([rec], buff, "genbank")
    return buff.getvalue().encode("utf-8")


def make_archive(path, members, mode="w:gz"):
    with tarfile.open(path, mode) as tar:
        for name, payload in members:
            info = tarfile.TarInfo(name)
            info.size = len(payload)
            tar.addfile(info, io.BytesIO(payload))


class Entity(object):
    def __init__(self, record):
        self.record = record


class Probe(base.EmbeddedRegistry):
    """A registry on a synthetic package, logging the order of the hook calls."""

    _module = "r8_fake_pkg"

    def __init__(self, file, fail_at=None, fail_with=None, fail_hook="entity"):
        self._file = file
        self.log = []
        self.fail_at = fail_at
        self.fail_with = fail_with
        self.fail_hook = fail_hook
        self.count = {"name": 0, "resistance": 0, "entity": 0}

    def _maybe_fail(self, hook):
        self.count[hook] += 1
        if hook == self.fail_hook and self.count[hook] == self.fail_at:
            raise self.fail_with("boom in {} #{}".format(hook, self.fail_at))

    def _load_name(self, record):
        self.log.append(("name", record.id))
        self._maybe_fail("name")
        return super(Probe, self)._load_name(record)

    def _load_resistance(self, record):
        self.log.append(("resistance", record.id))
        self._maybe_fail("resistance")
        return super(Probe, self)._load_resistance(record)

    def _load_entity(self, record):
        self.log.append(("entity", record.id))
        self._maybe_fail("entity")
        if record.id.endswith("7"):
            record.id = record.id + "_renamed"  # key is read after the hooks ran
        return Entity(record)


def exercise(reg):
    out = []
    out.append(("len", outcome(len, reg)))
    out.append(("iter", outcome(lambda: list(iter(reg)))))

    def partial():
        it = iter(reg)
        head = list(itertools.islice(it, 2))
        it.close()
        return head, list(it)

    out.append(("partial", outcome(partial)))

    def thrown():
        it = iter(reg)
        first = next(it)
        try:
            it.throw(ValueError("stop it"))
        except ValueError as err:
            return first, str(err), list(it)

    out.append(("throw", outcome(thrown)))
    for attempt in range(2):  # a failing load must not be cached
        out.append(("data", attempt, outcome(lambda: [(k, describe(v)) for k, v in reg._data.items()])))
    out.append(("keys", outcome(lambda: sorted(reg.keys()))))
    out.append(("contains", outcome(lambda: ["syn0003" in reg, "nope" in reg])))
    out.append(("getitem", outcome(lambda: describe(reg["syn0003"]))))
    out.append(("missing", outcome(lambda: reg["nope"])))
    out.append(("get", outcome(lambda: reg.get("nope", "dflt"))))
    out.append(("log", list(getattr(reg, "log", ()))))
    out.append(("hash", hash(reg) == hash((base.EmbeddedRegistry, reg._file))))
    return out


def main():
    rng = random.Random(8002)
    results = []

    tmp = os.path.join(tempfile.gettempdir(), "r8_2_equiv_scratch")  # fixed: paths show up in messages
    shutil.rmtree(tmp, ignore_errors=True)
    os.mkdir(tmp)
    try:
        pkg = os.path.join(tmp, "r8_fake_pkg")
        os.mkdir(pkg)
        open(os.path.join(pkg, "__init__.py"), "w").close()
        sys.path.insert(0, tmp)

        good = [("syn{:04d}.gb".format(i), random_genbank(rng, "syn{:04d}".format(i))) for i in range(120)]
        make_archive(os.path.join(pkg, "good.tar.gz"), good)
        make_archive(os.path.join(pkg, "empty.tar.gz"), [])
        make_archive(os.path.join(pkg, "plain.tar"), good[:10], mode="w")  # not gzipped
        make_archive(os.path.join(pkg, "bz.tar.bz2"), good[:10], mode="w:bz2")
        dups = good[:6] + [("again.gb", good[2][1]), ("syn0003.gb", random_genbank(rng, "syn0003"))]
        make_archive(os.path.join(pkg, "dups.tar.gz"), dups)
        broken = good[:4] + [("bad.gb", b"this is not genbank\n")] + good[4:8]
        make_archive(os.path.join(pkg, "broken.tar.gz"), broken)
        two = good[:3] + [("two.gb", good[10][1] + good[11][1])] + good[3:5]
        make_archive(os.path.join(pkg, "two.tar.gz"), two)
        with open(os.path.join(pkg, "garbage.tar.gz"), "wb") as f:
            f.write(b"definitely not an archive")
        for n in range(12):
            members = [("m{}_{}.gb".format(n, i), random_genbank(rng, "syn{:04d}".format(rng.randint(0, 30))))
                       for i in range(rng.randint(0, 25))]
            make_archive(os.path.join(pkg, "rand{}.tar.gz".format(n)), members)

        files = ["good.tar.gz", "empty.tar.gz", "plain.tar", "bz.tar.bz2", "dups.tar.gz", "broken.tar.gz",
                 "two.tar.gz", "garbage.tar.gz", "absent.tar.gz"] + ["rand{}.tar.gz".format(n) for n in range(12)]
        for name in files:
            results.append((name, exercise(Probe(name))))
        failures = [RuntimeError, KeyError, StopIteration, ValueError, GeneratorExit, KeyboardInterrupt]
        for hook in ("name", "resistance", "entity"):
            for fail_with in failures:
                for fail_at in (1, 2, 57, 120, 121):
                    reg = Probe("good.tar.gz", fail_at, fail_with, hook)
                    results.append((hook, fail_with.__name__, fail_at, exercise(reg)))
        a, b, c = Probe("good.tar.gz"), Probe("good.tar.gz"), Probe("dups.tar.gz")
        results.append((a == b, a == c, a != c, a == "good.tar.gz", len({a, b, c})))
    finally:
        sys.path.remove(tmp)
        shutil.rmtree(tmp)

    # the real embedded registries
    ensure("ytk", "ytk.tar.gz", "ptk.tar.gz")
    ensure("cidar", "cidar.tar.gz")
    ensure("ecoflex", "ecoflex.tar.gz")
    ensure("plant", "plant.tar.gz")
    from moclo.registry.ytk import YTKRegistry, PTKRegistry
    from moclo.registry.cidar import CIDARRegistry
    from moclo.registry.ecoflex import EcoFlexRegistry
    from moclo.registry.plant import PlantRegistry
    combined = base.CombinedRegistry()
    for factory in (YTKRegistry, PTKRegistry, CIDARRegistry, EcoFlexRegistry, PlantRegistry):
        reg = factory()
        results.append((factory.__name__, len(reg), list(reg), [describe(reg[k]) for k in reg]))
        results.append(list(reg._data) == [item.id for item in reg.values()])
        combined << reg
    results.append((len(combined), sorted(combined)))

    print(len(results), hashlib.sha256(repr(results).encode("utf-8")).hexdigest())


main()
