# coding: utf-8
"""Differential test for the code behind record typing (property C06).

Run as: cd /tmp/agents8/C06 && /venv/bin/python pairs_out/C06_s2/equiv.py

Exercises, through the existing API only, every kit class and the abstract
core classes against a few hundred records (registry plasmids, rotations that
make the match wrap the origin, lower / mixed case, plain SeqRecord with the
different topology annotations, records with an illegal extra site, random
junk), dynamically created subclasses (other enzymes, 3' overhang cutters,
pure parts, broken signatures), `characterize`, assemblies that succeed and
that fail, the regex layer and the registries. Prints a digest of every
result / exception type and message / warning / input state afterwards.
"""
from __future__ import print_function

import sys

sys.path.insert(0, "/tmp/agents8/C06")
import tests  # noqa: E402,F401  (splices the kits in the moclo namespace)

import copy  # noqa: E402
import hashlib  # noqa: E402
import inspect  # noqa: E402
import random  # noqa: E402
import re  # noqa: E402
import warnings  # noqa: E402

warnings.simplefilter("ignore")

from Bio.Seq import Seq  # noqa: E402
from Bio.SeqFeature import SeqFeature, FeatureLocation  # noqa: E402
from Bio.SeqRecord import SeqRecord  # noqa: E402
from Bio.Restriction import BsaI, BsmBI, BbsI, BpiI, SapI, BtsI, EcoRV  # noqa: E402

from moclo import core, errors  # noqa: E402
from moclo.core import (  # noqa: E402
    AbstractModule,
    AbstractPart,
    AbstractVector,
    Cassette,
    CassetteVector,
    Device,
    DeviceVector,
    Entry,
    EntryVector,
    Product,
)
from moclo.kits import cidar, ecoflex, moclo as moclo_kit, plant, ytk  # noqa: E402
from moclo.record import CircularRecord  # noqa: E402
from moclo.regex import DNARegex  # noqa: E402
from moclo.registry.base import CombinedRegistry  # noqa: E402
from moclo.registry.cidar import CIDARRegistry  # noqa: E402
from moclo.registry.ecoflex import EcoFlexRegistry  # noqa: E402
from moclo.registry.plant import PlantRegistry  # noqa: E402
from moclo.registry.ytk import PTKRegistry, YTKRegistry  # noqa: E402

LINES = []
ADDR = re.compile(r"0x[0-9a-fA-F]+")
PUBLIC = [
    AbstractModule, AbstractPart, AbstractVector, Cassette, CassetteVector,
    Device, DeviceVector, Entry, EntryVector, Product,
]


def clean(text):
    return ADDR.sub("0x?", str(text)).replace("/tmp/agents8/C06", "<wt>")


def emit(*fields):
    LINES.append(" | ".join(clean(f) for f in fields))


def outcome(func, *args, **kwargs):
    """Run func, describe what came out (value / exception / warnings)."""
    with warnings.catch_warnings(record=True) as caught:
        warnings.simplefilter("always")
        try:
            value = func(*args, **kwargs)
            text = "ok:" + describe(value)
        except BaseException as exc:  # noqa
            text = "exc:{}:{}".format(type(exc).__name__, exc)
    warns = [
        "{}:{}".format(type(w.message).__name__, w.message)
        for w in caught
        if "pkg_resources" not in str(w.message)
    ]
    if warns:
        text += " warns=" + ";".join(warns)
    return text


def describe(value):
    if isinstance(value, SeqRecord):
        return "{}[{}]{} {}".format(
            type(value).__name__, len(value), seqhash(value.seq), features(value)
        )
    if isinstance(value, Seq):
        return "Seq:" + str(value)
    if isinstance(value, (AbstractModule, AbstractVector, AbstractPart)):
        return "entity:" + type(value).__name__
    return repr(value)


def seqhash(seq):
    return hashlib.sha1(str(seq).encode()).hexdigest()[:12]


def features(record):
    feats = []
    for f in record.features:
        quals = sorted((k, str(v)) for k, v in f.qualifiers.items())
        feats.append((f.type, str(f.location), quals))
    return hashlib.sha1(repr(feats).encode()).hexdigest()[:10] + "/%d" % len(feats)


def state(record):
    ants = sorted((k, str(v)) for k, v in record.annotations.items())
    return "{}:{}:{}:{}:{}".format(
        type(record).__name__,
        seqhash(record.seq),
        features(record),
        hashlib.sha1(repr(ants).encode()).hexdigest()[:10],
        record.id,
    )


# --- classes ----------------------------------------------------------------

def kit_classes():
    classes = []
    for mod in (ytk, cidar, ecoflex, moclo_kit, plant):
        for name, obj in sorted(vars(mod).items()):
            if (
                inspect.isclass(obj)
                and issubclass(obj, (AbstractModule, AbstractVector, AbstractPart))
                and obj.__module__ == mod.__name__
            ):
                classes.append(obj)
    return classes


KIT = kit_classes()
CORE = list(PUBLIC)


class SapEntry(Entry):
    cutter = SapI


class SapVector(EntryVector):
    cutter = SapI


class BtsEntry(Entry):  # 3' overhang cutter
    cutter = BtsI


class BtsVector(CassetteVector):
    cutter = BtsI


class BluntEntry(Entry):
    cutter = EcoRV


class SapPart(AbstractPart, SapEntry):
    cutter = SapI
    signature = ("ATG", "TAA")


class BtsPart(AbstractPart, BtsEntry):
    cutter = BtsI
    signature = ("AT", "GC")


class BtsVectorPart(AbstractPart, BtsVector):
    cutter = BtsI
    signature = ("AT", "GC")


class ShadowedPart(AbstractPart, SapEntry):  # AbstractPart hides the cutter
    signature = ("ATG", "TAA")


class ShadowedLevel(AbstractModule, ytk.YTKDeviceVector):
    pass


class EntryFirst(Entry, cidar.CIDARPart):
    signature = ("GGAG", "TACT")


class PurePart(AbstractPart):
    cutter = BsaI
    signature = ("AAAA", "CCCC")


class ShortSignature(AbstractPart, Entry):
    cutter = BsaI
    signature = ("AAAA",)


class NoSignature(AbstractPart, Entry):
    cutter = BsaI


class BothPart(AbstractPart, Entry, EntryVector):
    cutter = BsmBI
    signature = ("ACGT", "TTGA")


class LowerPart(ytk.YTKPart, ytk.YTKEntry):
    signature = ("tatg", "atcc")


class CustomOverhang(ytk.YTKPart3):  # subclass of a concrete part
    signature = ("TATG", "GGGG")


class BsmbEntry(ytk.YTKEntry):  # subclass of a concrete module, other enzyme
    cutter = BsmBI


class SameAsParent(ytk.YTKPart3):
    pass


class OwnStructure(cidar.CIDAREntry):
    @staticmethod
    def structure():
        return "(AA)(N*?)(TT)"


EXTRA = [
    SapEntry, SapVector, BtsEntry, BtsVector, BluntEntry, SapPart, BtsPart,
    BtsVectorPart, ShadowedPart, ShadowedLevel, EntryFirst, PurePart, ShortSignature, NoSignature, BothPart, LowerPart,
    CustomOverhang, BsmbEntry, SameAsParent, OwnStructure,
]


def describe_classes():
    for cls in CORE + KIT + EXTRA:
        emit(
            "class",
            cls.__module__.replace("__main__", "equiv"),
            cls.__name__,
            "level=%r" % (getattr(cls, "_level", "<none>"),),
            "cutter=%s" % (cls.cutter,),
            "sig=%r" % (getattr(cls, "signature", "<none>"),),
            "bases=" + ",".join(p.__name__ for p in PUBLIC if issubclass(cls, p)),
            "structure=" + outcome(cls.structure),
            "doc=%s" % (cls.__doc__ is not None),
        )
    for mod in (core, core.modules, core.vectors, core.parts):
        names = getattr(mod, "__all__", None)
        emit("all", mod.__name__, names)


# --- records ----------------------------------------------------------------

RNG = random.Random(60606)


def junk(n, forbid=("GGTCTC", "GAGACC", "CGTCTC", "GAGACG", "GAAGAC", "GTCTTC",
                    "GCTCTTC", "GAAGAGC", "GCAGTG", "CACTGC")):
    while True:
        s = "".join(RNG.choice("ACGT") for _ in range(n))
        if not any(f in s for f in forbid):
            return s


def mixed(s):
    return "".join(c.lower() if RNG.random() < 0.5 else c for c in s)


def registry_records():
    regs = [
        ("ytk", YTKRegistry()), ("ptk", PTKRegistry()), ("cidar", CIDARRegistry()),
        ("ecoflex", EcoFlexRegistry()), ("plant", PlantRegistry()),
    ]
    picked = []
    for name, reg in regs:
        ids = sorted(reg)
        emit("registry", name, len(reg), len(ids), hashlib.sha1(",".join(ids).encode()).hexdigest()[:12])
        for key in ids:
            item = reg[key]
            emit("item", name, item.id, item.name, type(item.entity).__name__,
                 item.resistance, state(item.record), item.record is item.entity.record)
        step = max(1, len(ids) // 4)
        for key in ids[::step][:4]:
            picked.append(reg[key].entity.record)
    combined = CombinedRegistry() << regs[0][1] << regs[1][1]
    emit("combined", len(combined), "pYTK002" in combined, sorted(combined)[:3])
    emit("reg-eq", YTKRegistry() == YTKRegistry(), YTKRegistry() == PTKRegistry(),
         hash(YTKRegistry()) == hash(YTKRegistry()))
    return picked


def synthetic_records():
    recs = []

    def add(name, seq, cls=CircularRecord, **ants):
        rec = cls(Seq(seq), id=name, name=name) if cls is SeqRecord else cls(
            SeqRecord(Seq(seq), id=name, name=name))
        rec.annotations.update(ants)
        recs.append(rec)
        return rec

    bb = junk(60)
    # YTK type 3 like entry, type 1, type 8 vector, 234r
    t3 = "GGTCTCA" + "TATG" + junk(40) + "ATCC" + "TGAGACC" + bb
    add("syn_t3", t3)
    add("syn_t3_lower", t3.lower())
    add("syn_t3_mixed", mixed(t3))
    add("syn_t3_plain", t3, SeqRecord)
    add("syn_t3_plain_linear", t3, SeqRecord, topology="linear")
    add("syn_t3_plain_circular", t3, SeqRecord, topology="Circular")
    wrapped = t3[30:] + t3[:30]
    add("syn_t3_wrap", wrapped)
    add("syn_t3_wrap_plain_linear", wrapped, SeqRecord, topology="linear")
    add("syn_t3_wrap_plain_none", wrapped, SeqRecord)
    add("syn_t1", "GGTCTCA" + "CCCT" + junk(30) + "AACG" + "TGAGACC" + bb)
    add("syn_custom", "GGTCTCA" + "TATG" + junk(30) + "GGGG" + "TGAGACC" + bb)
    add("syn_t3_illegal", "GGTCTCA" + "TATG" + junk(10) + "GGTCTC" + junk(10) + "ATCC" + "TGAGACC" + bb)
    add("syn_t8", junk(20) + "CCCT" + "AGAGACC" + junk(30) + "GGTCTCT" + "CCGA" + junk(20))
    add("syn_t8_wrap", "CC" + junk(30) + "GGTCTCT" + "CCGA" + junk(40) + "CCCT" + "AGAGA")
    add("syn_234r", "AACG" + "TGAGACC" + junk(30) + "GGTCTCA" + "GCTG" + junk(40))
    add("syn_bsmbi_cassette", "CGTCTCA" + "CTGA" + junk(40) + "TTAG" + "TGAGACG" + bb)
    add("syn_bsmbi_vector", junk(20) + "CTGA" + "AGAGACG" + junk(30) + "CGTCTCT" + "TTAG" + junk(20))
    add("syn_product", "CGTCTCA" + "ACGG" + "TCTCA" + "TATG" + junk(30) + "ATCC" + "TGA" + "GACC" + "AGAGACG" + bb)
    add("syn_cidar_dva", "GGTCTCA" + "GGAG" + "TTGTCTTC" + junk(30) + "GAAGACAA" + "TACT" + "AGAGACC" + bb)
    add("syn_cidar_dvk", "GAAGACAA" + "GGAG" + "TGAGACC" + junk(30) + "GGTCTCA" + "GCTT" + "TTGTCTTC" + bb)
    add("syn_cidar_prom", "GGTCTCA" + "GGAG" + junk(30) + "TACT" + "AGAGACC" + bb)
    add("syn_cidar_term", "GGTCTCA" + "AGGT" + junk(30) + "GCTT" + "AGAGACC" + bb)
    add("syn_bbsi_product", "GAAGACAA" + "GGAG" + junk(30) + "TACT" + "AAGTCTTC" + bb)
    add("syn_ecoflex_tu1", "CGTCTCA" + "AAAA" + "CTAT" + "TGAGACC" + junk(30) + "GGTCTCA" + "TGTT" + "CCCC" + "TGAGACG" + bb)
    add("syn_ecoflex_tu2", "GGTCTCA" + "AAAA" + "CTAT" + "TGAGACG" + junk(30) + "CGTCTCA" + "TGTT" + "CCCC" + "TGAGACC" + bb)
    add("syn_ecoflex_prom", "GGTCTCA" + "CTAT" + junk(30) + "GTAC" + "AGAGACC" + bb)
    add("syn_moclo_l1", "GAAGACAA" + "TGCC" + "GGAG" + "TGAGACC" + junk(30) + "GGTCTCA" + "CGCT" + "GCAA" + "TTGTCTTC" + bb)
    add("syn_moclo_pro", "GGTCTCA" + "GGAG" + junk(30) + "TACT" + "AGAGACC" + bb)
    add("syn_moclo_endlinker", "GAAGACAA" + "GCAA" + junk(30) + "GGGA" + "AAGTCTTC" + bb)
    add("syn_moclo_lm", junk(15) + "GGGA" + "TTGTCTTC" + junk(30) + "GAAGACAA" + "TGCC" + junk(15))
    add("syn_sap", "GCTCTTCA" + "ATG" + junk(30) + "TAA" + "TGAAGAGC" + bb)
    add("syn_sap_vector", junk(15) + "ATG" + "AGAAGAGC" + junk(20) + "GCTCTTCT" + "TAA" + junk(15))
    add("syn_bts", "GCAGTG" + "AT" + junk(30) + "GC" + "CACTGC" + bb)
    add("syn_bts_vector", junk(15) + "AT" + "CACTGC" + junk(20) + "GCAGTG" + "GC" + junk(15))
    add("syn_aatt", "AA" + junk(20) + "TT" + junk(5))
    add("syn_junk", junk(120))
    add("syn_tiny", "ATG")
    add("syn_N", "GGTCTCA" + "TATG" + "NNNNNNNN" + "ATCC" + "TGAGACC" + bb)
    # annotated record, with citations
    rec = add("syn_annotated", t3)
    rec.annotations["references"] = ["ref one", "ref two"]
    rec.features.append(SeqFeature(FeatureLocation(8, 30), type="CDS",
                                   qualifiers={"label": ["cds"], "citation": ["[2]"]}))
    rec.features.append(SeqFeature(FeatureLocation(70, 100), type="misc_feature",
                                   qualifiers={"label": ["KanR"], "citation": ["[1]"]}))
    return recs


# --- checks -----------------------------------------------------------------

def probe(cls, record, tag):
    before = state(record)
    ctor = outcome(cls, record)
    if not ctor.startswith("ok:"):
        emit(tag, cls.__name__, record.id, "ctor", ctor)
        return
    entity = cls(record)
    fields = [
        "valid=" + outcome(entity.is_valid),
        "start=" + outcome(entity.overhang_start) if hasattr(entity, "overhang_start") else "start=<none>",
        "end=" + outcome(entity.overhang_end) if hasattr(entity, "overhang_end") else "end=<none>",
        "target=" + outcome(entity.target_sequence) if hasattr(entity, "target_sequence") else "target=<none>",
    ]
    if hasattr(entity, "placeholder_sequence"):
        fields.append("placeholder=" + outcome(entity.placeholder_sequence))
    fields.append("valid2=" + outcome(entity.is_valid))
    fields.append("same=%s" % (entity.record is record and entity.seq is record.seq))
    fields.append("state=%s" % (before == state(record)))
    emit(tag, cls.__name__, record.id, *fields)


def typing_checks(records):
    classes = CORE + KIT + EXTRA
    # pass 1: parents first (the order of definition), every record
    for cls in classes:
        for rec in records:
            probe(cls, rec, "p1")
    # pass 2: shuffled (class, record) pairs
    pairs = [(c, r) for c in classes for r in records]
    RNG.shuffle(pairs)
    for cls, rec in pairs[:700]:
        probe(cls, rec, "p2")
    # classes created once their parents have been used
    class LateOverhang(ytk.YTKPart2):
        signature = ("AACG", "GGGG")

    class LateEnzyme(cidar.CIDARProduct):
        cutter = BsaI

    class LateVector(ytk.YTKPart8):
        signature = ("CTGA", "TTAG")
        cutter = BsmBI

    LateTwin = type(str("LateTwin"), (ytk.YTKPart3a,), {})
    for cls in (LateOverhang, LateEnzyme, LateVector, LateTwin):
        emit("late", cls.__name__, outcome(cls.structure), getattr(cls, "_level", None))
        for rec in records:
            probe(cls, rec, "p3")
    # rotations: the match wraps the origin at some point
    for rec in records[:6]:
        if not isinstance(rec, CircularRecord):
            continue
        for shift in (1, 7, len(rec) // 3, len(rec) - 5):
            rot = rec >> shift
            rot.id = "{}>>{}".format(rec.id, shift)
            for cls in (ytk.YTKEntry, ytk.YTKPart3, ytk.YTKPart8, cidar.CIDAREntry,
                        ecoflex.EcoFlexCassetteVector, moclo_kit.MoCloEntry):
                probe(cls, rot, "rot")


def characterize_checks(records):
    bases = [ytk.YTKPart, cidar.CIDARPart, ecoflex.EcoFlexPart, moclo_kit.MoCloPart,
             ytk.YTKPart3, AbstractPart]
    for base in bases:
        for rec in records:
            emit("characterize", base.__name__, rec.id, outcome(base.characterize, rec))


def instantiate_checks():
    rec = CircularRecord(SeqRecord(Seq("ATGC"), id="x"))
    for cls in CORE + EXTRA:
        emit("new", cls.__name__, outcome(cls, rec))
    emit("new-bad", outcome(ytk.YTKEntry, None), outcome(ytk.YTKEntry, "ATGC"),
         outcome(ytk.YTKEntry), outcome(ytk.YTKEntry, rec, 1))
    ent = ytk.YTKEntry(SeqRecord(Seq("ATGC"), id="y", annotations={"topology": None}))
    emit("topology-none", outcome(ent.is_valid))


def assembly_checks():
    from tests._utils import AssemblyTestCase

    loader = AssemblyTestCase("load_data")
    res, vec, mods = loader.load_data("ytk_integration_vector")
    typed = {
        "pYTK008.gb": ytk.YTKPart1, "pYTK047.gb": ytk.YTKPart234r,
        "pYTK073.gb": ytk.YTKPart5, "pYTK074.gb": ytk.YTKPart6,
        "pYTK086.gb": ytk.YTKPart7, "pYTK092.gb": ytk.YTKPart8b,
    }
    names = sorted(typed)

    def build(keys):
        return [typed[k](mods[k]) for k in keys]

    vector = ytk.YTKPart8a(vec)
    try:
        out = vector.assemble(*build(names), id="asm", name="asm")
    except Exception as exc:
        emit("assembly", "ok", "exc:{}:{}".format(type(exc).__name__, exc))
    else:
        emit("assembly", "ok", describe(out), len(out) == len(res),
             str(out.seq) in str(res.seq + res.seq), sorted(out.annotations))
    emit("assembly", "missing", outcome(ytk.YTKPart8a(vec).assemble, *build(names[:-1])))
    emit("assembly", "duplicate", outcome(ytk.YTKPart8a(vec).assemble, *build(names + names[:1])))
    emit("assembly", "entry-typed", outcome(ytk.YTKPart8a(vec).assemble,
                                            *[ytk.YTKEntry(mods[k]) for k in names]))
    emit("assembly", "wrong-vector", outcome(ytk.YTKPart8(vec).assemble, *build(names)))
    emit("assembly", "generic-vector", outcome(ytk.YTKCassetteVector(vec).assemble, *build(names)))
    for k in names:
        emit("assembly-state", k, state(mods[k]))
    emit("assembly-state", "vector", state(vec))

    # synthetic level 2 assembly (BsmBI cassettes in a BsmBI device vector)
    bb = junk(50)
    dv = CircularRecord(SeqRecord(Seq(
        junk(20) + "CTGA" + "AGAGACG" + junk(30) + "CGTCTCT" + "TTAG" + junk(20)), id="dv", name="dv"))
    c1 = CircularRecord(SeqRecord(Seq(
        "CGTCTCA" + "CTGA" + junk(40) + "GGCA" + "TGAGACG" + bb), id="c1", name="c1"))
    c2 = CircularRecord(SeqRecord(Seq(
        mixed("CGTCTCA" + "GGCA" + junk(40) + "TTAG" + "TGAGACG" + bb)), id="c2", name="c2"))
    c2p = SeqRecord(Seq(str(c2.seq)), id="c2p", name="c2p")
    c3 = CircularRecord(SeqRecord(Seq(
        "CGTCTCA" + "GGCA" + junk(20) + "TTAG" + "TGAGACG" + bb), id="c3", name="c3"))
    for label, vcls, inserts in (
        ("device", ytk.YTKDeviceVector, [c1, c2]),
        ("device-rev", ytk.YTKDeviceVector, [c2, c1]),
        ("device-plain", ytk.YTKDeviceVector, [c1, c2p]),
        ("device-missing", ytk.YTKDeviceVector, [c1]),
        ("device-dup", ytk.YTKDeviceVector, [c1, c2, c3]),
        ("device-cidar", cidar.CIDAREntryVector, [c1, c2]),
        ("device-generic", ecoflex.EcoFlexDeviceVector, [c1, c2]),
    ):
        emit("assembly", label, outcome(
            vcls(dv).assemble, *[ytk.YTKCassette(c) for c in inserts]))
    emit("assembly", "device-wrongtype", outcome(
        ytk.YTKDeviceVector(dv).assemble, ytk.YTKEntry(c1), ytk.YTKCassette(c2)))
    for rec in (dv, c1, c2, c2p, c3):
        emit("assembly-state", state(rec))


def regex_checks(records):
    rx = DNARegex("GGTCTCN(NNNN)(NN*N)(NNNN)NGAGACC")
    emit("regex", rx.pattern, rx.regex.pattern)
    for pat in ("AT(N*?)GC", "RYSWKMBDHVN", "a(t)g", "(AA"):
        emit("regex-new", pat, outcome(lambda p=pat: DNARegex(p).regex.pattern))
    for rec in records[:12]:
        for linear in (True, False):
            m = rx.search(rec, linear=linear)
            if m is None:
                emit("regex-search", rec.id, linear, None)
            else:
                emit("regex-search", rec.id, linear, m.span(0), m.span(1), m.start(), m.end(),
                     describe(m.group(0)), describe(m.group(2)))
    emit("regex-type", outcome(rx.search, "ATGC"), outcome(rx.search, Seq("GGTCTCAAAAATTTTCCCCAGAGACC")) is not None)
    emit("lettermap", sorted(DNARegex._lettermap.items()))


def threaded_checks(records):
    """Several threads type records at the same time (fresh classes)."""
    from concurrent.futures import ThreadPoolExecutor

    fresh = []
    for i, parent in enumerate([ytk.YTKEntry, ytk.YTKPart3, ytk.YTKPart8, cidar.CIDARPromoter,
                                ecoflex.EcoFlexCassetteVector, moclo_kit.MoCloEndLinker]):
        fresh.append(type(str("Threaded%d" % i), (parent,), {}))
    jobs = [(cls, rec) for rec in records for cls in fresh] * 2

    def job(pair):
        cls, rec = pair
        entity = cls(rec)
        return (cls.__name__, rec.id, outcome(entity.is_valid), outcome(entity.overhang_start))

    with ThreadPoolExecutor(max_workers=6) as pool:
        results = list(pool.map(job, jobs))
    for row in sorted(results):
        emit("threaded", *row)


def main():
    describe_classes()
    records = registry_records() + synthetic_records()
    emit("records", len(records))
    instantiate_checks()
    typing_checks(records)
    characterize_checks(records[::3])
    assembly_checks()
    regex_checks(records)
    threaded_checks(records[::2])
    for rec in records:
        emit("final-state", state(rec))
    digest = hashlib.sha256("\n".join(LINES).encode("utf-8")).hexdigest()
    if "--dump" in sys.argv:
        print("\n".join(LINES))
    print("lines:", len(LINES))
    print("digest:", digest)


if __name__ == "__main__":
    main()
