# coding: utf-8
"""Differential test for the rewrite of cutter_check and of the two target_sequence methods."""
import sys

sys.path.insert(0, "/tmp/agentsR4/R15")
import tests  # noqa: E402,F401

import hashlib  # noqa: E402
import random  # noqa: E402
import re  # noqa: E402
import warnings  # noqa: E402

warnings.simplefilter("ignore")

from Bio import Restriction  # noqa: E402
from Bio.Seq import Seq  # noqa: E402
from Bio.SeqRecord import SeqRecord  # noqa: E402
from Bio.SeqFeature import SeqFeature, FeatureLocation, CompoundLocation  # noqa: E402
from Bio.Restriction import BsaI, BpiI, BsmBI, SapI, BseRI, BsgI, BtsI  # noqa: E402

from moclo.record import CircularRecord  # noqa: E402
from moclo.core.parts import AbstractPart  # noqa: E402
from moclo.core.modules import AbstractModule, Product, Entry, Cassette, Device  # noqa: E402
from moclo.core.vectors import AbstractVector, EntryVector, CassetteVector, DeviceVector  # noqa: E402

rng = random.Random(150006)
ADDR = re.compile(r"0x[0-9a-fA-F]+")
results = []


def outcome(fn, *args, **kwargs):
    try:
        return ("ok", fn(*args, **kwargs))
    except Exception as exc:  # noqa
        return ("exc", type(exc).__name__, ADDR.sub("0x?", str(exc)))


def show(rec):
    if isinstance(rec, Seq):
        return str(rec)
    if not isinstance(rec, SeqRecord):
        return repr(rec)
    return (
        type(rec).__name__,
        str(rec.seq),
        rec.id,
        rec.name,
        [
            (f.type, f.id, repr(f.location), sorted((k, repr(v)) for k, v in f.qualifiers.items()))
            for f in rec.features
        ],
        sorted((k, repr(v)) for k, v in rec.annotations.items()),
    )


def randseq(n, alphabet="ACGT"):
    return "".join(rng.choice(alphabet) for _ in range(n))


# --- 1. cutter_check through the constructors of every structured class ----
BASES = [AbstractModule, Product, Entry, Cassette, Device, AbstractVector, EntryVector, CassetteVector,
         DeviceVector, AbstractPart]
dummy = CircularRecord(Seq("ATGC"), id="dummy")


class OnlyBlunt(object):
    """Declares is_blunt only."""

    def __init__(self, value):
        self.value = value

    def is_blunt(self):
        return self.value

    def __repr__(self):
        return "OnlyBlunt({!r})".format(self.value)


class Talkative(object):
    """Records which predicates were consulted, returns arbitrary truthy/falsy values."""

    def __init__(self, blunt, unknown):
        self.blunt, self.unknown, self.calls = blunt, unknown, []

    def is_blunt(self):
        self.calls.append("is_blunt")
        if isinstance(self.blunt, Exception):
            raise self.blunt
        return self.blunt

    def is_unknown(self):
        self.calls.append("is_unknown")
        if isinstance(self.unknown, Exception):
            raise self.unknown
        return self.unknown


enzymes = sorted(Restriction.AllEnzymes, key=str)
for enz in enzymes:
    base = rng.choice(BASES)
    cls = type(str("C_" + str(enz)), (base,), {"cutter": enz})
    o = outcome(cls, dummy)
    results.append(("enz", str(enz), base.__name__, bool(enz.is_blunt()), bool(enz.is_unknown()),
                    ("ok", type(o[1]).__name__, o[1].record is dummy) if o[0] == "ok" else o))

for base in BASES:
    results.append(("abstract", base.__name__, outcome(base, dummy)[:3] if outcome(base, dummy)[0] == "exc"
                    else "ok"))
    for bad in (None, "BsaI", 3, object(), OnlyBlunt(True), OnlyBlunt(False), OnlyBlunt(0), NotImplemented,
                Ellipsis):
        cls = type(str("Bad"), (base,), {"cutter": bad})
        o = outcome(cls, dummy)
        results.append(("bad", base.__name__, ADDR.sub("0x?", repr(bad)), o if o[0] == "exc" else "ok"))
    for blunt in (True, False, 0, 1, "", "yes", [], [0], None, ValueError("boom blunt")):
        for unknown in (True, False, 0, "x", None, KeyError("boom unknown")):
            t = Talkative(blunt, unknown)
            cls = type(str("Talk"), (base,), {"cutter": t})
            o = outcome(cls, dummy)
            results.append(("talk", base.__name__, repr(blunt), repr(unknown), o if o[0] == "exc" else "ok",
                            tuple(t.calls)))


# --- 2. target_sequence of modules and vectors -----------------------------
def three_prime(base, cutter_):
    site = cutter_.site
    rcsite = str(Seq(site).reverse_complement())
    gap = "N" * (cutter_.elucidate().index("_") - len(site))
    ov = "N" * abs(cutter_.ovhg)
    if base is AbstractModule:
        pattern = "{s}{g}({o})(NN*N)({o}){g}{r}".format(s=site, g=gap, o=ov, r=rcsite)
    else:
        pattern = "({o})({g}{r}N*{s}{g})({o})".format(s=site, g=gap, o=ov, r=rcsite)

    class Three(base):
        cutter = cutter_

        @classmethod
        def structure(cls):
            return pattern

    return Three


class TwoGroups(AbstractModule):
    """A structure that forgets the third group."""

    cutter = BsaI

    @classmethod
    def structure(cls):
        return "GGTCTCN(NNNN)(NN*N)NNNNNGAGACC"


class TwoGroupsVector(AbstractVector):
    cutter = BsaI

    @classmethod
    def structure(cls):
        return "N(NNNN)(NGAGACCN*GGTCTCN)NNNNN"


CLASSES = {}
for c in (BsaI, BpiI, BsmBI, SapI):
    CLASSES[c, "mod"] = type(str("Mod" + str(c)), (AbstractModule,), {"cutter": c})
    CLASSES[c, "vec"] = type(str("Vec" + str(c)), (AbstractVector,), {"cutter": c})
for c in (BseRI, BsgI, BtsI):
    CLASSES[c, "mod"] = three_prime(AbstractModule, c)
    CLASSES[c, "vec"] = three_prime(AbstractVector, c)
CUTTERS = [BsaI, BpiI, BsmBI, SapI, BseRI, BsgI, BtsI]


def features(n, rid):
    feats = []
    for _ in range(rng.randint(0, 5)):
        a = rng.randint(0, n - 1)
        b = rng.randint(a + 1, n)
        if rng.random() < 0.25 and b < n:
            loc = CompoundLocation([FeatureLocation(b, n, 1), FeatureLocation(0, a + 1, 1)])
        else:
            loc = FeatureLocation(a, b, rng.choice([1, -1, None]))
        feats.append(SeqFeature(loc, type=rng.choice(["CDS", "source", "misc_feature"]),
                                qualifiers={"label": ["{}:{}:{}".format(rid, a, b)]}))
    if rng.random() < 0.3:
        feats.append(SeqFeature(FeatureLocation(0, n), type="source", qualifiers={"label": ["whole"]}))
    return feats


for case in range(700):
    cutter = rng.choice(CUTTERS)
    kind = rng.choice(["mod", "vec"])
    cls = CLASSES[cutter, kind]
    if rng.random() < 0.06:
        cls, cutter = (TwoGroups, BsaI) if kind == "mod" else (TwoGroupsVector, BsaI)
    site = cutter.site
    rcsite = str(Seq(site).reverse_complement())
    el = cutter.elucidate()
    gap = min(el.index("^"), el.index("_")) - len(site)
    ov = abs(cutter.ovhg)
    o1, o2 = randseq(ov), randseq(ov)
    inner, outer = randseq(rng.randint(2, 30)), randseq(rng.randint(0, 30))
    if kind == "mod":
        s = site + randseq(gap) + o1 + inner + o2 + randseq(gap) + rcsite + outer
    else:
        s = outer + o1 + randseq(gap) + rcsite + inner + site + randseq(gap) + o2 + randseq(rng.randint(0, 5))
    r = rng.random()
    if r < 0.15:
        s = s.lower()
    elif r < 0.3:
        s = "".join(rng.choice([c, c.lower()]) for c in s)
    if rng.random() < 0.1:
        at = rng.randrange(len(s))
        s = s[:at] + rng.choice("ACGT") + s[at + 1:]
    rid = "r{}".format(case)
    n = len(s)
    topo = rng.choice(["circular", "circular", "circular", "Circular", None, None, None, "linear"])
    ants = {} if topo is None else {"topology": topo}
    if topo == "linear":
        rec = SeqRecord(Seq(s), id=rid, name="nm", features=features(n, rid), annotations=ants)
    else:
        rec = CircularRecord(Seq(s), id=rid, name="nm", features=features(n, rid), annotations=ants)
        # make the match wrap around the origin, with rotations beyond the length or negative
        rec = rec >> rng.choice([0, 0, rng.randint(0, n), rng.randint(-3 * n, 3 * n), n, -1])
    before = show(rec)
    ent = cls(rec)
    row = ["T", case, cls.__name__, str(cutter), kind, topo, ent.is_valid()]
    for meth in ("target_sequence", "overhang_start", "overhang_end", "placeholder_sequence",
                 "target_sequence"):
        if hasattr(ent, meth):
            o = outcome(getattr(ent, meth))
            row.append(show(o[1]) if o[0] == "ok" else o)
    row.append(show(rec) == before)
    # a fresh wrapper where target_sequence is the very first call
    fresh = cls(rec)
    o = outcome(fresh.target_sequence)
    row.append(show(o[1]) if o[0] == "ok" else o)
    results.append(tuple(row))

# --- 3. assemblies end-to-end ---------------------------------------------
for case in range(120):
    cutter = rng.choice([BsaI, BpiI, BsmBI, BseRI])
    Mod, Vec = CLASSES[cutter, "mod"], CLASSES[cutter, "vec"]
    site, rcsite = cutter.site, str(Seq(cutter.site).reverse_complement())
    el = cutter.elucidate()
    gap = min(el.index("^"), el.index("_")) - len(site)
    ov = abs(cutter.ovhg)
    k = rng.randint(1, 3 if ov > 2 else 2)
    ovs = []
    while len(ovs) < k + 1:
        o = randseq(ov)
        rc = str(Seq(o).reverse_complement())
        if o not in ovs and rc not in ovs and o != rc:
            ovs.append(o)
    mods = []
    for i in range(k):
        s = site + randseq(gap) + ovs[i] + randseq(rng.randint(2, 20)) + ovs[i + 1] + randseq(gap) + rcsite + randseq(9)
        mods.append(Mod(CircularRecord(Seq(s), id="m{}_{}".format(case, i), features=features(len(s), "m")) >> rng.randint(0, 30)))
    s = randseq(8) + ovs[0] + randseq(gap) + rcsite + randseq(12) + site + randseq(gap) + ovs[k] + randseq(8)
    vec = Vec(CircularRecord(Seq(s), id="v{}".format(case), features=features(len(s), "v")) >> rng.randint(0, 30))
    rng.shuffle(mods)
    o = outcome(vec.assemble, *mods)
    results.append(("A", case, str(cutter), show(o[1]) if o[0] == "ok" else o))

digest = hashlib.sha256(repr(results).encode("utf-8")).hexdigest()
print(len(results), digest)
