# coding: utf-8
"""Differential test for the rotation code of moclo.record.CircularRecord.

Run as:  cd /tmp/agents5/C13 && /venv/bin/python pairs_out/C13_p?/equiv.py
Prints one digest; the digest must be identical before / after a
behaviour-preserving refactoring.
"""
import hashlib
import random
import sys
import warnings

sys.path.insert(0, "/tmp/agents5/C13")
import tests  # noqa: F401,E402  (splices the kits into the moclo namespace)

from Bio.Seq import Seq  # noqa: E402
from Bio.SeqFeature import (  # noqa: E402
    AfterPosition,
    BeforePosition,
    CompoundLocation,
    ExactPosition,
    FeatureLocation,
    SeqFeature,
)
from Bio.SeqRecord import SeqRecord  # noqa: E402

from moclo.record import CircularRecord  # noqa: E402

LINES = []


def emit(*items):
    LINES.append(" | ".join(str(i) for i in items))


# --- description of results -------------------------------------------------


def describe_location(loc):
    if loc is None:
        return "None"
    parts = []
    for p in loc.parts:
        parts.append(
            "{}({!r},{!r},{!r},{!r},{!r})".format(
                type(p).__name__, p.start, p.end, p.strand, p.ref, p.ref_db
            )
        )
    op = getattr(loc, "operator", "-")
    return "{}[{}]<{}>".format(type(loc).__name__, op, ";".join(parts))


def describe_feature(f):
    return "F({!r},{!r},{},{!r})".format(
        f.type, f.id, describe_location(f.location), sorted(f.qualifiers.items())
    )


def describe(rec):
    if not isinstance(rec, SeqRecord):
        return "{}:{!r}".format(type(rec).__name__, rec)
    return "{}(seq={!r}:{} id={!r} name={!r} desc={!r} dbx={!r} ann={!r} let={!r} feats=[{}])".format(
        type(rec).__name__,
        str(rec.seq),
        type(rec.seq).__name__,
        rec.id,
        rec.name,
        rec.description,
        rec.dbxrefs,
        sorted(rec.annotations.items(), key=repr),
        sorted((k, type(v).__name__, list(v)) for k, v in rec.letter_annotations.items()),
        ", ".join(describe_feature(f) for f in rec.features),
    )


def sharing(src, out):
    """Which mutable pieces of ``out`` are the very objects of ``src``."""
    if not isinstance(out, SeqRecord):
        return "-"
    flags = [
        out is src,
        out.seq is src.seq,
        out.annotations is src.annotations,
        out.dbxrefs is src.dbxrefs,
        out.features is src.features,
        out.letter_annotations is src.letter_annotations,
    ]
    for fo, fs in zip(out.features, src.features):
        flags.append(fo is fs)
        flags.append(fo.qualifiers is fs.qualifiers)
        flags.append(fo.location is fs.location)
    return "".join("1" if f else "0" for f in flags)


def attempt(label, src, thunk):
    before = describe(src) if src is not None else None
    with warnings.catch_warnings(record=True) as caught:
        warnings.simplefilter("always")
        try:
            out = thunk()
            res = "OK " + describe(out) + " share=" + (sharing(src, out) if src is not None else "-")
        except Exception as exc:  # noqa
            out = None
            res = "EXC {}: {}".format(type(exc).__name__, exc)
    warns = [(w.category.__name__, str(w.message)) for w in caught]
    after = describe(src) if src is not None else None
    emit(label, res, "warn=%r" % (warns,), "input_unchanged=%s" % (before == after), after)
    return out


# --- generation of inputs ---------------------------------------------------

rng = random.Random(20260927)
ALPHABET = "abcdefghijklmnopqrstuvwxyzABCDEFGHIJKLMNOPQRSTUVWXYZ"


def random_position(p):
    roll = rng.random()
    if roll < 0.08:
        return BeforePosition(p)
    if roll < 0.16:
        return AfterPosition(p)
    if roll < 0.6:
        return ExactPosition(p)
    return p


def random_part(n, overflow=True):
    start = rng.randrange(0, n)
    if overflow and rng.random() < 0.3:
        end = rng.randrange(start, start + n + 1)  # may go past the origin
    else:
        end = rng.randrange(start, n + 1)
    strand = rng.choice([1, -1, None, 0, 1, -1])
    kwargs = {}
    if rng.random() < 0.1:
        kwargs["ref"] = "X{}".format(rng.randrange(100))
        if rng.random() < 0.5:
            kwargs["ref_db"] = "db"
    return FeatureLocation(random_position(start), random_position(end), strand=strand, **kwargs)


def random_location(n):
    roll = rng.random()
    if roll < 0.06:
        return None
    if roll < 0.16:
        return FeatureLocation(0, n, strand=rng.choice([1, -1, None]))
    if roll < 0.55 or n < 2:
        return random_part(n)
    if roll < 0.65:
        # origin-spanning feature written as a join
        a = rng.randrange(1, n)
        b = rng.randrange(1, a + 1)
        strand = rng.choice([1, -1])
        parts = [FeatureLocation(a, n, strand=strand), FeatureLocation(0, b, strand=strand)]
        if strand < 0:
            parts.reverse()
        return CompoundLocation(parts)
    if roll < 0.72:
        # compound location spanning exactly 0..n
        a = rng.randrange(1, n)
        return CompoundLocation([FeatureLocation(0, a, strand=1), FeatureLocation(a, n, strand=1)])
    parts = [random_part(n) for _ in range(rng.randrange(2, 5))]
    return CompoundLocation(parts, operator=rng.choice(["join", "order"]))


def random_feature(n, i):
    loc = random_location(n)
    ftype = rng.choice(["source", "source", "CDS", "promoter", "misc_feature", "gene"])
    quals = {}
    if rng.random() < 0.7:
        quals["label"] = ["f{}".format(i)]
    if rng.random() < 0.3:
        quals["note"] = ["n{}".format(i), "color: #{}".format(i)]
    fid = "feat{}".format(i) if rng.random() < 0.5 else "<unknown id>"
    return SeqFeature(loc, type=ftype, id=fid, qualifiers=quals)


def random_record(n, circular_cls=True):
    if rng.random() < 0.5:
        letters = "".join(rng.sample(ALPHABET, n))
    else:
        letters = "".join(rng.choice("ACGTacgtNn") for _ in range(n))
    feats = [random_feature(n, i) for i in range(rng.randrange(0, 5))] if n else []
    ann = None
    roll = rng.random()
    if roll < 0.3:
        ann = {"topology": rng.choice(["circular", "Circular", "CIRCULAR"]), "molecule_type": "DNA"}
    elif roll < 0.6:
        ann = {"molecule_type": "DNA", "organism": "synthetic", "references": ["r1", "r2"]}
    elif roll < 0.7:
        ann = {}
    letan = None
    roll = rng.random()
    if roll < 0.35:
        letan = {"phred_quality": [rng.randrange(60) for _ in range(n)]}
    elif roll < 0.5:
        letan = {"track": "".join(rng.choice("xyzw") for _ in range(n)), "idx": list(range(n))}
    elif roll < 0.6:
        letan = {"tup": tuple(range(n))}
    kwargs = dict(
        id="rec{}".format(rng.randrange(1000)),
        name="name{}".format(rng.randrange(1000)),
        description=rng.choice(["<unknown description>", "a plasmid", ""]),
        dbxrefs=rng.choice([None, ["db:1"], ["db:1", "db:2"]]),
        features=feats,
        annotations=ann,
        letter_annotations=letan,
    )
    if circular_cls:
        return CircularRecord(Seq(letters), **kwargs)
    return SeqRecord(Seq(letters), **kwargs)


# --- 1. rotations of generated records --------------------------------------

N_RECORDS = 260
for case in range(N_RECORDS):
    n = rng.choice([1, 2, 3, 4, 5, 7, 10, 12, 13, 20])
    rec = random_record(n)
    tag = "rot#{}".format(case)
    emit(tag, "input", describe(rec))
    ks = {0, 1, -1, n, -n, n - 1, n + 1, 2 * n, 2 * n + 3, -2 * n - 1, 3 * n + 2, rng.randrange(-50, 50)}
    for k in sorted(ks):
        attempt("{} >> {}".format(tag, k), rec, lambda: rec >> k)
        attempt("{} << {}".format(tag, k), rec, lambda: rec << k)
    # compositions
    for _ in range(3):
        a, b, c = (rng.randrange(-2 * n, 3 * n + 1) for _ in range(3))
        attempt("{} >>{}>>{}".format(tag, a, b), rec, lambda: (rec >> a) >> b)
        attempt("{} >>{}<<{}>>{}".format(tag, a, b, c), rec, lambda: ((rec >> a) << b) >> c)
        attempt("{} <<{}<<{}".format(tag, a, b), rec, lambda: (rec << a) << b)
    # slicing / indexing / containment / reverse complement of rotated records
    k = rng.randrange(0, n + 2)
    i, j = sorted((rng.randrange(0, n + 1), rng.randrange(0, n + 1)))
    attempt("{} (<<{})[{}:{}]".format(tag, k, i, j), rec, lambda: (rec << k)[i:j])
    attempt("{} (>>{})[{}:]".format(tag, k, i), rec, lambda: (rec >> k)[i:])
    attempt("{} [{}]".format(tag, i), rec, lambda: rec[i])
    attempt("{} [::-1]".format(tag), rec, lambda: rec[::-1])
    if all(c in "ACGTacgtNn" for c in str(rec.seq)):
        attempt("{} rc>>{}".format(tag, k), rec, lambda: rec.reverse_complement() >> k)
        attempt("{} rc(id)".format(tag), rec, lambda: rec.reverse_complement(id=True, name=True, annotations=True))
    probe = (str(rec.seq) * 2)[n - 1 : n + 2]
    attempt("{} in".format(tag), rec, lambda: (probe in rec, str(rec.seq) * 2 in rec, "" in rec))
    attempt("{} + ".format(tag), rec, lambda: rec + rec)
    attempt("{} radd".format(tag), rec, lambda: "AC" + rec)

# --- 2. construction from plain records -------------------------------------

for case in range(80):
    n = rng.choice([1, 3, 6, 11])
    plain = random_record(n, circular_cls=False)
    tag = "init#{}".format(case)
    if case % 7 == 0:
        plain.annotations["topology"] = rng.choice(["linear", "Linear"])
    if case % 11 == 0:
        plain.annotations["topology"] = 3  # not a string
    out = attempt(tag, plain, lambda: CircularRecord(plain))
    if out is not None:
        k = rng.randrange(-n, 2 * n)
        attempt("{} >> {}".format(tag, k), out, lambda: out >> k)
        # the copy must be detached from the plain record
        if out.features:
            out.features[0].qualifiers["touched"] = ["yes"]
        out.annotations["touched"] = True
        emit(tag, "after touching the copy", describe(plain))
    attempt(tag + " again", plain, lambda: CircularRecord(CircularRecord(plain), id="ignored"))

for ann in ({"topology": "linear"}, {"topology": "LINEAR"}, {"topology": "circular"}, {}, None, {"topology": None}):
    attempt("init ann=%r" % (ann,), None, lambda: CircularRecord(Seq("ATGC"), id="x", annotations=ann))

# --- 3. odd arguments --------------------------------------------------------

empty = CircularRecord(Seq(""), id="empty")
base = CircularRecord(
    Seq("abcdefghij"),
    id="odd",
    features=[SeqFeature(FeatureLocation(8, 12, strand=-1), type="CDS")],
    letter_annotations={"q": list(range(10))},
)
for k in (0, 1, -3):
    attempt("empty >> %r" % k, empty, lambda: empty >> k)
    attempt("empty << %r" % k, empty, lambda: empty << k)
for k in (2.0, 2.5, "2", None, True, False, 10 ** 20, -(10 ** 20) + 3):
    attempt("odd >> %r" % (k,), base, lambda: base >> k)
    attempt("odd << %r" % (k,), base, lambda: base << k)


class Shouting(CircularRecord):
    def __rshift__(self, index):
        emit("Shouting.__rshift__", index)
        return super(Shouting, self).__rshift__(index)


sh = Shouting(base)
for k in (0, 3, -3, 13, 10):
    attempt("sub >> %r" % k, sh, lambda: sh >> k)
    attempt("sub << %r" % k, sh, lambda: sh << k)

# --- 4. parts of a real kit (users of the `<<` operator) ---------------------

try:
    from moclo.registry.base import CombinedRegistry
    from moclo.registry.ytk import YTKRegistry, PTKRegistry

    registry = CombinedRegistry() << YTKRegistry() << PTKRegistry()
    for key in sorted(registry):
        item = registry[key]
        entity = item.entity
        attempt("ytk %s target" % key, entity.record, lambda: entity.target_sequence())
        if hasattr(entity, "placeholder_sequence"):
            attempt("ytk %s placeholder" % key, entity.record, lambda: entity.placeholder_sequence())
except ImportError as exc:  # pragma: no cover
    emit("registry unavailable", exc)

from moclo.kits import ytk  # noqa: E402

for cls in (ytk.YTKPart1, ytk.YTKPart8a, ytk.YTKCassetteVector, ytk.YTKEntryVector):
    for text in ("ATGC" * 10, "", "GGTCTCACCCTATGATGCGAGACC" + "ACGT" * 5):
        rec = CircularRecord(Seq(text), id="bad")
        attempt("bad %s %d" % (cls.__name__, len(text)), rec, lambda: cls(rec).target_sequence())

# --- 5. synthetic parts: both cutting directions, matches wrapping the origin --

from Bio.Restriction import BsaI, BseRI  # noqa: E402
from moclo.core import AbstractModule, AbstractVector  # noqa: E402


class Mod5(AbstractModule):
    cutter = BsaI


class Vec5(AbstractVector):
    cutter = BsaI


class Mod3(AbstractModule):
    cutter = BseRI

    @classmethod
    def structure(cls):
        return "GAGGAGNNNNNNNN(NN)(N*)(NN)NNNNNNNNCTCCTC"


class Vec3(AbstractVector):
    cutter = BseRI

    @classmethod
    def structure(cls):
        return "(NN)(NNNNNNNNCTCCTCN*GAGGAGNNNNNNNN)(NN)"


class Mod3Default(AbstractModule):
    cutter = BseRI  # the generated pattern is not a valid regex


class NoCutter(AbstractModule):
    pass


def noise(k, alphabet="ACT"):
    # no G: cannot create a BsaI (GGTCTC / GAGACC) or BseRI (GAGGAG / CTCCTC) site
    return "".join(rng.choice(alphabet) for _ in range(k))


for case in range(60):
    insert = noise(rng.randrange(0, 12))
    backbone = noise(rng.randrange(3, 15))
    oh5, oh3 = noise(4), noise(4)
    plasmids = {
        "Mod5": "GGTCTCA" + oh5 + insert + oh3 + "TGAGACC" + backbone,
        "Vec5": oh5 + "AGAGACC" + insert + "GGTCTCT" + oh3 + backbone,
        "Mod3": "GAGGAG" + noise(8) + oh5[:2] + insert + oh3[:2] + noise(8) + "CTCCTC" + backbone,
        "Vec3": oh5[:2] + noise(8) + "CTCCTC" + insert + "GAGGAG" + noise(8) + oh3[:2] + backbone,
    }
    for name, text in sorted(plasmids.items()):
        cls = globals()[name]
        if case % 3 == 1:
            text = "".join(c.lower() if rng.random() < 0.4 else c for c in text)
        n = len(text)
        feats = [random_feature(n, i) for i in range(rng.randrange(0, 4))]
        feats = [f for f in feats if f.location is not None]
        rec = CircularRecord(
            Seq(text),
            id="syn{}".format(case),
            name="syn",
            features=feats,
            annotations=rng.choice([{"topology": "circular"}, {}, {"molecule_type": "DNA"}]),
            letter_annotations={"idx": list(range(n))} if case % 2 else None,
        )
        k = rng.randrange(0, n)
        rec = rec >> k  # the match may now wrap the origin
        part = cls(rec)
        tag = "syn#{} {} >>{}".format(case, name, k)
        attempt(tag + " target", rec, lambda: part.target_sequence())
        attempt(tag + " target again", rec, lambda: part.target_sequence())
        if case % 10 == 0:
            other = Mod3Default if name.endswith("3") else Mod5
            attempt(tag + " as " + other.__name__, rec, lambda: other(rec).target_sequence())
        if case % 15 == 0:
            linear = SeqRecord(Seq(text), id="lin", annotations={"topology": "linear"})
            attempt(tag + " linear", linear, lambda: cls(linear).target_sequence())
attempt("no cutter", None, lambda: NoCutter(CircularRecord(Seq("ACGT"), id="x")).target_sequence())

digest = hashlib.sha256("\n".join(LINES).encode("utf-8")).hexdigest()
if "--dump" in sys.argv:
    sys.stdout.write("\n".join(LINES) + "\n")
print("results: {}  digest: {}".format(len(LINES), digest))
