#!/usr/bin/env python
# coding: utf-8
"""Differential test: prints a digest of the observable behaviour of the
assembly machinery, error classes and helper utilities of moclo.

Run as:  cd /tmp/agentsR3/R10 && /venv/bin/python refactor_out/R10_<i>/equiv.py
(`-v` additionally dumps every recorded line, to diff two runs by hand).
"""
import sys

sys.path.insert(0, "/tmp/agentsR3/R10")
import tests  # noqa: F401,E402  (splices the kits into the moclo namespace)

import hashlib  # noqa: E402
import pickle  # noqa: E402
import random  # noqa: E402
import re  # noqa: E402
import traceback  # noqa: E402
import types  # noqa: E402
import warnings  # noqa: E402

warnings.simplefilter("ignore")

import abc  # noqa: E402
import collections.abc  # noqa: E402

from Bio import BiopythonWarning  # noqa: E402
from Bio.Seq import Seq  # noqa: E402
from Bio.SeqRecord import SeqRecord  # noqa: E402
from Bio.SeqFeature import (  # noqa: E402
    SeqFeature,
    FeatureLocation,
    CompoundLocation,
    Reference,
)
from Bio.Restriction import BpiI, BsaI, BsmBI, SapI, SmaI, AllEnzymes  # noqa: E402

from moclo import errors  # noqa: E402
from moclo import _utils as mutils  # noqa: E402
from moclo.record import CircularRecord  # noqa: E402
from moclo.core import (  # noqa: E402
    AbstractModule,
    AbstractVector,
    AbstractPart,
    Entry,
    EntryVector,
    Cassette,
    CassetteVector,
)
from moclo.core import _utils as cutils  # noqa: E402

LINES = []


_ADDRESS = re.compile(r" at 0x[0-9a-fA-F]+")


def emit(*items):
    # default object reprs embed memory addresses: mask them
    LINES.append(_ADDRESS.sub(" at 0x?", repr(items)))


# --- dumping helpers ---------------------------------------------------------


def dump_ref(ref):
    return (
        "Reference",
        ref.title,
        ref.authors,
        ref.journal,
        ref.pubmed_id,
        ref.medline_id,
        ref.comment,
        repr(ref.location),
    )


def dump_val(value):
    if isinstance(value, Reference):
        return dump_ref(value)
    if isinstance(value, (list, tuple)):
        return (type(value).__name__, [dump_val(v) for v in value])
    if isinstance(value, dict):
        return ("dict", [(k, dump_val(v)) for k, v in value.items()])
    return repr(value)


def dump_feature(feature):
    return (
        feature.type,
        repr(feature.location),
        feature.id,
        [(k, dump_val(v)) for k, v in feature.qualifiers.items()],
    )


def dump_record(rec):
    if not isinstance(rec, SeqRecord):
        return ("not-a-record", repr(rec))
    return (
        type(rec).__name__,
        str(rec.seq),
        rec.id,
        rec.name,
        rec.description,
        list(rec.dbxrefs),
        [(k, dump_val(v)) for k, v in rec.annotations.items()],
        [dump_feature(f) for f in rec.features],
    )


def dump_exc(exc):
    info = [type(exc).__name__]
    try:
        info.append(str(exc))
    except Exception as sub:  # str() itself may fail
        info.append(("str-failed", type(sub).__name__, str(sub)))
    info.append(type(exc.__cause__).__name__)
    info.append(exc.__suppress_context__)
    info.append(type(exc.__context__).__name__)
    for attr in ("details", "start_overhang", "exc"):
        if hasattr(exc, attr):
            info.append((attr, repr(getattr(exc, attr))))
    for attr in ("duplicates", "remaining"):
        if hasattr(exc, attr):
            info.append(
                (attr, [getattr(getattr(d, "record", None), "id", None) for d in getattr(exc, attr)])
            )
    if hasattr(exc, "sequence"):
        seq = exc.sequence
        info.append(("sequence", str(getattr(seq, "seq", seq))))
    return tuple(info)


def attempt(func, *args, **kwargs):
    try:
        return ("ok", func(*args, **kwargs))
    except Exception as exc:
        return ("exc", dump_exc(exc))


# --- sequence generation -----------------------------------------------------


def revcomp(s):
    return str(Seq(s).reverse_complement())


def rand_dna(rng, n):
    return "".join(rng.choice("ACGT") for _ in range(n))


class Kit(object):
    def __init__(self, enzyme):
        self.enzyme = enzyme
        self.site = enzyme.site
        pattern = enzyme.elucidate()
        head, rest = pattern.split("^")
        ovh, tail = rest.split("_")
        self.spacer = len(head) - len(self.site)
        self.k = len(ovh)
        self.pad = len(tail)
        kit = self

        class Vector(AbstractVector):
            cutter = enzyme

        class Module(AbstractModule):
            cutter = enzyme

        Vector.__name__ = str("{}Vector".format(enzyme))
        Module.__name__ = str("{}Module".format(enzyme))
        self.Vector = Vector
        self.Module = Module
        del kit

    def nsites(self, seq):
        doubled = (seq + seq[: len(self.site) - 1]).upper()
        n = 0
        for s in {self.site, revcomp(self.site)}:
            start = 0
            while True:
                idx = doubled.find(s, start)
                if idx < 0:
                    break
                n += 1
                start = idx + 1
        return n

    def module_seq(self, rng, o_start, o_end, illegal=False):
        for _ in range(200):
            target = rand_dna(rng, rng.randint(2, 40))
            if illegal:
                cut = rng.randint(0, len(target))
                extra = rng.choice([self.site, revcomp(self.site)])
                target = target[:cut] + extra + target[cut:]
            seq = "".join(
                [
                    rand_dna(rng, rng.randint(0, 30)),
                    self.site,
                    rand_dna(rng, self.spacer),
                    o_start,
                    target,
                    o_end,
                    rand_dna(rng, self.spacer),
                    revcomp(self.site),
                    rand_dna(rng, rng.randint(0, 30)),
                ]
            )
            if self.nsites(seq) == (3 if illegal else 2):
                return seq
        raise RuntimeError("could not build a module")

    def vector_seq(self, rng, o_first, o_last, illegal=False):
        for _ in range(200):
            backbone = rand_dna(rng, rng.randint(0, 40))
            if illegal:
                backbone += rng.choice([self.site, revcomp(self.site)])
                backbone += rand_dna(rng, rng.randint(8, 20))
            seq = "".join(
                [
                    rand_dna(rng, rng.randint(0, 20)),
                    rand_dna(rng, self.pad),
                    o_first,
                    rand_dna(rng, self.spacer),
                    revcomp(self.site),
                    rand_dna(rng, rng.randint(0, 40)),
                    self.site,
                    rand_dna(rng, self.spacer),
                    o_last,
                    rand_dna(rng, self.pad),
                    backbone,
                ]
            )
            if self.nsites(seq) == (3 if illegal else 2):
                return seq
        raise RuntimeError("could not build a vector")

    def overhangs(self, rng, n):
        result = []
        while len(result) < n:
            o = rand_dna(rng, self.k)
            rc = revcomp(o)
            if o == rc or o in result or rc in result:
                continue
            result.append(o)
        return result


KITS = [Kit(e) for e in (BpiI, BsaI, BsmBI, SapI)]

REF_POOL = [
    ("A toolkit", "Lee ME et al.", "ACS Synth Biol", "25871405"),
    ("Direct Submission", "Doe J.", "Submitted", ""),
    ("Golden Gate", "Engler C et al.", "PLoS One", "18985154"),
    ("MoClo", "Weber E et al.", "PLoS One", "21364738"),
]


def make_ref(rng):
    title, authors, journal, pubmed = rng.choice(REF_POOL)
    ref = Reference()
    ref.title = title
    ref.authors = authors
    ref.journal = journal
    ref.pubmed_id = pubmed
    return ref


BAD_CITATIONS = ["[0]", "[]", "[9]", "x", "[a]", "1]", "", "[-1]", " [1]"]


def mixcase(rng, seq):
    mode = rng.random()
    if mode < 0.6:
        return seq
    if mode < 0.75:
        return seq.lower()
    return "".join(c.lower() if rng.random() < 0.5 else c for c in seq)


def make_record(rng, seq, ident, citations=True, kind="circular"):
    seq = mixcase(rng, seq)
    length = len(seq)
    annotations = {}
    if rng.random() < 0.5:
        annotations["molecule_type"] = "DNA"
    if rng.random() < 0.4:
        annotations["topology"] = "linear" if kind == "linear" else rng.choice(
            ["circular", "Circular", "CIRCULAR"]
        )
    elif kind == "linear":
        annotations["topology"] = "linear"
    if rng.random() < 0.3:
        annotations["organism"] = rng.choice(["E. coli", "S. cerevisiae"])
    refs = []
    if citations and rng.random() < 0.7:
        refs = [make_ref(rng) for _ in range(rng.randint(0, 3))]
        if refs or rng.random() < 0.5:
            annotations["references"] = refs
    features = []
    for j in range(rng.randint(0, 8)):
        a = rng.randint(0, length - 1)
        b = rng.randint(a + 1, length) if rng.random() < 0.3 else min(length, a + rng.randint(1, 10))
        strand = rng.choice([1, -1, None])
        if rng.random() < 0.15 and 0 < a and b < length:
            loc = CompoundLocation(
                [FeatureLocation(b, length, strand), FeatureLocation(0, a, strand)]
            )
        else:
            loc = FeatureLocation(a, b, strand)
        quals = {"label": ["{}-f{}".format(ident, j)]}
        if citations and rng.random() < 0.6:
            cits = []
            for _ in range(rng.randint(0, 3)):
                r = rng.random()
                if r < 0.03:
                    cits.append(rng.choice(BAD_CITATIONS))
                elif refs:
                    n = rng.randint(1, len(refs))
                    cits.append("[{}]".format(n) + (" and more" if rng.random() < 0.1 else ""))
                elif r < 0.05:
                    cits.append("[1]")
            quals["citation"] = cits
        ftype = rng.choice(["CDS", "misc_feature", "promoter", "terminator"])
        features.append(SeqFeature(loc, type=ftype, qualifiers=quals))
    if rng.random() < 0.3:
        features.append(
            SeqFeature(
                FeatureLocation(0, length),
                type="source",
                qualifiers={"organism": ["synthetic"]},
            )
        )
    ident_value = ident
    if kind in ("plain", "linear"):
        return SeqRecord(
            Seq(seq),
            id=ident_value,
            name=ident + "_name",
            annotations=annotations,
            features=features,
        )
    rec = CircularRecord(
        Seq(seq),
        id=ident_value,
        name=ident + "_name",
        description="record " + ident,
        annotations=annotations,
        features=features,
    )
    r = rng.random()
    if r < 0.35:
        pass
    elif r < 0.8:
        rec = rec >> rng.randint(-3 * length, 3 * length)
    else:
        rec = rec << rng.randint(-3 * length, 3 * length)
    return rec


SCENARIOS = [
    ("ok", 30),
    ("unused", 8),
    ("dup_start", 7),
    ("same_object_twice", 4),
    ("revcomp", 6),
    ("palindrome", 4),
    ("missing", 8),
    ("missing_first", 4),
    ("cycle", 4),
    ("vector_same", 4),
    ("illegal_module", 4),
    ("illegal_vector", 3),
    ("invalid_module", 4),
    ("invalid_vector", 2),
    ("plain_module", 3),
    ("linear_module", 2),
    ("foreign_module", 3),
    ("none_id", 2),
]


def pick_scenario(rng):
    total = sum(w for _, w in SCENARIOS)
    x = rng.uniform(0, total)
    for name, w in SCENARIOS:
        x -= w
        if x <= 0:
            return name
    return SCENARIOS[-1][0]


def assembly_case(rng, index):
    kit = rng.choice(KITS)
    scenario = pick_scenario(rng)
    citations = rng.random() < 0.6
    nmod = rng.randint(1, 5)
    ovh = kit.overhangs(rng, nmod + 6)
    chain = ovh[: nmod + 1]
    spare = ovh[nmod + 1 :]

    o_first, o_last = chain[0], chain[-1]
    if scenario == "vector_same":
        o_last = o_first
    vseq = kit.vector_seq(rng, o_first, o_last, illegal=scenario == "illegal_vector")
    if scenario == "invalid_vector":
        vseq = rand_dna(rng, 30).replace(kit.site, "A").replace(revcomp(kit.site), "A")
    vector = kit.Vector(make_record(rng, vseq, "vec{}".format(index), citations))

    records = [vector.record]
    modules = []

    def add_module(o_start, o_end, ident, **kw):
        illegal = kw.pop("illegal", False)
        kind = kw.pop("kind", "circular")
        cls = kw.pop("cls", kit.Module)
        seq = kw.pop("seq", None) or kit.module_seq(rng, o_start, o_end, illegal=illegal)
        rec = make_record(rng, seq, ident, citations, kind=kind)
        mod = cls(rec)
        modules.append(mod)
        records.append(rec)
        return mod

    pairs = list(zip(chain[:-1], chain[1:]))
    if scenario == "missing" and len(pairs) > 0:
        pairs.pop(rng.randrange(len(pairs)))
    elif scenario == "missing_first":
        pairs.pop(0)
    elif scenario == "cycle":
        pairs = [(chain[0], spare[0]), (spare[0], chain[0])] + pairs[1:]

    special = rng.randrange(len(pairs)) if pairs else None
    for j, (a, b) in enumerate(pairs):
        ident = "m{}_{}".format(index, j)
        kw = {}
        if j == special:
            if scenario == "illegal_module":
                kw["illegal"] = True
            elif scenario == "invalid_module":
                kw["seq"] = rand_dna(rng, 25).replace(kit.site, "T")
            elif scenario == "plain_module":
                kw["kind"] = "plain"
            elif scenario == "linear_module":
                kw["kind"] = "linear"
            elif scenario == "foreign_module":
                other = rng.choice([k for k in KITS if k.site != kit.site])
                kw["cls"] = other.Module
            elif scenario == "palindrome" and kit.k % 2 == 0:
                half = rand_dna(rng, kit.k // 2)
                a = half + revcomp(half)
        add_module(a, b, ident, **kw)

    if scenario == "unused":
        for j in range(rng.randint(1, 2)):
            add_module(spare[1 + j], spare[0], "u{}_{}".format(index, j))
    elif scenario == "dup_start" and pairs:
        a, _ = rng.choice(pairs)
        add_module(a, spare[0], "d{}".format(index))
    elif scenario == "revcomp" and pairs:
        a, _ = rng.choice(pairs)
        add_module(revcomp(a), spare[0], "rc{}".format(index))
    elif scenario == "same_object_twice" and modules:
        modules.append(rng.choice(modules))
    elif scenario == "none_id" and modules:
        rng.choice(modules).record.id = None

    if not modules:
        add_module(spare[2], spare[3], "lonely{}".format(index))

    rng.shuffle(modules)
    kwargs = {}
    if rng.random() < 0.3:
        kwargs["name"] = "asm{}".format(index)
    if rng.random() < 0.3:
        kwargs["id"] = "ASM_{}".format(index)
    mode = "error" if rng.random() < 0.15 else "always"
    return kit, scenario, vector, modules, records, kwargs, mode


def run_assembly(tag, vector, modules, records, kwargs, mode, probe):
    if probe:
        emit(tag, "vector.target", attempt(lambda: dump_record(vector.target_sequence())))
        emit(tag, "vector.placeholder", attempt(lambda: dump_record(vector.placeholder_sequence())))
        for mod in modules[:2]:
            emit(tag, "module.target", attempt(lambda: dump_record(mod.target_sequence())))
    filters_before = list(warnings.filters)
    with warnings.catch_warnings(record=True) as caught:
        warnings.simplefilter(mode)
        inner_filters = list(warnings.filters)
        try:
            result = ("ok", dump_record(vector.assemble(*modules, **kwargs)))
        except Exception as exc:
            result = ("exc", dump_exc(exc))
        emit(tag, "filters-restored", warnings.filters == inner_filters)
    emit(tag, "outer-filters-restored", warnings.filters == filters_before)
    emit(tag, "result", result)
    emit(
        tag,
        "warnings",
        [
            (w.category.__name__, str(w.message), dump_exc(w.message)[5:])
            for w in caught
        ],
    )
    emit(tag, "post", [dump_record(r) for r in records])


def section_assembly():
    rng = random.Random(20240917)
    for index in range(700):
        kit, scenario, vector, modules, records, kwargs, mode = assembly_case(rng, index)
        tag = ("asm", index, str(kit.enzyme), scenario, mode)
        run_assembly(tag, vector, modules, records, kwargs, mode, probe=index % 5 == 0)
        if index % 7 == 0:
            # assemble a second time with the very same (mutated) objects
            run_assembly(tag + ("again",), vector, modules, records, kwargs, "always", False)


def section_fixed_assemblies():
    class MockVector(AbstractVector):
        cutter = BpiI

    class MockModule(AbstractModule):
        cutter = BpiI

    class MockEntryVector(EntryVector):
        cutter = BpiI

    class MockEntry(Entry):
        cutter = BpiI

    cases = {
        "invalid_vector": ("CCATGCTTGTCTTCCACAGAAGACTTATGCGG", ["GAAGACTTATGCCACAATGCTTGTCTTC"]),
        "duplicates": (
            "CCATGCTTGTCTTCCACAGAAGACTTCGTAGG",
            ["GAAGACTTATGCCACACGTATTGTCTTC", "GAAGACTTATGCTATACGTATTGTCTTC"],
        ),
        "missing": ("CCATGCTTGTCTTCCACAGAAGACTTCGTAGG", ["GAAGACTTATGACACACGTATTGTCTTC"]),
        "unused": (
            "CCATGCTTGTCTTCCACAGAAGACTTCGTAGG",
            ["GAAGACTTATGCTATACGTATTGTCTTC", "GAAGACTTAAAACACACCCCTTGTCTTC"],
        ),
        "lowercase": (
            "ccatgcttgtcttccacagaagacttcgtagg",
            ["GAAGACTTATGCTATACGTATTGTCTTC"],
        ),
    }
    for name, (vseq, mseqs) in sorted(cases.items()):
        for vcls, mcls in ((MockVector, MockModule), (MockEntryVector, MockEntry)):
            vector = vcls(CircularRecord(Seq(vseq), "vector"))
            modules = [
                mcls(CircularRecord(Seq(s), "mod{}".format(i + 1)))
                for i, s in enumerate(mseqs)
            ]
            records = [vector.record] + [m.record for m in modules]
            for mode in ("always", "error"):
                run_assembly(("fixed", name, vcls.__name__, mode), vector, modules, records, {}, mode, True)


def section_registry():
    try:
        from moclo.registry.ytk import YTKRegistry
    except Exception as exc:  # pragma: no cover
        emit("registry", "unavailable", type(exc).__name__)
        return
    reg = YTKRegistry()
    rng = random.Random(77)
    ids = ["pYTK008", "pYTK047", "pYTK073", "pYTK074", "pYTK086", "pYTK092"]
    for trial in range(4):
        vec = reg["pYTK090"].entity
        mods = [reg[i].entity for i in ids]
        records = [vec.record] + [m.record for m in mods]
        if trial >= 1:
            # give the features of the registry records citations
            for rec in records:
                refs = rec.annotations.get("references", [])
                for feature in rec.features:
                    if refs and rng.random() < 0.5:
                        feature.qualifiers["citation"] = [
                            "[{}]".format(rng.randint(1, len(refs)))
                            for _ in range(rng.randint(1, 2))
                        ]
        if trial == 2:
            mods = mods[:-1]
        if trial == 3:
            mods = mods + [reg["pYTK009"].entity]
            records.append(mods[-1].record)
        rng.shuffle(mods)
        run_assembly(("ytk", trial), vec, mods, records, {"id": "ytk{}".format(trial)}, "always", trial == 0)
        for rec in records:
            for feature in rec.features:
                feature.qualifiers.pop("citation", None)


# --- error classes -----------------------------------------------------------


def ns(ident):
    return types.SimpleNamespace(record=types.SimpleNamespace(id=ident))


def section_errors():
    class MyInvalid(errors.InvalidSequence):
        _msg = "custom: {} !"

    class MyIllegal(errors.IllegalSite):
        def __str__(self):
            return "wrapped<" + super(MyIllegal, self).__str__() + ">"

    class MyDuplicate(errors.DuplicateModules):
        pass

    class MyMissing(errors.MissingModule):
        def __init__(self, start_overhang, **options):
            super(MyMissing, self).__init__(start_overhang, **options)
            self.extra = True

    class MyUnused(errors.UnusedModules):
        def __str__(self):
            return super(MyUnused, self).__str__().upper()

    class Stringy(object):
        def __str__(self):
            return "stringy {}"

        def __repr__(self):
            return "Stringy()"

    class Opaque(object):
        def __repr__(self):
            return "Opaque()"

    details_values = [
        None,
        "",
        "x",
        "does not match 'Foo' structure",
        "with {} braces",
        "{0}{0}",
        "{name}",
        "{",
        5,
        ("t",),
        b"bytes",
        Seq("ACGT"),
        Stringy(),
    ]
    sequences = [
        "ACGT",
        Seq("ACGT"),
        SeqRecord(Seq("ACGT"), id="rec"),
        "{}",
        "{0}",
        42,
        None,
    ]

    def describe(exc):
        return (
            type(exc).__name__,
            attempt(str, exc),
            attempt(repr, exc),
            attempt(lambda: repr(exc.args)),
            attempt(lambda: "".join(traceback.format_exception_only(type(exc), exc))),
            isinstance(exc, errors.MocloError),
            isinstance(exc, ValueError),
            isinstance(exc, RuntimeError),
            isinstance(exc, Warning),
            isinstance(exc, errors.AssemblyError),
            isinstance(exc, errors.AssemblyWarning),
            isinstance(exc, errors.InvalidSequence),
            attempt(lambda: repr(getattr(exc, "details", "<none>"))),
        )

    for cls in (errors.InvalidSequence, errors.IllegalSite, MyInvalid, MyIllegal):
        for seq in sequences:
            emit("err", cls.__name__, "noargs", describe(cls(seq)))
            emit("err", cls.__name__, "exc", describe(cls(seq, ValueError("inner"))))
            for details in details_values:
                exc = cls(seq, details=details)
                emit("err", cls.__name__, repr(seq), repr(details), describe(exc))
                emit("err-attrs", repr(exc.sequence), repr(exc.exc), repr(exc.details))
        emit("err", cls.__name__, "bad-call", attempt(cls))
        emit("err", cls.__name__, "bad-kw", attempt(cls, "ACGT", bogus=1))

    groups = [
        (),
        (ns("a"),),
        (ns("a"), ns("b")),
        (ns("a"), ns("a"), ns("c")),
        (ns("{}"),),
        (ns("{0}"), ns("z")),
        (ns(3),),
        (ns(None), ns("q")),
        (Opaque(),),
        (ns(""),),
    ]
    for cls in (errors.DuplicateModules, MyDuplicate, errors.UnusedModules, MyUnused):
        for group in groups:
            emit("err", cls.__name__, len(group), "nodetails", describe(cls(*group)))
            for details in details_values:
                exc = cls(*group, details=details)
                emit("err", cls.__name__, len(group), repr(details), describe(exc))
            emit("err", cls.__name__, "extra-option", describe(cls(*group, details="d", other=1)))
            exc = cls(*group)
            attr = "remaining" if isinstance(exc, errors.UnusedModules) else "duplicates"
            emit("err-attrs", cls.__name__, getattr(exc, attr) == group, type(getattr(exc, attr)).__name__)

    for cls in (errors.MissingModule, MyMissing):
        for ovh in ["ATGC", Seq("ATGC"), "{}", "{0}{0}", 7, None, ("a", "b")]:
            emit("err", cls.__name__, repr(ovh), "nodetails", describe(cls(ovh)))
            for details in details_values:
                exc = cls(ovh, details=details)
                emit("err", cls.__name__, repr(ovh), repr(details), describe(exc))
                emit("err-attrs", repr(exc.start_overhang), repr(exc.details))
        emit("err", cls.__name__, "bad-call", attempt(cls))
        emit("err", cls.__name__, "positional-details", attempt(cls, "A", "B"))

    # plain base classes keep the behaviour of their builtin parents
    for cls in (errors.MocloError, errors.AssemblyError, errors.AssemblyWarning):
        for args in [(), ("x",), ("x", 2), ("{}",)]:
            emit("err", cls.__name__, describe(cls(*args)))

    # class relations (public classes only)
    public = [
        errors.MocloError,
        errors.InvalidSequence,
        errors.IllegalSite,
        errors.AssemblyError,
        errors.DuplicateModules,
        errors.MissingModule,
        errors.AssemblyWarning,
        errors.UnusedModules,
        Exception,
        ValueError,
        RuntimeError,
        Warning,
    ]
    for a in public:
        emit("subclass", a.__name__, [b.__name__ for b in public if issubclass(a, b)])
        emit("class", a.__name__, a.__module__, a.__doc__)
    emit("same-str", errors.IllegalSite.__str__ is errors.InvalidSequence.__str__)
    emit("msg", errors.InvalidSequence._msg, errors.IllegalSite._msg)

    # pickling and copying
    for exc in [
        errors.InvalidSequence("ACGT"),
        errors.IllegalSite("ACGT"),
        errors.MissingModule("ATGC"),
        errors.DuplicateModules(),
        errors.UnusedModules(),
    ]:
        emit("pickle", type(exc).__name__, attempt(lambda: describe(pickle.loads(pickle.dumps(exc)))))

    # multiple inheritance by users
    def multi():
        class Multi(errors.MissingModule, LookupError):
            pass

        return describe(Multi("AAAA", details="multi"))

    emit("multi", attempt(multi))

    def multi2():
        class Multi2(errors.InvalidSequence, errors.AssemblyError):
            _msg = "multi2 {}"

        return (describe(Multi2("AAAA", details="multi")), [c.__name__ for c in Multi2.__mro__ if not c.__name__.startswith("_")])

    emit("multi2", attempt(multi2))

    # raised and caught through the warnings machinery
    for mode in ("always", "error", "ignore", "default", "once"):
        for cls in (errors.UnusedModules, MyUnused):
            for details in (None, "why", 3):
                with warnings.catch_warnings(record=True) as caught:
                    warnings.simplefilter(mode)
                    res = attempt(warnings.warn, cls(ns("a"), ns("b"), details=details))
                    emit(
                        "warn",
                        mode,
                        cls.__name__,
                        repr(details),
                        res,
                        [(w.category.__name__, attempt(str, w.message)) for w in caught],
                    )


# --- moclo.core._utils -------------------------------------------------------


def section_core_utils():
    unknown = sorted((e for e in AllEnzymes if e.is_unknown()), key=str)[:3]
    blunt = sorted((e for e in AllEnzymes if e.is_blunt()), key=str)[:3] + [SmaI]
    rec = CircularRecord(Seq("CCATGCTTGTCTTCCACAGAAGACTTCGTAGG"), "vector")

    for base in (AbstractModule, AbstractVector, AbstractPart, Entry, EntryVector, Cassette, CassetteVector):
        def build(cutter_value, name):
            attrs = {} if cutter_value is None else {"cutter": cutter_value}
            return type(str(name), (base,), attrs)

        emit("cutter", base.__name__, "none", attempt(lambda: type(build(None, "NoCutter")(rec)).__name__))
        emit("cutter", base.__name__, "none-noargs", attempt(lambda: type(build(None, "Bare")()).__name__))
        for enz in unknown + blunt:
            emit("cutter", base.__name__, str(enz), attempt(lambda: type(build(enz, "With" + str(enz))(rec)).__name__))
        for enz in (BpiI, BsaI, SapI):
            emit("cutter", base.__name__, str(enz), attempt(lambda: type(build(enz, "With" + str(enz))(rec)).__name__))
        emit("cutter", base.__name__, "bogus", attempt(lambda: type(build("BsaI", "Stringly")(rec)).__name__))
        emit("cutter", base.__name__, "None-cutter", attempt(lambda: type(type(str("NoneCutter"), (base,), {"cutter": None})(rec)).__name__))

    emit("abstract-direct", attempt(lambda: AbstractModule(rec)), attempt(lambda: AbstractVector(rec)), attempt(lambda: AbstractPart(rec)))

    for enz in unknown + blunt + [BpiI, BsaI, NotImplemented, None, "x"]:
        emit("cutter_check", str(enz), attempt(cutils.cutter_check, enz, "Name"), attempt(cutils.cutter_check, enz, name="{}"))

    rng = random.Random(5)
    for i in range(150):
        src = SeqRecord(Seq(rand_dna(rng, rng.randint(0, 20))), id=rng.choice(["src", "{}", "", "pYTK{}".format(i)]))
        if rng.random() < 0.1:
            src.id = None
        n = rng.randint(0, 30)
        dst_cls = rng.choice([SeqRecord, CircularRecord])
        dst = dst_cls(Seq(rand_dna(rng, n)), id="dst")
        for _ in range(rng.randint(0, 2)):
            dst.features.append(SeqFeature(FeatureLocation(0, n), type="misc_feature"))
        choice = rng.random()
        if choice < 0.4:
            args = ()
        elif choice < 0.5:
            args = (None,)
        elif choice < 0.7:
            a = rng.randint(0, n)
            args = (FeatureLocation(a, a),)  # empty location: falsy
        else:
            a = rng.randint(0, n)
            b = rng.randint(a, n + 3)
            args = (FeatureLocation(a, b, rng.choice([1, -1, None])),)
        before = len(dst.features)
        try:
            if rng.random() < 0.5 and args:
                out = cutils.add_as_source(src, dst, location=args[0])
            else:
                out = cutils.add_as_source(src, dst, *args)
            emit("add_as_source", i, out is dst, len(dst.features) - before, dump_record(dst), dump_record(src))
        except Exception as exc:
            emit("add_as_source", i, dump_exc(exc), dump_record(dst))
    emit("add_as_source-badsrc", attempt(cutils.add_as_source, object(), SeqRecord(Seq("A"))))
    emit("add_as_source-baddst", attempt(cutils.add_as_source, SeqRecord(Seq("A"), id="s"), object()))


# --- moclo._utils ------------------------------------------------------------


class ScaryWarning(UserWarning):
    pass


def section_utils():
    # classproperty
    class Base(object):
        counter = 0

        @mutils.classproperty
        def name(cls):
            cls.counter += 1
            return cls.__name__.lower()

    class Child(Base):
        pass

    emit("classproperty", Base.name, Child.name, Base().name, Child().name, Base.counter, Child.counter)
    emit("classproperty-type", type(Base.__dict__["name"]).__name__, Base.__dict__["name"].getter.__name__)
    inst = Base()
    inst.name = "shadow"  # non-data descriptor: can be shadowed
    emit("classproperty-shadow", inst.name, Base.name)
    emit("classproperty-doc", mutils.classproperty.__doc__)

    # isabstract
    class AbstractByMethod(abc.ABC):
        @abc.abstractmethod
        def method(self):
            pass

    class ConcreteByMethod(AbstractByMethod):
        def method(self):
            return 1

    class AbstractByAttr(object):
        cutter = NotImplemented

    class ConcreteByAttr(AbstractByAttr):
        cutter = BsaI

    class Weird(object):
        def __dir__(self):
            return ["nope"]

    class MetaDir(type):
        def __dir__(cls):
            return ["ghost", "real"]

    class WithMetaDir(MetaDir(str("X"), (object,), {})):
        real = NotImplemented

    class RaisingAttr(object):
        @mutils.classproperty
        def boom(cls):
            raise AttributeError("boom")

    class RaisingOther(object):
        @mutils.classproperty
        def boom(cls):
            raise KeyError("boom")

    class KitVector(AbstractVector):
        cutter = BsaI

    class KitPart(AbstractPart, Entry):
        cutter = BsaI

    class KitPartSigned(KitPart):
        signature = ("ATGC", "ATTC")

    candidates = [
        int,
        str,
        object,
        collections.abc.Iterable,
        collections.abc.Mapping,
        AbstractByMethod,
        ConcreteByMethod,
        AbstractByAttr,
        ConcreteByAttr,
        Weird,
        WithMetaDir,
        RaisingAttr,
        RaisingOther,
        AbstractModule,
        AbstractVector,
        AbstractPart,
        Entry,
        EntryVector,
        KitVector,
        KitPart,
        KitPartSigned,
        errors.MocloError,
        3,
        "string",
        None,
        NotImplemented,
        Weird(),
    ]
    for cand in candidates:
        emit("isabstract", getattr(cand, "__name__", repr(type(cand))), attempt(mutils.isabstract, cand))

    # catch_warnings
    emit("cw-doc", mutils.catch_warnings.__doc__)

    def scared(x, y=2, *args, **kwargs):
        """Docstring of scared."""
        warnings.warn("I'm warning you !")
        warnings.warn(ScaryWarning("scary"))
        warnings.warn("deprecated", DeprecationWarning)
        warnings.warn(BiopythonWarning("bio"))
        if x == "raise":
            raise KeyError("raised inside")
        return (x, y, args, sorted(kwargs.items()))

    configs = [
        (("ignore",), {}),
        (("error",), {}),
        (("always",), {}),
        (("default",), {}),
        (("once",), {}),
        (("module",), {}),
        (("ignore",), {"category": ScaryWarning}),
        (("error",), {"category": ScaryWarning}),
        (("ignore",), {"category": BiopythonWarning}),
        (("error",), {"category": BiopythonWarning}),
        (("error", DeprecationWarning), {}),
        (("ignore", UserWarning, 0, True), {}),
        (("error", UserWarning), {"append": True}),
        (("error",), {"lineno": 10 ** 6}),
        (("ignore",), {"category": UserWarning, "lineno": 0, "append": False}),
        (("bogus",), {}),
        (("ignore",), {"category": int}),
        (("ignore",), {"lineno": -1}),
    ]
    for outer in ("always", "error", "ignore"):
        for cargs, ckwargs in configs:
            tag = ("cw", outer, repr(cargs), repr(sorted(ckwargs.items(), key=str)))
            try:
                decorator = mutils.catch_warnings(*cargs, **ckwargs)
                wrapped = decorator(scared)
            except Exception as exc:
                emit(tag, "decorating failed", dump_exc(exc))
                continue
            emit(
                tag,
                "meta",
                wrapped.__name__,
                wrapped.__doc__,
                wrapped.__module__ == scared.__module__,
                getattr(wrapped, "__wrapped__", None) is scared,
                wrapped is scared,
                callable(decorator),
            )
            for call_args, call_kwargs in [
                ((1,), {}),
                ((1, 3, 4, 5), {"k": "v"}),
                (("raise",), {}),
                ((), {}),
                ((), {"x": 9, "z": 0}),
            ]:
                with warnings.catch_warnings(record=True) as caught:
                    warnings.simplefilter(outer)
                    before = list(warnings.filters)
                    res = attempt(wrapped, *call_args, **call_kwargs)
                    restored = warnings.filters == before
                emit(
                    tag,
                    repr(call_args),
                    res,
                    restored,
                    [(w.category.__name__, str(w.message)) for w in caught],
                )

    # decorating methods, generators and other callables
    class Holder(object):
        def __init__(self):
            self.calls = 0

        @mutils.catch_warnings("ignore")
        def method(self, value):
            self.calls += 1
            warnings.warn("from method")
            return value * 2

        @classmethod
        @mutils.catch_warnings("error", category=ScaryWarning)
        def cmethod(cls, value):
            warnings.warn(ScaryWarning("from classmethod"))
            return value

        @mutils.catch_warnings("ignore")
        def gen(self):
            warnings.warn("in generator body")  # runs outside of the context
            yield 1

    holder = Holder()
    with warnings.catch_warnings(record=True) as caught:
        warnings.simplefilter("always")
        emit("cw-method", attempt(holder.method, 4), holder.calls, attempt(Holder.cmethod, 1))
        emit("cw-gen", attempt(lambda: list(holder.gen())))
        emit("cw-method-warnings", [(w.category.__name__, str(w.message)) for w in caught])
    emit("cw-nested", attempt(mutils.catch_warnings("ignore")(mutils.catch_warnings("error")(scared)), 1))
    emit("cw-nested2", attempt(mutils.catch_warnings("error")(mutils.catch_warnings("ignore")(scared)), 1))
    emit("cw-noncallable", attempt(lambda: mutils.catch_warnings("ignore")(3)))
    emit("cw-noncallable-call", attempt(lambda: mutils.catch_warnings("ignore")(3)()))

    # callables without __name__ keep the attributes of the inner closure
    class CallableObject(object):
        """Doc of the callable object."""

        def __call__(self, *args, **kwargs):
            warnings.warn("from callable object")
            return ("called", args, sorted(kwargs.items()))

    import functools

    for label, target in [
        ("partial", functools.partial(scared, 7, k=1)),
        ("callable-object", CallableObject()),
        ("lambda", lambda: warnings.warn("from lambda")),
        ("builtin", len),
        ("class", dict),
    ]:
        deco = mutils.catch_warnings("ignore")
        wrapped = deco(target)
        with warnings.catch_warnings(record=True) as caught:
            warnings.simplefilter("always")
            if label in ("builtin",):
                res = attempt(wrapped, [1, 2])
            else:
                res = attempt(wrapped)
            emit(
                "cw-odd",
                label,
                wrapped.__name__,
                wrapped.__qualname__,
                wrapped.__doc__,
                wrapped.__module__,
                deco.__name__,
                deco.__qualname__,
                deco.__module__,
                getattr(wrapped, "__wrapped__", None) is target,
                res,
                [(w.category.__name__, str(w.message)) for w in caught],
            )
    emit("cw-self", mutils.catch_warnings.__name__, mutils.catch_warnings.__module__, mutils.isabstract.__name__, mutils.isabstract.__module__)
    emit("cw-builtin", attempt(lambda: mutils.catch_warnings("ignore")(len)([1, 2, 3])))

    # the assembly entry point is decorated with it
    from moclo.core.vectors import AbstractVector as AV

    emit("assemble-meta", AV.assemble.__name__, AV.assemble.__doc__)


def main():
    section_fixed_assemblies()
    section_assembly()
    section_registry()
    section_errors()
    section_core_utils()
    section_utils()
    digest = hashlib.sha256("\n".join(LINES).encode("utf-8")).hexdigest()
    if "-v" in sys.argv[1:]:
        for line in LINES:
            print(line)
    print("{} entries, sha256 {}".format(len(LINES), digest))


if __name__ == "__main__":
    main()
