# coding: utf-8
# --- common differential-test harness (inlined in every equiv.py) ------------
import sys

sys.path.insert(0, "/tmp/agentsR3/R13")
import tests  # noqa: F401,E402  (splices the kit packages into the moclo namespace)

import atexit  # noqa: E402
import hashlib  # noqa: E402
import io  # noqa: E402
import os  # noqa: E402
import random  # noqa: E402
import shutil  # noqa: E402
import tarfile  # noqa: E402
import tempfile  # noqa: E402
import warnings  # noqa: E402

import Bio.SeqIO  # noqa: E402
import fs  # noqa: E402
from Bio.Seq import Seq  # noqa: E402
from Bio.SeqFeature import SeqFeature, FeatureLocation  # noqa: E402
from Bio.SeqRecord import SeqRecord  # noqa: E402

from tests._utils import build_registries  # noqa: E402

warnings.simplefilter("ignore")

RNG = random.Random(0x5EED13)
RESULTS = []

LABELS = [
    "KanR", "CamR", "CmR", "KnR", "AmpR", "SmR", "SpecR",  # known cassettes
    "kanr", "AMPR", "ampR", "Kanr", "specr",  # wrong letter case: not recognised
    "GFP", "ori", "AmpR promoter", "KanR-like", "",  # unrelated
]

PKG_NAME = "equivpkg_r13"
PKG_DIR = tempfile.mkdtemp(prefix="r13_equiv_")
atexit.register(shutil.rmtree, PKG_DIR, True)
os.mkdir(os.path.join(PKG_DIR, PKG_NAME))
with open(os.path.join(PKG_DIR, PKG_NAME, "__init__.py"), "w") as _f:
    _f.write("")
sys.path.insert(0, PKG_DIR)
_ARCHIVES = [0]


def log(*values):
    RESULTS.append(repr(values))


def attempt(tag, func, *args, **kwargs):
    """Run func, record either its described result or its exception."""
    try:
        out = func(*args, **kwargs)
    except BaseException as err:  # noqa: B902 (StopIteration & co. included)
        if isinstance(err, (KeyboardInterrupt, SystemExit)):
            raise
        log(tag, "EXC", type(err).__name__, str(err).replace(PKG_DIR, "<PKG>"))
        return None
    else:
        log(tag, "OK", describe(out))
        return out


def describe_record(rec):
    return (
        type(rec).__name__,
        rec.id,
        rec.name,
        rec.description,
        str(rec.seq),
        sorted((k, repr(v)) for k, v in rec.annotations.items()),
        [
            (f.type, str(f.location), sorted((k, list(v)) for k, v in f.qualifiers.items()))
            for f in rec.features
        ],
    )


def describe(obj):
    from moclo.registry.base import Item

    if isinstance(obj, Item):
        ent = obj.entity
        try:
            valid = ent.is_valid()
        except Exception as err:
            valid = (type(err).__name__, str(err))
        return (
            "Item",
            obj.id,
            obj.name,
            obj.resistance,
            type(ent).__module__,
            type(ent).__name__,
            valid,
            describe_record(ent.record),
            obj.record is ent.record,
        )
    if isinstance(obj, SeqRecord):
        return describe_record(obj)
    if isinstance(obj, (list, tuple)):
        return [describe(x) for x in obj]
    if isinstance(obj, dict):
        return [(k, describe(v)) for k, v in obj.items()]
    if isinstance(obj, type):
        return "<class {}.{}>".format(obj.__module__, obj.__name__)
    if obj is None or isinstance(obj, (str, bytes, int, float, bool)):
        return repr(obj)
    return "<{} object>".format(type(obj).__name__)  # no memory addresses in the digest


def rand_seq(n):
    return "".join(RNG.choice("ACGT") for _ in range(n))


def make_record(
    id_,
    name=None,
    description="synthetic",
    labels=(),
    comment=None,
    seq=None,
    upper=True,
):
    """Build a small annotated circular record.

    ``labels`` is a list of label lists: one feature per inner list.
    """
    seq = seq if seq is not None else rand_seq(RNG.randint(40, 120))
    if not upper:
        seq = "".join(RNG.choice((c, c.lower())) for c in seq)
    rec = SeqRecord(Seq(seq), id=id_, name=name or id_[:16], description=description)
    rec.annotations["molecule_type"] = "DNA"
    rec.annotations["topology"] = "circular"
    if comment is not None:
        rec.annotations["comment"] = comment
    for i, lbls in enumerate(labels):
        start = RNG.randint(0, len(seq) - 10)
        end = RNG.randint(start + 1, len(seq))
        quals = {"note": ["feature {}".format(i)]}
        if lbls:
            quals["label"] = list(lbls)
        rec.features.append(
            SeqFeature(
                FeatureLocation(start, end, RNG.choice((1, -1))),
                type=RNG.choice(("CDS", "misc_feature", "promoter")),
                qualifiers=quals,
            )
        )
    return rec


def rand_labels(kind=None):
    """Label lists for the features of a record.

    kind: "one" (exactly one cassette overall), "none", "multi" (one feature
    holding two cassettes), "two" (two features with one cassette each) or
    None (anything).
    """
    known = LABELS[:7]
    other = LABELS[7:]
    kind = kind or RNG.choice(("one", "one", "one", "none", "multi", "two", "any"))
    feats = [[RNG.choice(other)] if RNG.random() < 0.7 else [] for _ in range(RNG.randint(0, 2))]
    if kind == "one":
        feats.insert(RNG.randint(0, len(feats)), [RNG.choice(known)] + RNG.sample(other, RNG.randint(0, 2)))
    elif kind == "multi":
        feats.insert(RNG.randint(0, len(feats)), RNG.sample(known, 2) + RNG.sample(other, RNG.randint(0, 1)))
        if RNG.random() < 0.5:
            feats.append([RNG.choice(known)])
    elif kind == "two":
        feats.insert(RNG.randint(0, len(feats)), [RNG.choice(known)])
        feats.append([RNG.choice(known)] if RNG.random() < 0.5 else RNG.sample(known, 2))
    elif kind == "any":
        feats = [RNG.sample(LABELS, RNG.randint(0, 3)) for _ in range(RNG.randint(0, 4))]
    return feats


def to_genbank(rec):
    buff = io.StringIO()
    Bio.SeqIO.write([rec], buff, "genbank")
    return buff.getvalue()


def make_archive(records, names=None):
    """Write the records to a new tar.gz of the scratch package; return its name."""
    _ARCHIVES[0] += 1
    fname = "archive{:04d}.tar.gz".format(_ARCHIVES[0])
    with tarfile.open(os.path.join(PKG_DIR, PKG_NAME, fname), "w:gz") as tar:
        for i, rec in enumerate(records):
            data = (rec if isinstance(rec, str) else to_genbank(rec)).encode("utf-8")
            info = tarfile.TarInfo(names[i] if names else getattr(rec, "id", "entry{}".format(i)))
            info.size = len(data)
            tar.addfile(info, io.BytesIO(data))
    return fname


def subregistry(base, records, names=None, **attrs):
    """A user-defined subclass of an embedded registry over a scratch archive."""
    attrs.update(_module=PKG_NAME, _file=make_archive(records, names))
    return type(str("User" + base.__name__), (base,), attrs)


def dump_registry(tag, reg, extra_keys=("missing", "", None, 0)):
    """Exercise the whole Mapping API of a registry."""
    attempt((tag, "len"), len, reg)
    keys = attempt((tag, "iter"), lambda: list(reg)) or []
    attempt((tag, "keys"), lambda: list(reg.keys()))
    for key in list(keys) + list(extra_keys):
        attempt((tag, "getitem", key), reg.__getitem__, key)
        attempt((tag, "contains", key), reg.__contains__, key)
        attempt((tag, "get", key), reg.get, key)
    attempt((tag, "values"), lambda: list(reg.values()))
    attempt((tag, "items"), lambda: list(reg.items()))
    attempt((tag, "hash"), lambda: hash(reg) == hash(type(reg)()))
    attempt((tag, "eq"), lambda: (reg == type(reg)(), reg != type(reg)(), reg == 1))


def finish():
    digest = hashlib.sha256("\n".join(RESULTS).encode("utf-8")).hexdigest()
    print("{} results, digest {}".format(len(RESULTS), digest))
    if os.environ.get("EQUIV_DUMP"):  # debugging aid: keep the raw results
        with open(os.environ["EQUIV_DUMP"], "w") as out:
            out.write("\n".join(RESULTS))


# --- end of the common harness -----------------------------------------------
# --- R13_4: EmbeddedRegistry._data built by a dict comprehension --------------
import copy

from moclo.kits import ytk, cidar, ecoflex, moclo as moclo_kit
from moclo.record import CircularRecord
from moclo.registry.base import EmbeddedRegistry, CombinedRegistry, Item
from moclo.registry.ytk import YTKRegistry, PTKRegistry
from moclo.registry.cidar import CIDARRegistry
from moclo.registry.ecoflex import EcoFlexRegistry
from moclo.registry.plant import PlantRegistry

for kit in ("cidar", "ytk", "ecoflex", "plant"):
    build_registries(kit)

# A. the five real registries, whole Mapping API
REAL = {}
for cls in (YTKRegistry, PTKRegistry, CIDARRegistry, EcoFlexRegistry, PlantRegistry):
    reg = cls()
    REAL[cls] = list(reg.values())
    dump_registry(cls.__name__, reg)
    log(cls.__name__, "order", list(reg._data) == list(reg), reg._data is reg._data,
        all(reg[k] is reg[k] for k in reg), all(isinstance(i.record, CircularRecord) for i in reg.values()))
attempt("abstract", EmbeddedRegistry)
attempt("combined", lambda: sorted((CombinedRegistry() << YTKRegistry() << PTKRegistry() << YTKRegistry()).keys()))


def clone(rec, **changes):
    rec = copy.deepcopy(rec)
    out = SeqRecord(rec.seq, id=rec.id, name=rec.name, description=rec.description,
                    annotations=rec.annotations, features=rec.features)
    for k, v in changes.items():
        setattr(out, k, v)
    return out


# B. a direct user subclass whose hooks trace their calls, rename, or fail
class Boom(Exception):
    pass


class Tracing(EmbeddedRegistry):
    def __init__(self):
        self.calls = []

    def _act(self, hook, record):
        self.calls.append((hook, record.id, record.description))
        for action in record.description.split():
            what, _, where = action.partition("@")
            if where != hook:
                continue
            if what == "rename":
                record.id = record.id + "_" + hook
            elif what == "stop":
                raise StopIteration
            elif what == "stopmsg":
                raise StopIteration("stopped in " + hook)
            elif what == "key":
                raise KeyError(record.id)
            elif what == "boom":
                raise Boom(hook, record.id)
            elif what == "runtime":
                raise RuntimeError("generator raised StopIteration")
            elif what == "genexit":
                raise GeneratorExit

    def _load_name(self, record):
        self._act("name", record)
        return "name of " + record.id

    def _load_resistance(self, record):
        self._act("resistance", record)
        return super(Tracing, self)._load_resistance(record)

    def _load_entity(self, record):
        self._act("entity", record)
        return ytk.YTKPart1(record)


ACTIONS = ["rename", "stop", "stopmsg", "key", "boom", "runtime", "genexit"]
HOOKS = ["name", "resistance", "entity", "nowhere"]


def tracing_description():
    r = RNG.random()
    if r < 0.45:
        return "plain"
    acts = ["{}@{}".format(RNG.choice(ACTIONS if r > 0.7 else ACTIONS[:1]), RNG.choice(HOOKS)) for _ in range(RNG.choice((1, 1, 2)))]
    return " ".join(acts)


def exercise_user(tag, cls, peek=True):
    reg = cls()
    for round_ in range(2):  # a failed load is not cached: everything runs again
        dump_registry((tag, round_), reg)
        if peek:
            attempt((tag, round_, "data"), lambda: [(k, v.id, v.record.id) for k, v in reg._data.items()])
            attempt((tag, round_, "cached"), lambda: (reg._data is reg._data, all(reg[k] is reg[k] for k in reg._data)))
    if hasattr(reg, "calls"):
        log(tag, "calls", reg.calls)


for n in range(200):
    records = []
    for k in range(RNG.choice((0, 1, 1, 2, 3, 4, 6))):
        id_ = RNG.choice(("A", "B", "C", "D")) if RNG.random() < 0.4 else "R{}".format(k)  # duplicates happen
        records.append(make_record(id_, description=tracing_description(),
                                   labels=rand_labels(RNG.choice(("one", "one", "one", "one", None)))))
    log("tracing", n, [(r.id, r.description) for r in records])
    exercise_user(("tracing", n), subregistry(Tracing, records))

# C. damaged archives
good = [make_record("G{}".format(k), labels=rand_labels("one")) for k in range(3)]
two = to_genbank(good[0]) + to_genbank(good[1])
for n, (records, names) in enumerate([
    ([], None),
    (good + ["not genbank"], ["G0", "G1", "G2", "junk"]),
    (["not genbank"] + good, ["junk", "G0", "G1", "G2"]),
    (good + [""], ["G0", "G1", "G2", "empty"]),
    ([good[0], two, good[2]], ["G0", "two", "G2"]),
    (good, ["x/G0", "y/G1.gb", "G2"]),
    (good + good, None),
    ([good[0], to_genbank(good[1]).replace("LOCUS", "LOKUS"), good[2]], None),
    ([to_genbank(good[0]).lower()], ["lower"]),
]):
    exercise_user(("damaged", n), subregistry(Tracing, records, names))

# an archive holding a directory entry; a plain (not gzipped) tar; a missing file; a missing package
fname = make_archive(good)
path = os.path.join(PKG_DIR, PKG_NAME, fname)
with tarfile.open(path, "w:gz") as tar:
    info = tarfile.TarInfo("folder")
    info.type = tarfile.DIRTYPE
    tar.addfile(info)
    data = to_genbank(good[0]).encode()
    info = tarfile.TarInfo("folder/G0")
    info.size = len(data)
    tar.addfile(info, io.BytesIO(data))
exercise_user("with-dir", type(str("WithDir"), (Tracing,), {"_module": PKG_NAME, "_file": fname}))
fname = make_archive(good)
with tarfile.open(os.path.join(PKG_DIR, PKG_NAME, fname), "w") as tar:
    data = to_genbank(good[0]).encode()
    info = tarfile.TarInfo("G0")
    info.size = len(data)
    tar.addfile(info, io.BytesIO(data))
exercise_user("plain-tar", type(str("PlainTar"), (Tracing,), {"_module": PKG_NAME, "_file": fname}))
exercise_user("no-file", type(str("NoFile"), (Tracing,), {"_module": PKG_NAME, "_file": "nothing.tar.gz"}))
exercise_user("no-module", type(str("NoModule"), (Tracing,), {"_module": "equivpkg_r13_absent", "_file": fname}))
exercise_user("unset", type(str("Unset"), (Tracing,), {}))

# D. user subclasses of the kit registries over scratch archives
YTK_HINTS = sorted(YTKRegistry._types) + ["9", "", " 1", "1 ", "3A"]


def kit_records(kind):
    records = []
    for k in range(RNG.choice((1, 1, 2, 3))):
        if kind == "ytk":
            src = RNG.choice(REAL[YTKRegistry] + REAL[PTKRegistry]).entity.record
            lines = (src.annotations.get("comment") or "").splitlines()
            r = RNG.random()
            if r < 0.6:
                lines.insert(RNG.randint(0, len(lines)), "YTK:" + RNG.choice(YTK_HINTS))
            if r < 0.15:
                lines.append("YTK:" + RNG.choice(YTK_HINTS))
            if 0.75 < r < 0.8:
                lines = []
            rec = clone(src)
            if lines or r < 0.9:
                rec.annotations["comment"] = "\n".join(lines)
            else:
                rec.annotations.pop("comment", None)
        elif kind == "cidar":
            src = RNG.choice(REAL[CIDARRegistry]).entity.record
            rec = clone(src)
            if RNG.random() < 0.3:
                rec.description = RNG.choice(["MoClo Basic Part: CDS", "MoClo Level 3: x", "nothing",
                                              "MoClo Destination Vector: y", "MoClo Basic Part: thing"])
            if RNG.random() < 0.3:
                rec.id = RNG.choice(["DVA_XY", "DVK_XY", "OTHER"])
        elif kind == "ecoflex":
            src = RNG.choice(REAL[EcoFlexRegistry]).entity.record
            rec = clone(src)
            if RNG.random() < 0.4:
                rec.id = RNG.choice(["pTU1-x", "pTU2-x", "pTU3", "ptu1-x", "pTU", "pBP-x", "xpTU1"])
        else:
            src = RNG.choice(REAL[PlantRegistry] + REAL[YTKRegistry][:5]).entity.record
            rec = clone(src)
        if RNG.random() < 0.12:  # break the resistance
            for f in rec.features:
                if "label" in f.qualifiers:
                    f.qualifiers["label"] = [l.swapcase() for l in f.qualifiers["label"]]
        records.append(rec)
    return records


KIT_BASES = {"ytk": (YTKRegistry, PTKRegistry), "cidar": (CIDARRegistry,), "ecoflex": (EcoFlexRegistry,), "plant": (PlantRegistry,)}
for n in range(240):
    kind = ("ytk", "ytk", "cidar", "ecoflex", "plant")[n % 5]
    records = kit_records(kind)
    base = RNG.choice(KIT_BASES[kind])
    log("kit", n, kind, base.__name__, [(r.id, r.description, r.annotations.get("comment")) for r in records])
    exercise_user(("kit", n), subregistry(base, records), peek=n % 3 == 0)

finish()
