# coding: utf-8
"""Differential test for the rewrite of the kit hooks `_load_entity` of
YTKRegistry/PTKRegistry, EcoFlexRegistry and PlantRegistry."""
import sys

sys.path.insert(0, "/tmp/agentsR4/R19")
import tests  # noqa: E402,F401

import collections  # noqa: E402
import glob  # noqa: E402
import hashlib  # noqa: E402
import io  # noqa: E402
import os  # noqa: E402
import random  # noqa: E402
import shutil  # noqa: E402
import tarfile  # noqa: E402
import tempfile  # noqa: E402
import warnings  # noqa: E402

warnings.simplefilter("ignore")

from Bio.Seq import Seq  # noqa: E402
from Bio.SeqRecord import SeqRecord  # noqa: E402

from moclo.kits import ytk, ecoflex, moclo as moclo_kit, plant  # noqa: E402
from moclo.record import CircularRecord  # noqa: E402
from moclo.registry.base import Item  # noqa: E402
from moclo.registry.ytk import YTKRegistry, PTKRegistry  # noqa: E402
from moclo.registry.ecoflex import EcoFlexRegistry  # noqa: E402
from moclo.registry.plant import PlantRegistry  # noqa: E402
from tests._utils import build_registries  # noqa: E402

ROOT = "/tmp/agentsR4/R19"
RESULTS = []
WORK = tempfile.mkdtemp(prefix="r19_5_")


def describe(value):
    if isinstance(value, Item):
        return ("Item", value.id, value.name, value.resistance) + describe(value.entity)
    if hasattr(value, "record") and hasattr(value.record, "seq"):
        rec = value.record
        return (
            type(value).__name__, type(rec).__name__, rec.id, rec.name, rec.description, len(rec.seq),
            hashlib.md5(str(rec.seq).encode()).hexdigest(), rec.annotations.get("comment"), len(rec.features),
        )
    if isinstance(value, (list, tuple)):
        return [describe(v) for v in value]
    if isinstance(value, (str, int, bool, type(None))):
        return value
    return type(value).__name__


def attempt(tag, func, *args):
    try:
        out = ("ok", func(*args))
    except BaseException as err:
        out = ("raise", type(err).__name__, str(err).replace(WORK, "<WORK>"))
    RESULTS.append((tag, out if out[0] == "raise" else ("ok", describe(out[1]))))
    return out


def sources(kit, sub, rng, count):
    paths = sorted(glob.glob(os.path.join(ROOT, "moclo-" + kit, "registry", sub, "*.gb")))
    out = []
    for path in (paths if count is None else rng.sample(paths, count)):
        with open(path) as handle:
            out.append((os.path.basename(path)[:-3], handle.read()))
    return out


def write_archive(fname, members):
    with tarfile.open(os.path.join(WORK, fname), "w:gz") as tar:
        for name, text in members:
            data = text.encode("utf-8")
            info = tarfile.TarInfo(name)
            info.size = len(data)
            tar.addfile(info, io.BytesIO(data))


def lookups(tag, registry, keys):
    attempt((tag, "len"), len, registry)
    attempt((tag, "members"), list, registry)
    for key in keys:
        attempt((tag, "get", key), registry.__getitem__, key)
    attempt((tag, "all"), lambda: [describe(v) for v in registry._data.values()])


# --- YTK --------------------------------------------------------------------

YTK_COMMENTS = [
    "COMMENT     YTK:{t}",
    "COMMENT     first line\n            YTK:{t}\n            last line",
    "COMMENT     YTK:{t}\n            YTK:2",
    "COMMENT     YTK:{t}\n            YTK:{t}",
    "COMMENT     before\n            YTK:{t}\n            between\n            YTK:{t}\n            after",
    "COMMENT     not a hint YTK:1\n            YTK:{t}",
    "COMMENT     YTK:{t}\n            \n            trailing after blank",
    "COMMENT     ytk:{t}",
    "COMMENT     YTK {t}",
    "COMMENT     YTK:",
    "COMMENT     YTK:{t}:extra",
    "COMMENT     YTK: {t}",
    "COMMENT     YTK:{t} ",
    "COMMENT     YTK:99",
    "COMMENT     YTK:{T}",
    "COMMENT     PTK:{t}",
    None,
]


def ytk_direct(rng):
    """Call the hook the way `_data` does, on records built in memory."""
    kinds = list(YTKRegistry._types) + ["", "99", "3A", " 1", "1 ", "cassette  vector", "1:2"]
    separators = ["\n", "\r\n", "\r", "\n\n", "\x0b", " "]
    for n in range(700):
        lines = []
        for _ in range(rng.randrange(0, 6)):
            roll = rng.random()
            if roll < 0.45:
                lines.append(rng.choice(["YTK:", "YTK:", "YTK::", " YTK:", "ytk:", "YTK"]) + rng.choice(kinds) + rng.choice(["", "", " ", "\t"]))
            elif roll < 0.6:
                lines.append("")
            else:
                lines.append(rng.choice(["some comment", "YTK", "see YTK:1", "  padded  ", "PTK:1"]))
        comment = rng.choice(separators).join(lines) + rng.choice(["", "", "\n"])
        seq = "".join(rng.choice("ATGC") for _ in range(rng.randrange(10, 60)))
        record = CircularRecord(SeqRecord(Seq(seq), id="direct{}".format(n), name="d{}".format(n)))
        if rng.random() < 0.95:
            record.annotations["comment"] = comment
        if rng.random() < 0.03:
            record.annotations["comment"] = lines  # not a string
        registry = rng.choice([YTKRegistry, PTKRegistry, UserYTK])()
        out = attempt(("ytk direct", n, comment), registry._load_entity, record)
        RESULTS.append(("ytk direct", n, "comment after", record.annotations.get("comment"),
                        out[0] == "ok" and out[1].record is record))


class UserYTK(YTKRegistry):
    """A user-defined kit registry with its own type table."""

    _types = dict(YTKRegistry._types, **{"": ytk.YTKPart8a, "3A": ytk.YTKPart3a, "1:2": ytk.YTKPart1})


def ytk_archives(rng):
    members = []
    for n, (ident, text) in enumerate(sources("ytk", "ytk", rng, 60) + sources("ytk", "ptk", rng, 15)):
        lines = text.splitlines()
        at = [i for i, l in enumerate(lines) if l.startswith("COMMENT     YTK:")][0]
        kind = lines[at].split(":", 1)[1]
        template = YTK_COMMENTS[n % len(YTK_COMMENTS)]
        newid = "{}v{}".format(ident, n % len(YTK_COMMENTS))
        if template is None:
            del lines[at]
        else:
            lines[at: at + 1] = template.format(t=kind, T=kind.upper()).split("\n")
        members.append((newid, "\n".join(lines).replace(ident, newid) + "\n"))
    # one registry per member so that a failing record does not hide the others
    for n, (name, text) in enumerate(members):
        write_archive("ytk{}.tar.gz".format(n), [(name, text)])
    good = [m for n, m in enumerate(members) if n % len(YTK_COMMENTS) in (0, 1, 2, 3, 4, 5, 6)]
    write_archive("ytk_good.tar.gz", good)
    return [("ytk{}.tar.gz".format(n), [name]) for n, (name, _) in enumerate(members)] + \
        [("ytk_good.tar.gz", [name for name, _ in good])]


# --- EcoFlex ----------------------------------------------------------------

class OverlappingEcoFlex(EcoFlexRegistry):
    _VECTORS = collections.OrderedDict([
        ("pTU", ecoflex.EcoFlexDeviceVector),
        ("pTU1", ecoflex.EcoFlexCassetteVector),
    ])


class ReversedEcoFlex(EcoFlexRegistry):
    _VECTORS = collections.OrderedDict([
        ("pTU1", ecoflex.EcoFlexCassetteVector),
        ("pTU", ecoflex.EcoFlexDeviceVector),
    ])


class EmptyEcoFlex(EcoFlexRegistry):
    _VECTORS = {}


class NoneEcoFlex(EcoFlexRegistry):
    _VECTORS = {"pTU2": None, "pBP": ecoflex.EcoFlexPart}


class TupleEcoFlex(EcoFlexRegistry):
    _VECTORS = {("pTU1", "ptu1"): ecoflex.EcoFlexCassetteVector, "": ecoflex.EcoFlexDeviceVector}


class BadEcoFlex(EcoFlexRegistry):
    _VECTORS = {3: ecoflex.EcoFlexCassetteVector}


ECOFLEX_CLASSES = [EcoFlexRegistry, OverlappingEcoFlex, ReversedEcoFlex, EmptyEcoFlex, NoneEcoFlex,
                   TupleEcoFlex, BadEcoFlex]


def ecoflex_archives(rng):
    members = []
    for n, (ident, text) in enumerate(sources("ecoflex", "ecoflex", rng, None)):
        kind = n % 8
        if kind in (0, 1, 2):
            newid = ident
        elif kind == 3:
            newid = ident.lower()
        elif kind == 4:
            newid = "x" + ident
        elif kind == 5:
            newid = rng.choice(["pTU1", "pTU2", "pTU3", "pTU", "pTU4-" + ident[-5:], "pT"])
        elif kind == 6:
            newid = ident.replace("pTU1", "pTU2").replace("pBP", "pTU3")
        else:
            newid = ident.replace("pTU", "PTU").replace("pBP-", "pTU1")
        members.append((newid + "-m{}".format(n) if kind == 5 and False else newid, text.replace(ident, newid)))
    for n, (name, text) in enumerate(members):
        write_archive("eco{}.tar.gz".format(n), [(name, text)])
    return [("eco{}.tar.gz".format(n), [name]) for n, (name, _) in enumerate(members)]


def ecoflex_direct(rng):
    texts = sources("ecoflex", "ecoflex", rng, 12)
    import Bio.SeqIO
    for n in range(300):
        ident, text = rng.choice(texts)
        record = CircularRecord(Bio.SeqIO.read(io.StringIO(text), "gb"))
        record.id = rng.choice([ident, "pTU1", "pTU2x", "pTU3", "ptu1", " pTU1", "", "pTU", "pBP", None, 7,
                                "pTU1" * 3, "ppTU1", "pTU2\n"])
        cls = rng.choice(ECOFLEX_CLASSES)
        out = attempt(("ecoflex direct", n, cls.__name__, repr(record.id)), cls()._load_entity, record)
        RESULTS.append(("ecoflex direct", n, "same record", out[0] == "ok" and out[1].record is record))


# --- Plant ------------------------------------------------------------------

class TypedPlant(PlantRegistry):
    _types = {}  # filled below with identifiers of the archive


class NonePlant(PlantRegistry):
    _types = {"pICH41258": None, "pICH41276": 5}


class DefaultDictPlant(PlantRegistry):
    _types = collections.defaultdict(lambda: moclo_kit.MoCloEntryVector)


PLANT_CLASSES = [PlantRegistry, TypedPlant, NonePlant, DefaultDictPlant]


def plant_archives(rng):
    members = sources("plant", "plant", rng, None)
    choices = [moclo_kit.MoCloPro, moclo_kit.MoCloCDS1, moclo_kit.MoCloEntryVector, moclo_kit.MoCloCassetteVector,
               plant.Plant5U, plant.PlantTer, moclo_kit.MoCloPart, moclo_kit.MoCloEndLinker]
    for ident, _ in members[::3]:
        TypedPlant._types[ident] = rng.choice(choices)
    TypedPlant._types["not there"] = moclo_kit.MoCloPro
    for n, (name, text) in enumerate(members):
        write_archive("plant{}.tar.gz".format(n), [(name, text)])
    write_archive("plant_all.tar.gz", members)
    return [("plant{}.tar.gz".format(n), [name]) for n, (name, _) in enumerate(members)] + \
        [("plant_all.tar.gz", [name for name, _ in members])]


def plant_direct(rng):
    import Bio.SeqIO
    texts = sources("plant", "plant", rng, 12)
    for n in range(300):
        ident, text = rng.choice(texts)
        record = CircularRecord(Bio.SeqIO.read(io.StringIO(text), "gb"))
        record.id = rng.choice([ident, ident.lower(), "pICH41258", "pICH41276", "not there", "", None, 3, ("a",), ["unhashable"]])
        cls = rng.choice(PLANT_CLASSES)
        out = attempt(("plant direct", n, cls.__name__, repr(record.id)), cls()._load_entity, record)
        RESULTS.append(("plant direct", n, "same record", out[0] == "ok" and out[1].record is record,
                        sorted(map(repr, cls._types)) if cls is DefaultDictPlant else None))


def bind(cls, fname):
    return type(str(cls.__name__ + "_" + fname.split(".")[0]), (cls,), {"_module": "r19res5", "_file": fname})


def main():
    rng = random.Random(190005)
    for kit, name in [("ytk", "ytk"), ("ytk", "ptk"), ("ecoflex", "ecoflex"), ("plant", "plant")]:
        path = os.path.join(ROOT, "moclo-{}".format(kit), "moclo", "registry", name + ".tar.gz")
        if not os.path.exists(path):
            build_registries(kit)
    with open(os.path.join(WORK, "r19res5.py"), "w") as handle:
        handle.write("# resources of the differential test\n")
    sys.path.insert(0, WORK)
    try:
        for fname, keys in ytk_archives(rng):
            for cls in (YTKRegistry, PTKRegistry, UserYTK):
                lookups((cls.__name__, fname), bind(cls, fname)(), keys)
        ytk_direct(rng)

        for fname, keys in ecoflex_archives(rng):
            for cls in ECOFLEX_CLASSES:
                lookups((cls.__name__, fname), bind(cls, fname)(), keys)
        ecoflex_direct(rng)

        for fname, keys in plant_archives(rng):
            for cls in PLANT_CLASSES:
                lookups((cls.__name__, fname), bind(cls, fname)(), keys)
        plant_direct(rng)
        RESULTS.append(("defaultdict untouched", sorted(map(repr, DefaultDictPlant._types))))

        # the real kits
        for cls in (YTKRegistry, PTKRegistry, EcoFlexRegistry, PlantRegistry):
            registry = cls()
            attempt((cls.__name__, "real"), lambda: [describe(registry[k]) for k in sorted(registry)])
            attempt((cls.__name__, "order"), lambda: list(registry._data))
    finally:
        shutil.rmtree(WORK, ignore_errors=True)

    digest = hashlib.sha256(repr(RESULTS).encode("utf-8")).hexdigest()
    print(len(RESULTS), digest)


if __name__ == "__main__":
    main()
