# coding: utf-8
"""Differential test for the code behind C19 (assembly, digestion, errors).

Prints a digest of everything observable through the existing API on a few
hundred generated inputs: results, exceptions (type, message, args,
attributes), warnings, and the state of the inputs afterwards. Set
``EQUIV_DUMP=/some/file`` to also write all the lines behind the digest.
"""
from __future__ import print_function

import hashlib
import importlib
import inspect
import os
import random
import re
import sys
import warnings

sys.path.insert(0, "/tmp/agents9/C19")
warnings.simplefilter("ignore")
import tests  # noqa: E402,F401

from Bio.Restriction import BsaI, BsmBI, BpiI, BbsI, BseRI, EcoRV, EcoRI  # noqa: E402
from Bio.Seq import Seq  # noqa: E402
from Bio.SeqFeature import SeqFeature, FeatureLocation, Reference  # noqa: E402
from Bio.SeqRecord import SeqRecord  # noqa: E402

from moclo import errors  # noqa: E402
from moclo.core import (  # noqa: E402
    AbstractModule,
    AbstractVector,
    AbstractPart,
    Entry,
    Cassette,
    Product,
    Device,
    EntryVector,
    CassetteVector,
    DeviceVector,
)
from moclo.core._assembly import AssemblyManager  # noqa: E402
from moclo.core._structured import StructuredRecord  # noqa: E402
from moclo.core._utils import add_as_source, cutter_check  # noqa: E402
from moclo.record import CircularRecord  # noqa: E402

warnings.resetwarnings()

RNG = random.Random(190019)
LINES = []
SITES = ["GGTCTC", "GAGACC", "CGTCTC", "GAGACG", "GAAGAC", "GTCTTC", "GAGGAG", "CTCCTC"]
OVERHANGS = ["CCCT", "AACG", "TATG", "ATCC", "GCTG", "TACA", "GAGT", "CCGA", "CAAT", "TTCT"]
IUPAC = {
    "A": "A", "C": "C", "G": "G", "T": "T", "N": "ACGT", "B": "CGT", "D": "AGT",
    "H": "ACT", "K": "GT", "M": "AC", "R": "AG", "S": "CG", "V": "ACG", "W": "AT",
    "Y": "CT",
}


ADDRESS = re.compile(r" at 0x[0-9a-fA-F]+")


def emit(*parts):
    LINES.append(ADDRESS.sub("", " | ".join(str(p) for p in parts)))


# --- descriptions ----------------------------------------------------------------


def d(obj, depth=0):
    """Describe a value without addresses."""
    if depth > 4:
        return "..."
    if obj is None or isinstance(obj, (bool, int, float)):
        return repr(obj)
    if isinstance(obj, str):
        return "str:" + obj
    if isinstance(obj, bytes):
        return "bytes:" + repr(obj)
    if isinstance(obj, Seq):
        return "Seq:" + str(obj)
    if isinstance(obj, Reference):
        return "Ref:" + str(obj.title)
    if isinstance(obj, SeqRecord):
        return "{}:{}".format(type(obj).__name__, rec_state(obj))
    if isinstance(obj, StructuredRecord):
        return "<{} of {}>".format(type(obj).__name__, getattr(obj.record, "id", "?"))
    if isinstance(obj, BaseException):
        return exc_state(obj, depth + 1)
    if isinstance(obj, tuple) and hasattr(obj, "_fields"):
        return "{}({})".format(
            type(obj).__name__,
            ", ".join("{}={}".format(f, d(v, depth + 1)) for f, v in zip(obj._fields, obj)),
        )
    if isinstance(obj, (list, tuple)):
        inner = ", ".join(d(x, depth + 1) for x in obj)
        return ("[{}]" if isinstance(obj, list) else "({})").format(inner)
    if isinstance(obj, dict):
        items = sorted((d(k, depth + 1), d(v, depth + 1)) for k, v in obj.items())
        return "{" + ", ".join("{}: {}".format(k, v) for k, v in items) + "}"
    if isinstance(obj, (SeqFeature,)):
        return feat_state(obj)
    if inspect.isclass(obj):
        return "class:" + obj.__name__
    return "<{}>".format(type(obj).__name__)


def feat_state(f):
    return "F({} {} id={} q={})".format(f.type, f.location, f.id, d(dict(f.qualifiers)))


def rec_state(rec):
    h = hashlib.sha1(str(rec.seq).encode()).hexdigest()[:12]
    return "len={} sha={} id={} name={} desc={} dbx={} ann={} feats=[{}] letter={}".format(
        len(rec),
        h,
        rec.id,
        rec.name,
        rec.description,
        d(list(rec.dbxrefs)),
        d(dict(rec.annotations)),
        "; ".join(feat_state(f) for f in rec.features),
        d(dict(rec.letter_annotations)),
    )


def exc_state(e, depth=0):
    attrs = {}
    for name in (
        "sequence", "exc", "details", "duplicates", "remaining", "start_overhang",
    ):
        if hasattr(e, name):
            attrs[name] = getattr(e, name)
    return "{}({!r}) args={} attrs={} cause={} ctx={} suppress={}".format(
        type(e).__name__,
        str(e),
        d(tuple(e.args), depth),
        d(attrs, depth),
        type(e.__cause__).__name__,
        type(e.__context__).__name__,
        e.__suppress_context__,
    )


def run(label, func, *inputs):
    """Run ``func`` and record outcome, warnings and state of the inputs."""
    with warnings.catch_warnings(record=True) as caught:
        warnings.simplefilter("always")
        try:
            out = "OK " + d(func())
        except Exception as e:  # noqa
            out = "EXC " + exc_state(e)
    warns = [
        "{}:{}".format(w.category.__name__, d(w.message))
        for w in caught
        if "pkg_resources" not in str(w.message)
    ]
    emit(label, out, "warnings=" + d(warns))
    for i, rec in enumerate(inputs):
        emit(label, "input{}".format(i), rec_state(rec))


# --- generation ------------------------------------------------------------------


def rc(s):
    return str(Seq(s).reverse_complement())


def rand_dna(n, avoid=SITES):
    while True:
        s = "".join(RNG.choice("ACGT") for _ in range(n))
        padded = "AA" + s + "AA"
        if not any(site in padded for site in avoid):
            return s


def fill(structure):
    """Build a sequence matching a structure pattern (letters, groups, N*)."""
    out = []
    i = 0
    while i < len(structure):
        c = structure[i]
        if c in "()":
            i += 1
            continue
        nxt = structure[i + 1 : i + 3]
        if nxt.startswith("*"):
            out.append(rand_dna(RNG.randint(0, 30)))
            i += 3 if nxt == "*?" else 2
            continue
        out.append(RNG.choice(IUPAC[c]) if c != "N" else rand_dna(1))
        i += 1
    return "".join(out)


def case_variant(seq, mode):
    if mode == "upper":
        return seq
    if mode == "lower":
        return seq.lower()
    return "".join(c.lower() if RNG.random() < 0.5 else c for c in seq)


def decorate(rec, flavour):
    """Add annotations / features / citations to a record."""
    if flavour == 0:
        return rec
    refs = []
    for title in ("alpha", "beta", "gamma")[: RNG.randint(1, 3)]:
        r = Reference()
        r.title = title + rec.id
        refs.append(r)
    if flavour >= 1:
        rec.annotations["references"] = refs
        rec.annotations["molecule_type"] = "DNA"
        rec.features.append(
            SeqFeature(
                FeatureLocation(1, max(2, len(rec) - 1), 1),
                type="misc_feature",
                qualifiers={
                    "label": ["span " + rec.id],
                    "citation": ["[{}]".format(RNG.randint(1, len(refs)))],
                },
            )
        )
        a = RNG.randint(0, len(rec) - 2)
        rec.features.append(
            SeqFeature(
                FeatureLocation(a, RNG.randint(a + 1, len(rec)), -1),
                type="CDS",
                qualifiers={"note": ["x"], "citation": ["[1]", "[{}]".format(len(refs))]},
            )
        )
    if flavour == 2:
        rec.features.append(
            SeqFeature(FeatureLocation(0, len(rec), 1), type="source", qualifiers={})
        )
        rec.letter_annotations["phred_quality"] = [RNG.randint(0, 40) for _ in rec.seq]
    if flavour == 3:  # citation out of range
        rec.features[0].qualifiers["citation"] = ["[7]"]
    if flavour == 4:  # malformed citation
        rec.features[0].qualifiers["citation"] = ["7"]
    if flavour == 5:  # citations but no references at all
        del rec.annotations["references"]
    return rec


class Kit(object):
    def __init__(self, name, cutter, site, gap, three_prime=False):
        self.name, self.cutter, self.site, self.gap = name, cutter, site, gap
        self.three_prime = three_prime
        ovl = 2 if three_prime else 4
        self.ovl = ovl
        kit = self

        def mod_structure():
            return "{s}{g}({o})(NN*N)({o}){g}{r}".format(
                s=site, g="N" * gap, o="N" * ovl, r=rc(site)
            )

        def vec_structure():
            return "N({o})({g}{r}N*{s}{g})({o})N".format(
                s=site, g="N" * gap, o="N" * ovl, r=rc(site)
            )

        def make(base, structure):
            body = {"cutter": cutter}
            if three_prime:
                body["structure"] = staticmethod(structure)
            return type(str(name + base.__name__), (base,), body)

        self.modules = [
            make(b, mod_structure) for b in (Entry, Cassette, Product, Device, AbstractModule)
        ]
        self.vectors = [
            make(b, vec_structure)
            for b in (EntryVector, CassetteVector, DeviceVector, AbstractVector)
        ]
        del kit

    def overhangs(self, n):
        if self.three_prime:
            pool = ["AC", "AG", "CA", "CC", "GA", "TC", "TG", "AA"]
        else:
            pool = OVERHANGS
        return RNG.sample(pool, n)

    def module_seq(self, up, down, target=None, left=None, right=None):
        gap = rand_dna(self.gap)
        return "".join(
            [
                rand_dna(RNG.randint(0, 25)) if left is None else left,
                self.site,
                gap,
                up,
                rand_dna(RNG.randint(2, 50)) if target is None else target,
                down,
                rand_dna(self.gap),
                rc(self.site),
                rand_dna(RNG.randint(0, 50)) if right is None else right,
            ]
        )

    def vector_seq(self, first, last):
        return "".join(
            [
                rand_dna(1),
                first,
                rand_dna(self.gap),
                rc(self.site),
                rand_dna(RNG.randint(0, 40)),
                self.site,
                rand_dna(self.gap),
                last,
                rand_dna(RNG.randint(10, 80)),
            ]
        )


KITS = [
    Kit("GenBsaI", BsaI, "GGTCTC", 1),
    Kit("GenBsmBI", BsmBI, "CGTCTC", 1),
    Kit("GenBpiI", BpiI, "GAAGAC", 2),
    Kit("GenBbsI", BbsI, "GAAGAC", 2),
    Kit("GenBseRI", BseRI, "GAGGAG", 8, three_prime=True),
]


def circular(seq, ident, rotation=0, flavour=0):
    rec = decorate(CircularRecord(Seq(seq), id=ident, name="n" + ident), flavour)
    if rotation:
        rec = rec >> (rotation % len(rec))
    return rec


# --- part A: single entities -------------------------------------------------------


def entity_report(label, entity, rec):
    run(label + " is_valid", entity.is_valid)
    run(label + " overhang_start", entity.overhang_start)
    run(label + " overhang_end", entity.overhang_end)
    run(label + " target_sequence", entity.target_sequence, rec)
    if isinstance(entity, AbstractVector):
        run(label + " placeholder_sequence", entity.placeholder_sequence, rec)
    run(label + " target_sequence again", entity.target_sequence, rec)


def kit_classes():
    seen = []
    for k in ["ytk", "cidar", "ecoflex", "moclo", "plant"]:
        mod = importlib.import_module("moclo.kits." + k)
        for name, cls in sorted(vars(mod).items()):
            if inspect.isclass(cls) and issubclass(cls, StructuredRecord) and cls not in seen:
                seen.append(cls)
    return seen


def part_a():
    for cls in kit_classes():
        label = "A {}".format(cls.__name__)
        emit(label, "mro", [c.__name__ for c in cls.__mro__])
        try:
            structure = cls.structure()
        except Exception as e:  # noqa
            emit(label, "structure", exc_state(e))
            run(label + " instantiate", lambda: cls(circular("ACGT" * 10, "x")).is_valid())
            continue
        emit(label, "structure", structure)
        for k in range(3):
            core = fill(structure)
            seq = rand_dna(RNG.randint(0, 40)) + core + rand_dna(RNG.randint(5, 60))
            seq = case_variant(seq, ["upper", "lower", "mixed"][k])
            rot = [0, RNG.randint(1, len(seq) - 1), len(seq) - RNG.randint(1, 8)][k]
            rec = circular(seq, "r{}".format(k), rot, flavour=k)
            entity_report("{} #{}".format(label, k), cls(rec), rec)
        # plain SeqRecord, linear annotation, garbage
        core = fill(structure)
        plain = SeqRecord(Seq(rand_dna(7) + core + rand_dna(9)), id="plain")
        entity_report(label + " plain", cls(plain), plain)
        lin = SeqRecord(Seq(core[5:] + rand_dna(9) + core[:5]), id="lin")
        lin.annotations["topology"] = "linear"
        entity_report(label + " linear", cls(lin), lin)
        wrapped = SeqRecord(Seq(core[5:] + rand_dna(9) + core[:5]), id="wrapped")
        wrapped.annotations["topology"] = RNG.choice(["circular", "Circular", "CIRCULAR"])
        entity_report(label + " wrapped", cls(wrapped), wrapped)
        junk = circular(rand_dna(60), "junk")
        entity_report(label + " junk", cls(junk), junk)

    # illegal sites and 3' overhangs
    for kit in KITS:
        for mcls in kit.modules[:2] + kit.vectors[:2]:
            label = "A {}".format(mcls.__name__)
            for k in range(3):
                a, b = kit.overhangs(2)
                if issubclass(mcls, AbstractModule):
                    seq = kit.module_seq(a, b)
                else:
                    seq = kit.vector_seq(a, b)
                seq = case_variant(seq, ["upper", "mixed", "lower"][k])
                rec = circular(seq, "g{}".format(k), [0, 5, len(seq) - 4][k], flavour=k)
                entity_report("{} #{}".format(label, k), mcls(rec), rec)
            if issubclass(mcls, AbstractModule):
                inner = kit.module_seq(*kit.overhangs(2), target=rand_dna(5) + kit.site + rand_dna(9))
                after = kit.module_seq(*kit.overhangs(2), right=rand_dna(8) + kit.site + rand_dna(8))
                before = kit.module_seq(*kit.overhangs(2), left=rand_dna(8) + kit.site + rand_dna(8))
                rcafter = kit.module_seq(*kit.overhangs(2), right=rand_dna(8) + rc(kit.site) + rand_dna(8))
                for nm, seq in [("inner", inner), ("after", after), ("before", before), ("rcafter", rcafter)]:
                    rec = circular(seq, nm)
                    entity_report("{} site-{}".format(label, nm), mcls(rec), rec)

    # abstract classes / bad cutters
    class NoCutter(AbstractModule):
        pass

    class Blunt(AbstractVector):
        cutter = EcoRV

    class NotTypeIIS(AbstractModule):
        cutter = EcoRI

    for cls in (NoCutter, Blunt, AbstractModule, AbstractVector, AbstractPart, StructuredRecord):
        run("A new {}".format(cls.__name__), lambda: cls(circular("ACGT" * 9, "x")))
    run("A EcoRI structure", NotTypeIIS.structure)
    rec = circular(rand_dna(40), "e")
    run("A EcoRI valid", lambda: NotTypeIIS(rec).is_valid())


# --- part B: assemblies ------------------------------------------------------------


def part_b(count):
    for n in range(count):
        kit = KITS[n % len(KITS)]
        nmods = RNG.randint(1, 5)
        ovhs = kit.overhangs(nmods + 1)
        mode = RNG.choice(
            ["ok"] * 8
            + ["missing", "duplicate", "unused", "revcomp", "samevec", "illegal", "junk",
               "plainrec", "twice", "extra-site", "same-id"]
        )
        cases = [RNG.choice(["upper", "upper", "lower", "mixed"]) for _ in range(nmods + 1)]
        flav = [RNG.choice([0, 0, 1, 2]) for _ in range(nmods + 1)]
        if mode == "ok" and RNG.random() < 0.3:
            flav[RNG.randrange(nmods + 1)] = RNG.choice([3, 4, 5])
        vcls = RNG.choice(kit.vectors)
        vseq = kit.vector_seq(ovhs[0], ovhs[0] if mode == "samevec" else ovhs[-1])
        vrec = circular(case_variant(vseq, cases[-1]), "vec{}".format(n),
                        RNG.choice([0, 3, len(vseq) // 2]), flav[-1])
        recs, mods = [], []
        for i in range(nmods):
            seq = kit.module_seq(
                ovhs[i], ovhs[i + 1],
                right=(rand_dna(9) + kit.site + rand_dna(6)) if mode == "extra-site" and i == 0 else None,
            )
            ident = "m{}_{}".format(n, 0 if mode == "same-id" else i)
            rec = circular(case_variant(seq, cases[i]), ident,
                           RNG.choice([0, 0, 2, len(seq) - 3, len(seq) // 2]), flav[i])
            recs.append(rec)
            mods.append(RNG.choice(kit.modules)(rec))
        if mode == "missing" and nmods > 1:
            k = RNG.randrange(nmods)
            del mods[k], recs[k]
        elif mode == "duplicate":
            seq = kit.module_seq(ovhs[0], ovhs[1])
            recs.append(circular(seq, "dup{}".format(n)))
            mods.append(kit.modules[0](recs[-1]))
        elif mode == "unused":
            a, b = [o for o in (OVERHANGS if not kit.three_prime else ["GG", "CT", "TA"]) if o not in ovhs][:2]
            recs.append(circular(kit.module_seq(a, b), "spare{}".format(n)))
            mods.append(kit.modules[1](recs[-1]))
        elif mode == "revcomp":
            recs.append(circular(kit.module_seq(rc(ovhs[0]), ovhs[1]), "rev{}".format(n)))
            mods.append(kit.modules[1](recs[-1]))
        elif mode == "illegal":
            seq = kit.module_seq(ovhs[0], ovhs[1], target=rand_dna(4) + rc(kit.site) + rand_dna(4))
            recs[0] = circular(seq, "ill{}".format(n))
            mods[0] = kit.modules[0](recs[0])
        elif mode == "junk":
            recs[0] = circular(rand_dna(70), "junk{}".format(n))
            mods[0] = kit.modules[0](recs[0])
        elif mode == "plainrec":
            recs[0] = SeqRecord(recs[0].seq, id="plain{}".format(n))
            mods[0] = kit.modules[0](recs[0])
        order = list(range(len(mods)))
        RNG.shuffle(order)
        mods = [mods[i] for i in order]
        vector = vcls(vrec)
        label = "B{} {} {} x{}".format(n, kit.name, mode, nmods)
        kwargs = RNG.choice([{}, {}, {"name": "nm"}, {"id": "ident"}, {"id": "i", "name": "n", "junk": 1}])
        run(label, lambda: vector.assemble(*mods, **kwargs), vrec, *recs)
        if mode == "twice" or n % 7 == 0:
            run(label + " again", lambda: vector.assemble(*mods, **kwargs), vrec, *recs)
        if n % 5 == 0:
            run(label + " manager",
                lambda: AssemblyManager(vector, list(mods), "x", "y").assemble(), vrec, *recs)
        if n % 9 == 0:
            run(label + " manager kw",
                lambda: AssemblyManager(vector=vector, modules=list(mods), id_="kw", name="kwn").assemble())
        if n % 11 == 0:

            def manager_attrs():
                mgr = AssemblyManager(vector, list(mods))
                return [mgr.vector, mgr.modules, mgr.elements, mgr.name, mgr.id]

            def manager_map():
                mgr = AssemblyManager(vector, list(mods))
                return sorted((str(k), d(v)) for k, v in mgr._generate_modules_map().items())

            run(label + " mgr attrs", manager_attrs)
            run(label + " modmap", manager_map)


# --- part C: registries -------------------------------------------------------------


def part_c():
    from moclo.registry.ytk import YTKRegistry, PTKRegistry
    from moclo.registry.cidar import CIDARRegistry
    from moclo.registry.ecoflex import EcoFlexRegistry
    from moclo.registry.plant import PlantRegistry

    regs = {}
    for cls in (YTKRegistry, PTKRegistry, CIDARRegistry, EcoFlexRegistry, PlantRegistry):
        try:
            reg = cls()
            items = [reg[k] for k in sorted(reg)]
        except Exception as e:  # noqa
            emit("C", cls.__name__, "unavailable", type(e).__name__)
            continue
        regs[cls.__name__] = reg
        for item in items:
            ent = item.entity
            label = "C {} {}".format(cls.__name__, item.id)
            emit(label, type(ent).__name__, item.name, item.resistance)
            run(label + " valid", ent.is_valid)
            run(label + " ovh", lambda: (ent.overhang_start(), ent.overhang_end()))
            run(label + " target", lambda: hashlib.sha1(str(ent.target_sequence().seq).encode()).hexdigest())
            if isinstance(ent, AbstractVector):
                run(label + " placeholder",
                    lambda: hashlib.sha1(str(ent.placeholder_sequence().seq).encode()).hexdigest())

    reg = regs.get("CIDARRegistry")
    if reg is not None:
        plans = [
            ("DVK_EF", ("J23102_EB", "BCD2_BC", "E1010m_CD", "B0015_DF")),
            ("DVK_AE", ("J23102_AB", "BCD2_BC", "E1010m_CD", "B0015_DE")),
            ("DVA_EF", ("J23102_EB", "BCD2_BC", "E0040m_CD", "B0015_DF")),
        ]
        for vid, mids in plans:
            vector = reg[vid].entity
            mods = [reg[m].entity for m in mids]
            run("C cidar {}".format(vid), lambda: vector.assemble(*mods))
            for pos, old in enumerate(mods):
                for item in [reg[k] for k in sorted(reg)]:
                    ent = item.entity
                    if type(ent) is not type(old) or ent is old:
                        continue
                    try:
                        same = (
                            str(ent.overhang_start()) == str(old.overhang_start())
                            and str(ent.overhang_end()) == str(old.overhang_end())
                        )
                    except errors.InvalidSequence:
                        same = False
                    if not same:
                        continue
                    new = mods[:pos] + [ent] + mods[pos + 1 :]
                    run("C cidar {} {}->{}".format(vid, mids[pos], item.id),
                        lambda: hashlib.sha1(str(vector.assemble(*new).seq).encode()).hexdigest())
    reg = regs.get("YTKRegistry")
    if reg is not None:
        from moclo.kits import ytk
        wanted = [ytk.YTKPart2, ytk.YTKPart3, ytk.YTKPart4]
        pools = [[reg[k].entity for k in sorted(reg) if type(reg[k].entity) is w][:4] for w in wanted]
        vectors = [reg[k].entity for k in sorted(reg) if isinstance(reg[k].entity, ytk.YTKCassetteVector)][:3]
        for vector in vectors:
            for a in pools[0][:2]:
                for b in pools[1]:
                    for c in pools[2][:2]:
                        run("C ytk {} {} {} {}".format(vector.record.id, a.record.id, b.record.id, c.record.id),
                            lambda: hashlib.sha1(str(vector.assemble(c, a, b).seq).encode()).hexdigest())


# --- part D: helpers, errors --------------------------------------------------------


def part_d():
    src = circular(rand_dna(30), "src")
    dst = SeqRecord(Seq(rand_dna(12)), id="dst")
    run("D add_as_source pos", lambda: add_as_source(src, dst), src, dst)
    run("D add_as_source loc", lambda: add_as_source(src, dst, FeatureLocation(2, 5)), src, dst)
    run("D add_as_source kw",
        lambda: add_as_source(src_record=src, dst_record=dst, location=FeatureLocation(1, 3, -1)), src, dst)
    run("D add_as_source mixed", lambda: add_as_source(src, dst_record=dst, location=None), src, dst)
    run("D add_as_source bad", lambda: add_as_source(src))
    for cutter in (NotImplemented, EcoRV, EcoRI, BsaI, BseRI):
        run("D cutter_check {}".format(getattr(cutter, "__name__", cutter)),
            lambda: cutter_check(cutter, "Name"))
        run("D cutter_check kw {}".format(getattr(cutter, "__name__", cutter)),
            lambda: cutter_check(cutter=cutter, name="Name"))

    m1 = KITS[0].modules[0](circular(KITS[0].module_seq("CCCT", "AACG"), "e1"))
    m2 = KITS[0].modules[0](circular(KITS[0].module_seq("CCCT", "AACG"), "e2"))
    builders = [
        lambda: errors.MocloError("x", 1),
        lambda: errors.InvalidSequence(Seq("ACGT")),
        lambda: errors.InvalidSequence("ACGT", details="why"),
        lambda: errors.InvalidSequence(Seq("ACGT"), ValueError("v"), "d"),
        lambda: errors.InvalidSequence(sequence="AC", exc=None, details=None),
        lambda: errors.IllegalSite(Seq("GGTCTC")),
        lambda: errors.IllegalSite(Seq("GGTCTC"), details="twice"),
        lambda: errors.AssemblyError("boom"),
        lambda: errors.DuplicateModules(m1, m2),
        lambda: errors.DuplicateModules(m1, m2, details="same"),
        lambda: errors.DuplicateModules(),
        lambda: errors.DuplicateModules(m1, m2, junk=3),
        lambda: errors.MissingModule(Seq("ACGT")),
        lambda: errors.MissingModule("ACGT", details="dd"),
        lambda: errors.MissingModule(start_overhang="AAAA"),
        lambda: errors.AssemblyWarning("w"),
        lambda: errors.UnusedModules(m1),
        lambda: errors.UnusedModules(m1, m2, details=12),
        lambda: errors.UnusedModules(),
        lambda: errors.MissingModule(),
        lambda: errors.InvalidSequence(),
        lambda: errors.DuplicateModules(m1, details=5),
        lambda: errors.MissingModule("A", details=5),
        lambda: errors.InvalidSequence("A", details=5),
        lambda: errors.IllegalSite("A", details="{} {}"),
        lambda: errors.MissingModule("A", details="{}"),
        lambda: errors.DuplicateModules(m1, m2, details="{0}{0}"),
        lambda: errors.UnusedModules(m1, details="{}"),
        lambda: errors.DuplicateModules("not a module"),
        lambda: errors.UnusedModules(None, details="x"),
    ]
    for i, b in enumerate(builders):
        run("D error {}".format(i), b)

        def probe():
            e = b()
            return (
                str(e), [c.__name__ for c in type(e).__mro__], isinstance(e, ValueError),
                isinstance(e, RuntimeError), isinstance(e, Warning),
            )

        run("D error {} probe".format(i), probe)
    # topology annotations, options of assemble, private stages of the manager
    kit = KITS[0]
    for topo in (None, 3, "", "circular ", "LINEAR", "Circular"):
        rec = SeqRecord(Seq(kit.module_seq("CCCT", "AACG")), id="topo")
        rec.annotations["topology"] = topo
        run("D topology {!r}".format(topo), lambda: kit.modules[0](rec).is_valid(), rec)
    vrec = circular(kit.vector_seq("CCCT", "TATG"), "dv", 4, 1)
    r1 = circular(kit.module_seq("CCCT", "AACG").lower(), "d1", 3, 1)
    r2 = circular(kit.module_seq("AACG", "TATG"), "d2", 0, 2)
    vector, e1, e2 = kit.vectors[1](vrec), kit.modules[0](r1), kit.modules[1](r2)
    for kwargs in ({"id": None}, {"name": None}, {"id": 5, "name": ["n"]}, {"id_": "x"}, {"ID": "x"}):
        run("D assemble {}".format(sorted(kwargs)), lambda: vector.assemble(e2, e1, **kwargs), vrec, r1, r2)
    run("D assemble no module", lambda: vector.assemble())
    run("D assemble list", lambda: vector.assemble([e1, e2]))
    run("D manager tuple", lambda: AssemblyManager(vector, (e1, e2)))
    run("D manager missing", lambda: AssemblyManager(vector))
    run("D manager bad kw", lambda: AssemblyManager(vector, [e1], label="x"))
    run("D manager none", lambda: AssemblyManager(vector, [e1, e2], None, None).assemble(), vrec, r1, r2)

    def stages():
        mgr = AssemblyManager(vector, [e2, e1], "sid", "sname")
        out = []
        modmap = mgr._generate_modules_map()
        out.append(sorted(str(k) for k in modmap))
        mgr._deref_citations(r1)
        out.append(rec_state(r1))
        mgr._deref_citations(r2)
        product = mgr._generate_assembly(modmap)
        out.append(rec_state(product))
        out.append(sorted(str(k) for k in modmap))
        mgr._annotate_assembly(product)
        mgr._ref_citations(product)
        out.append(rec_state(product))
        mgr._ref_citations(r1)
        mgr._ref_citations(r2)
        out.append(mgr._CITATION_RX.pattern)
        return out

    run("D manager stages", stages, vrec, r1, r2)
    names = sorted(n for n in dir(errors) if not n.startswith("_"))
    emit("D errors names", [n for n in names if inspect.isclass(getattr(errors, n))])


def main():
    part_a()
    part_b(260)
    part_c()
    part_d()
    text = "\n".join(LINES)
    dump = os.environ.get("EQUIV_DUMP")
    if dump:
        with open(dump, "w") as f:
            f.write(text + "\n")
    print("lines:", len(LINES))
    print("digest:", hashlib.sha256(text.encode("utf-8")).hexdigest())


if __name__ == "__main__":
    main()
