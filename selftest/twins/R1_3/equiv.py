# coding: utf-8
"""Differential test for refactorings of moclo/moclo/regex.py and
moclo/moclo/record.py.

Run as ``cd /tmp/agentsR/R1 && /venv/bin/python refactor_out/R1_X/equiv.py``.
Prints a sha256 digest of the repr of every observed result (exceptions are
recorded by type and message); the digest must be identical on the pristine
tree and on the refactored tree.
"""
import sys

sys.path.insert(0, "/tmp/agentsR/R1")
import tests  # noqa: E402,F401  (splices the kit packages in the moclo namespace)

import hashlib  # noqa: E402
import random  # noqa: E402
import warnings  # noqa: E402

from Bio.Restriction import BpiI, BsaI, BsmBI  # noqa: E402
from Bio.Seq import Seq  # noqa: E402
from Bio.SeqFeature import (  # noqa: E402
    AfterPosition,
    BeforePosition,
    CompoundLocation,
    ExactPosition,
    FeatureLocation,
    SeqFeature,
)
from Bio.SeqRecord import SeqRecord  # noqa: E402

from moclo.core.modules import AbstractModule  # noqa: E402
from moclo.core.vectors import AbstractVector  # noqa: E402
from moclo.record import CircularRecord  # noqa: E402
from moclo.regex import DNARegex, SeqMatch  # noqa: E402

warnings.simplefilter("ignore")

RESULTS = []
RNG = random.Random(20260926)


# --- canonical descriptions -------------------------------------------------


def d_loc(loc):
    return repr(loc)


def d_feature(f):
    return (
        f.type,
        f.id,
        d_loc(f.location),
        sorted((k, repr(v)) for k, v in f.qualifiers.items()),
    )


def d_record(rec):
    if not isinstance(rec, SeqRecord):
        return ("not-a-record", type(rec).__name__, repr(rec))
    return (
        type(rec).__name__,
        str(rec.seq),
        rec.id,
        rec.name,
        rec.description,
        list(rec.dbxrefs),
        [d_feature(f) for f in rec.features],
        sorted((k, repr(v)) for k, v in rec.annotations.items()),
        sorted((k, repr(v)) for k, v in rec.letter_annotations.items()),
    )


def d_any(x):
    if isinstance(x, SeqRecord):
        return d_record(x)
    if isinstance(x, Seq):
        return ("Seq", str(x))
    return (type(x).__name__, repr(x))


def attempt(label, func, *args, **kwargs):
    """Run ``func`` and log its description or its exception."""
    try:
        out = func(*args, **kwargs)
    except Exception as exc:  # noqa: B902
        RESULTS.append((label, "EXC", type(exc).__name__, str(exc)))
        return None
    RESULTS.append((label, "OK", out))
    return out


# --- generators ---------------------------------------------------------------


def rand_dna(n, alphabet="ACGT"):
    return "".join(RNG.choice(alphabet) for _ in range(n))


def rand_case(s):
    return "".join(c.lower() if RNG.random() < 0.4 else c for c in s)


def rand_position(value):
    r = RNG.random()
    if r < 0.8:
        return ExactPosition(value)
    if r < 0.9:
        return BeforePosition(value)
    return AfterPosition(value)


def rand_simple_location(n, lo=None, hi=None):
    a = RNG.randint(0, n) if lo is None else lo
    b = RNG.randint(a, n) if hi is None else hi
    strand = RNG.choice([1, -1, None, 0])
    if RNG.random() < 0.08:
        return FeatureLocation(
            rand_position(a), rand_position(b), strand=strand, ref="REF1", ref_db="DB"
        )
    return FeatureLocation(rand_position(a), rand_position(b), strand=strand)


def rand_features(n, allow_none=True):
    feats = []
    for i in range(RNG.randint(0, 6)):
        r = RNG.random()
        quals = {}
        if RNG.random() < 0.5:
            quals["label"] = ["f{}".format(i)]
        if r < 0.12:
            loc = FeatureLocation(0, n, strand=RNG.choice([1, None]))
            ftype = RNG.choice(["source", "misc_feature"])
        elif r < 0.2 and n > 0:
            loc = FeatureLocation(0, n, strand=1)
            ftype = "source"
        elif r < 0.45 and n >= 4:
            # compound location wrapping the origin
            cut = RNG.randint(1, n - 1)
            stop = RNG.randint(1, cut)
            strand = RNG.choice([1, -1])
            parts = [
                FeatureLocation(cut, n, strand=strand),
                FeatureLocation(0, stop, strand=strand),
            ]
            if RNG.random() < 0.3:
                parts.append(FeatureLocation(stop, stop + 0, strand=strand))
            if strand == -1:
                parts.reverse()
            loc = CompoundLocation(parts, operator=RNG.choice(["join", "order"]))
            ftype = RNG.choice(["CDS", "source", "gene"])
        elif r < 0.5 and allow_none:
            loc = None
            ftype = "unlocated"
        else:
            loc = rand_simple_location(n)
            ftype = RNG.choice(["CDS", "promoter", "source", "misc_feature"])
        feats.append(
            SeqFeature(location=loc, type=ftype, id="feat{}".format(i), qualifiers=quals)
        )
    return feats


def rand_annotations():
    r = RNG.random()
    if r < 0.2:
        return None
    ann = {}
    if RNG.random() < 0.6:
        ann["topology"] = RNG.choice(
            ["circular", "Circular", "CIRCULAR", "linear", "Linear", "circular "]
        )
    if RNG.random() < 0.5:
        ann["molecule_type"] = "DNA"
    if RNG.random() < 0.3:
        ann["references"] = ["ref-a", "ref-b"]
    return ann


def rand_letter_annotations(n):
    if RNG.random() < 0.5:
        return None
    la = {"phred_quality": [RNG.randint(0, 40) for _ in range(n)]}
    if RNG.random() < 0.5:
        la["tag"] = rand_dna(n, "xyz")
    return la


class SubCircular(CircularRecord):
    """A user subclass: rotation / reverse complement must keep the type."""


def rand_circular(n=None, cls=None, allow_none=True):
    n = RNG.randint(1, 40) if n is None else n
    cls = cls or RNG.choice([CircularRecord, CircularRecord, SubCircular])
    ann = rand_annotations()
    if ann is not None and ann.get("topology", "circular").lower() != "circular":
        ann["topology"] = "circular"
    return cls(
        Seq(rand_case(rand_dna(n, "ACGTN"))),
        id="id{}".format(n),
        name="name{}".format(RNG.randint(0, 9)),
        description="desc",
        dbxrefs=["db:1"] if RNG.random() < 0.4 else None,
        features=rand_features(n, allow_none=allow_none),
        annotations=ann,
        letter_annotations=rand_letter_annotations(n),
    )


# --- A. regex: transcription and construction ---------------------------------


def check_transcribe():
    letters = "ACGTBDHKMNRSVWYacgtbdhkmnrsvwy()*+?[]^_.|Xx01 "
    for i in range(300):
        pat = "".join(RNG.choice(letters) for _ in range(RNG.randint(0, 25)))
        attempt(("transcribe", i), DNARegex._transcribe, pat)

        def build(p=pat):
            rx = DNARegex(p)
            return (rx.pattern, rx.regex.pattern, rx.regex.flags, rx.regex.groups)

        attempt(("init", i), build)
    for pat in ["", "N", "n", "GGTCTCN(NNNN)(N*)(NNNN)NGAGACC", "(NN)(N*?)(RY)"]:
        attempt(("transcribe-fixed", pat), DNARegex._transcribe, pat)

    class Sub(DNARegex):
        _lettermap = dict(DNARegex._lettermap, X="[AC]", N="[ACGT]")

    for pat in ["NXN", "xXn", "(N)X*"]:
        attempt(("transcribe-sub", pat), Sub._transcribe, pat)
        attempt(("init-sub", pat), lambda p=pat: Sub(p).regex.pattern)


# --- B. regex: search -----------------------------------------------------------


def d_match(m, target):
    if m is None:
        return None
    ngroups = m.match.re.groups
    return (
        type(m).__name__,
        m.rec is target,
        m.shift,
        m.start(),
        m.end(),
        [m.span(i) for i in range(ngroups + 1)],
        m.span(),
        [d_any(m.group(i)) for i in range(ngroups + 1)],
        d_any(m.group()),
    )


def check_search():
    patterns = [
        "AA(NN)",
        "GGTCTCN(NNNN)(N*)(NNNN)NGAGACC",
        "(A)(C)?(N*)T",
        "(RY)(N*?)(SW)",
        "N*",
        "(N*)",
        "ACGT",
        "(?:AC)+(G)?",
        "",
        "GAAGACNN(NNNN)(N*)(NNNN)NNGTCTTC",
    ]
    regexes = [DNARegex(p) for p in patterns]
    i = 0
    for _ in range(260):
        n = RNG.randint(0, 36)
        alphabet = RNG.choice(["ACGT", "ACGT", "ACGTN", "AC", "ACGTRY"])
        text = rand_case(rand_dna(n, alphabet))
        if RNG.random() < 0.3 and n > 12:
            # plant a site so that matches exist, possibly across the origin
            site = rand_case("GGTCTCA" + rand_dna(4) + rand_dna(3) + rand_dna(4) + "TGAGACC")
            rot = RNG.randint(0, len(site))
            text = site[rot:] + text + site[:rot]
        kind = RNG.choice(["seq", "rec", "circ", "circ", "str", "sub"])
        if kind == "seq":
            target = Seq(text)
        elif kind == "rec":
            target = SeqRecord(Seq(text), id="r", features=rand_features(len(text), False))
        elif kind == "circ":
            target = CircularRecord(
                Seq(text), id="c", features=rand_features(len(text), False)
            )
        elif kind == "sub":
            target = SubCircular(Seq(text), id="s")
        else:
            target = text
        for rx in RNG.sample(regexes, 4):
            i += 1
            kwargs = {}
            r = RNG.random()
            if r < 0.3:
                kwargs["pos"] = RNG.randint(-5, len(text) + 5)
            if 0.2 < r < 0.5:
                kwargs["endpos"] = RNG.randint(-5, 2 * len(text) + 5)
            if RNG.random() < 0.5:
                kwargs["linear"] = RNG.choice([True, False])
            label = ("search", i, rx.pattern, kind, text, sorted(kwargs.items()))
            try:
                m = rx.search(target, **kwargs)
            except Exception as exc:  # noqa: B902
                RESULTS.append((label, "EXC", type(exc).__name__, str(exc)))
                continue
            try:
                RESULTS.append((label, "OK", d_match(m, target)))
            except Exception as exc:  # noqa: B902
                RESULTS.append((label, "EXC-DESC", type(exc).__name__, str(exc)))
    # positional arguments and bad types
    rx = DNARegex("AA(NN)")
    s = Seq("ATGCAGCATA")
    attempt("search-pos", lambda: d_match(rx.search(s, 0, 100, False), s))
    attempt("search-pos2", lambda: d_match(rx.search(s, 9, 10, False), s))
    attempt("search-pos3", lambda: d_match(rx.search(s, 10, 20, False), s))
    for bad in ["ATGC", None, 12, b"ATGC", ["A"], ("A",)]:
        attempt(("search-bad", repr(bad)), rx.search, bad)
    import inspect

    attempt("search-sig", lambda: str(inspect.signature(DNARegex.search)))


# --- C. regex: SeqMatch.group on synthetic spans -----------------------------------


class FakeMatch(object):
    def __init__(self, spans):
        self.spans = spans

    def span(self, index=0):
        return self.spans[index]

    def start(self):
        return self.spans[0][0]

    def end(self):
        return self.spans[0][1]


def check_group():
    i = 0
    for _ in range(80):
        n = RNG.randint(0, 12)
        text = rand_case(rand_dna(n))
        recs = [
            Seq(text),
            SeqRecord(Seq(text), id="lin", features=rand_features(n, False)),
            CircularRecord(Seq(text), id="circ", features=rand_features(n, False)),
            text,
            list(text),
        ]
        spans = [(-1, -1), (0, 0), (n, n), (0, n), (n, 2 * n), (2 * n, 2 * n), (0, 2 * n)]
        for _ in range(8):
            a = RNG.randint(-2, 3 * n + 2)
            b = RNG.randint(-2, 3 * n + 2)
            spans.append((a, b))
        fm = FakeMatch(spans)
        for rec in recs:
            sm = SeqMatch(fm, rec, shift=RNG.randint(0, 3))
            attempt(("sm-attrs", i), lambda s=sm: (s.start(), s.end(), s.span(), s.shift))
            for k in range(len(spans)):
                i += 1
                attempt(("group", i, type(rec).__name__, text, spans[k]), lambda s=sm, k=k: d_any(s.group(k)))
            attempt(("group-default", i), lambda s=sm: d_any(s.group()))


# --- D. record: construction ----------------------------------------------------------


def check_init():
    for i in range(250):
        n = RNG.randint(0, 30)
        ann = rand_annotations()
        sr_kwargs = dict(
            id="sr{}".format(i),
            name="nm",
            description="a record",
            dbxrefs=["x:{}".format(i)] if RNG.random() < 0.5 else None,
            features=rand_features(n),
            annotations=ann,
            letter_annotations=rand_letter_annotations(n),
        )
        seq = Seq(rand_case(rand_dna(n, "ACGTN")))
        cls = RNG.choice([CircularRecord, SubCircular])
        mode = RNG.choice(["from-record", "from-circular", "direct", "direct-min"])

        def build():
            if mode == "direct":
                cr = cls(seq, **sr_kwargs)
                shared = (
                    cr.features is sr_kwargs["features"],
                    cr.annotations is sr_kwargs["annotations"],
                    cr.dbxrefs is sr_kwargs["dbxrefs"],
                )
                return (d_record(cr), shared)
            if mode == "direct-min":
                return (d_record(cls(seq)), d_record(cls(seq, "an-id", "a-name")))
            src = SeqRecord(seq, **sr_kwargs)
            if mode == "from-circular":
                src = CircularRecord(src)
            # other arguments are ignored when copying a record
            cr = cls(src, "ignored-id", name="ignored", annotations={"topology": "linear"})
            shared = (
                cr.seq is src.seq,
                cr.features is src.features,
                cr.annotations is src.annotations,
                cr.dbxrefs is src.dbxrefs,
                cr.letter_annotations is src.letter_annotations,
                any(a is b for a, b in zip(cr.features, src.features)),
            )
            before = d_record(src)
            cr.annotations["mutated"] = True
            cr.dbxrefs.append("mut")
            if cr.features:
                cr.features[0].type = "mutated"
            return (d_record(cr), shared, before == d_record(src))

        attempt(("init", i, mode, cls.__name__), build)
    attempt("init-str", lambda: d_record(CircularRecord("ATGC")))
    attempt("init-none", lambda: d_record(CircularRecord(None)))
    attempt("init-bad-topology", CircularRecord, Seq("A"), annotations={"topology": 3})
    attempt("init-bad-annotations", CircularRecord, Seq("A"), annotations=[("topology", "x")])
    attempt("init-letter-mismatch", CircularRecord, Seq("AC"), letter_annotations={"q": [1]})


# --- E. record: operators other than the rotation ------------------------------------------


def check_operators():
    for i in range(150):
        cr = rand_circular(allow_none=False)
        n = len(cr)
        text = str(cr.seq)
        # __contains__
        probes = ["", text, text * 2, text[n // 2 :] + text[: n // 2], rand_dna(2), "N"]
        probes.append((text * 2)[RNG.randint(0, n) :][: RNG.randint(0, n + 1)])
        probes.append(text.upper()[: RNG.randint(0, n)])
        for p in probes:
            attempt(("contains-str", i, p), lambda p=p: p in cr)
            attempt(("contains-seq", i, p), lambda p=p: Seq(p) in cr)
        attempt(("contains-int", i), lambda: 3 in cr)
        attempt(("contains-rec", i), lambda: cr in cr)
        # __getitem__
        indices = [0, -1, n - 1, n, -n - 1, RNG.randint(-n, n - 1)]
        for k in indices:
            attempt(("getitem-int", i, k), lambda k=k: d_any(cr[k]))
        for _ in range(6):
            sl = slice(
                RNG.choice([None, RNG.randint(-n - 2, n + 2)]),
                RNG.choice([None, RNG.randint(-n - 2, n + 2)]),
                RNG.choice([None, None, 1, -1, 2, 0]),
            )

            def getslice(sl=sl):
                out = cr[sl]
                shared = (
                    out.annotations is cr.annotations,
                    out.dbxrefs is cr.dbxrefs,
                    any(a is b for a in out.features for b in cr.features),
                    cr.annotations.get("topology"),
                )
                return (d_record(out), shared)

            attempt(("getitem-slice", i, repr(sl)), getslice)
        attempt(("getitem-str", i), lambda: cr["a"])
        # ambiguous operators
        attempt(("add", i), lambda: cr + cr)
        attempt(("add-str", i), lambda: cr + "A")
        attempt(("radd", i), lambda: "A" + cr)
        attempt(("radd-rec", i), lambda: SeqRecord(Seq("A")) + cr)
        attempt(("add-meta", i), lambda: (CircularRecord.__add__.__name__, CircularRecord.__radd__.__name__, CircularRecord.__add__.__doc__))
        # reverse complement
        for _ in range(3):
            flags = {
                k: RNG.choice([True, False, "custom"] if k in ("id", "name", "description") else [True, False])
                for k in RNG.sample(
                    ["id", "name", "description", "features", "annotations", "letter_annotations", "dbxrefs"],
                    RNG.randint(0, 7),
                )
            }

            def rc(flags=flags):
                out = cr.reverse_complement(**flags)
                return (type(out) is type(cr), d_record(out), out.annotations is cr.annotations)

            attempt(("revcomp", i, sorted(flags.items(), key=str)), rc)
    lin = CircularRecord(Seq("ATGC"), annotations={"topology": "circular"})
    lin.annotations["topology"] = "linear"
    attempt("revcomp-linear-annotations", lambda: d_record(lin.reverse_complement(annotations=True)))
    attempt("revcomp-linear-noannotations", lambda: d_record(lin.reverse_complement()))
    attempt("getitem-linear", lambda: d_record(lin[1:3]))


# --- F. record: rotation ------------------------------------------------------------------


def check_rotation():
    for i in range(260):
        cr = rand_circular()
        n = len(cr)
        amounts = [0, 1, -1, n, -n, n - 1, n + 1, 2 * n, 3 * n + 2, -5 * n - 3, True, False]
        amounts += [RNG.randint(-4 * n, 4 * n) for _ in range(4)]
        before = d_record(cr)
        for k in amounts:
            for op in (">>", "<<"):

                def rotate(k=k, op=op):
                    out = (cr >> k) if op == ">>" else (cr << k)
                    shared = (
                        out is cr,
                        type(out) is type(cr),
                        out.annotations is cr.annotations,
                        out.dbxrefs is cr.dbxrefs,
                        out.features is cr.features,
                        [a.qualifiers is b.qualifiers for a, b in zip(out.features, cr.features)],
                        [a.location is b.location for a, b in zip(out.features, cr.features)],
                        [a is b for a, b in zip(out.features, cr.features)],
                    )
                    return (d_record(out), shared)

                attempt(("rotate", i, op, k), rotate)
        # chained rotations come back to the original
        a, b = RNG.randint(-50, 50), RNG.randint(-50, 50)
        attempt(("rotate-chain", i, a, b), lambda: d_record((cr >> a) << b))
        attempt(("rotate-chain2", i, a, b), lambda: d_record(((cr << a) >> b) >> (a - b)))
        for bad in [1.5, -0.5, 0.0, float(n), "1", None, 2.0 ** 70, -1e-20, 1e-20]:
            attempt(("rotate-bad", i, ">>", repr(bad)), lambda bad=bad: d_any(cr >> bad))
            attempt(("rotate-bad", i, "<<", repr(bad)), lambda bad=bad: d_any(cr << bad))
        attempt(("rotate-untouched", i), lambda: before == d_record(cr))
    empty = CircularRecord(Seq(""), id="empty")
    for k in [0, 1, -1]:
        attempt(("rotate-empty", ">>", k), lambda k=k: d_any(empty >> k))
        attempt(("rotate-empty", "<<", k), lambda k=k: d_any(empty << k))
    # features reaching beyond the end of the record (overlap on additional turns)
    for i in range(60):
        n = RNG.randint(3, 15)
        feats = []
        for j in range(RNG.randint(1, 4)):
            a = RNG.randint(0, 3 * n)
            b = a + RNG.randint(0, 2 * n)
            feats.append(
                SeqFeature(
                    FeatureLocation(a, b, strand=RNG.choice([1, -1, None])),
                    type=RNG.choice(["source", "CDS"]),
                    id="far{}".format(j),
                )
            )
        cr = CircularRecord(Seq(rand_dna(n)), id="far", features=feats)
        for k in [1, n - 1, RNG.randint(-30, 30), RNG.randint(-30, 30)]:
            attempt(("rotate-far", i, k), lambda k=k: d_record(cr >> k))
            attempt(("rotate-far-l", i, k), lambda k=k: d_record(cr << k))


# --- G. whole assemblies through the core classes ----------------------------------------------


class VBpiI(AbstractVector):
    cutter = BpiI


class MBpiI(AbstractModule):
    cutter = BpiI


class VBsaI(AbstractVector):
    cutter = BsaI


class MBsaI(AbstractModule):
    cutter = BsaI


class VBsmBI(AbstractVector):
    cutter = BsmBI


class MBsmBI(AbstractModule):
    cutter = BsmBI


KITS = {
    "BpiI": (VBpiI, MBpiI, "GAAGAC", "GTCTTC", 2),
    "BsaI": (VBsaI, MBsaI, "GGTCTC", "GAGACC", 1),
    "BsmBI": (VBsmBI, MBsmBI, "CGTCTC", "GAGACG", 1),
}

FORBIDDEN = ["GAAGAC", "GTCTTC", "GGTCTC", "GAGACC", "CGTCTC", "GAGACG"]


def clean_dna(n):
    while True:
        s = rand_dna(n)
        if not any(site in (s * 2) for site in FORBIDDEN):
            return s


def rand_overhangs(k):
    out = []
    while len(out) < k:
        o = rand_dna(4)
        rc = str(Seq(o).reverse_complement())
        if o == rc or o in out or rc in out:
            continue
        if any(site in o for site in ("GAAG", "GTCT", "GGTC", "GAGA", "CGTC")):
            continue
        out.append(o)
    return out


def decorate(text, ident, citations):
    n = len(text)
    feats = rand_features(n, allow_none=False)
    ann = {"topology": RNG.choice(["circular", "Circular", "CIRCULAR"])}
    if RNG.random() < 0.06:
        ann["topology"] = "linear"
    if RNG.random() < 0.3:
        del ann["topology"]
    if citations:
        ann["references"] = ["paper-{}-{}".format(ident, j) for j in range(2)]
        a = RNG.randint(0, n - 1)
        feats.append(
            SeqFeature(
                FeatureLocation(a, RNG.randint(a, n), strand=1),
                type="misc_feature",
                qualifiers={"citation": [RNG.choice(["[1]", "[2]"])], "label": ["cited"]},
            )
        )
    seq = Seq(rand_case(text))
    if ann.get("topology", "circular").lower() == "circular" and RNG.random() < 0.95:
        rec = CircularRecord(seq, id=ident, name=ident, features=feats, annotations=ann)
        rot = RNG.choice([0, RNG.randint(-3 * n, 3 * n)])
        rec = rec >> rot
        if RNG.random() < 0.06:
            rec = rec.reverse_complement(id=True, name=True, annotations=True)
    else:
        rec = SeqRecord(seq, id=ident, name=ident, features=feats, annotations=ann)
    return rec


def d_structured(x):
    return (
        x.is_valid(),
        d_any(x.overhang_start()),
        d_any(x.overhang_end()),
        d_record(x.target_sequence()),
        [x._match.span(j) for j in range(4)],
        [d_any(x._match.group(j)) for j in range(4)],
    )


def check_assembly():
    for i in range(140):
        kit = RNG.choice(sorted(KITS))
        vcls, mcls, fwd, rev, pad = KITS[kit]
        nmod = RNG.randint(1, 4)
        ovs = rand_overhangs(nmod + 1)
        citations = RNG.random() < 0.4
        vtext = (
            clean_dna(RNG.randint(3, 12))
            + ovs[0]
            + clean_dna(pad)
            + rev
            + clean_dna(RNG.randint(2, 10))
            + fwd
            + clean_dna(pad)
            + ovs[-1]
            + clean_dna(RNG.randint(3, 12))
        )
        vector = vcls(decorate(vtext, "vec{}".format(i), citations))
        modules = []
        for j in range(nmod):
            mtext = (
                fwd
                + clean_dna(pad)
                + ovs[j]
                + clean_dna(RNG.randint(2, 14))
                + ovs[j + 1]
                + clean_dna(pad)
                + rev
                + clean_dna(RNG.randint(3, 12))
            )
            modules.append(mcls(decorate(mtext, "mod{}_{}".format(i, j), citations)))
        scenario = RNG.choice(["ok", "ok", "ok", "missing", "duplicate", "unused", "swap"])
        if scenario == "missing" and nmod > 1:
            modules.pop(RNG.randrange(len(modules)))
        elif scenario == "duplicate":
            dup = modules[RNG.randrange(len(modules))]
            modules.append(mcls(dup.record))
        elif scenario == "unused":
            extra = rand_overhangs(2)
            mtext = fwd + clean_dna(pad) + extra[0] + clean_dna(5) + extra[1] + clean_dna(pad) + rev + clean_dna(6)
            modules.append(mcls(decorate(mtext, "extra{}".format(i), False)))
        elif scenario == "swap":
            modules.reverse()
        RNG.shuffle(modules)

        attempt(("vector", i, kit), d_structured, vector)
        for j, mod in enumerate(modules):
            attempt(("module", i, j, kit), d_structured, mod)

        def run():
            with warnings.catch_warnings(record=True) as caught:
                warnings.simplefilter("always")
                out = vector.assemble(*modules, id="asm{}".format(i), name="asm")
            return (d_record(out), sorted(str(w.message) for w in caught if "moclo" in type(w.message).__module__))

        attempt(("assemble", i, kit, scenario), run)
        # records are left as they were (citations re-referenced)
        attempt(("after", i), lambda: [d_record(m.record) for m in modules] + [d_record(vector.record)])
        # a random sequence is (almost certainly) not a valid part
        junk = mcls(CircularRecord(Seq(rand_dna(RNG.randint(0, 40))), id="junk"))
        attempt(("junk", i), junk.is_valid)
        attempt(("junk-target", i), lambda: d_record(junk.target_sequence()))


def main():
    check_transcribe()
    check_search()
    check_group()
    check_init()
    check_operators()
    check_rotation()
    check_assembly()
    blob = repr(RESULTS).encode("utf-8")
    nexc = sum(1 for r in RESULTS if r[1] != "OK")
    print("results: {} ({} exceptions)".format(len(RESULTS), nexc), file=sys.stderr)
    print(hashlib.sha256(blob).hexdigest())


if __name__ == "__main__":
    main()
