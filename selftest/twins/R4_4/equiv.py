# coding: utf-8
"""Differential test for R4_4 (moclo.kits.cidar)."""
import sys

WT = "/tmp/agentsR/R4"
sys.path.insert(0, WT)
import tests  # noqa: E402,F401  (splices the kit packages in the moclo namespace)

import hashlib
import inspect
import os
import random
import re
import warnings

from Bio.Seq import Seq
from Bio.SeqRecord import SeqRecord
from Bio.SeqFeature import SeqFeature, FeatureLocation, Reference
from Bio.Restriction import BsaI, BsmBI, BbsI, BpiI, EcoRI

from moclo import errors
from moclo._utils import isabstract
from moclo.record import CircularRecord
from moclo.core import AbstractModule, AbstractVector, AbstractPart
from moclo.core._structured import StructuredRecord

OUT = []
_ADDR = re.compile(r"0x[0-9a-fA-F]+")


def emit(*xs):
    OUT.append(_ADDR.sub("0x", repr(xs)))


def norm(x):
    if isinstance(x, SeqRecord):
        return (
            type(x).__name__, str(x.seq), x.id, x.name, x.description,
            [(f.type, str(f.location), sorted((k, repr(v)) for k, v in f.qualifiers.items())) for f in x.features],
            sorted((k, norm(v)) for k, v in x.annotations.items()),
        )
    if isinstance(x, Seq):
        return ("Seq", str(x))
    if isinstance(x, Reference):
        return ("Ref", x.title)
    if isinstance(x, (list, tuple)):
        return [norm(y) for y in x]
    if isinstance(x, StructuredRecord):
        return ("entity", type(x).__name__, x.record.id)
    if isinstance(x, type):
        return ("class", x.__name__)
    return repr(x)


def call(f, *a, **k):
    try:
        with warnings.catch_warnings(record=True) as w:
            warnings.simplefilter("always")
            r = f(*a, **k)
        ws = [(type(x.message).__name__, str(x.message)) for x in w
              if isinstance(x.message, errors.MocloError)]
        return ("ok", norm(r), ws)
    except BaseException as e:  # noqa
        return ("exc", type(e).__name__, str(e), type(e.__cause__).__name__, e.__suppress_context__)


# --- pattern driven sequence generation --------------------------------------

IUPAC = {"A": "A", "C": "C", "G": "G", "T": "T", "N": "ACGT", "B": "CGT", "D": "AGT", "H": "ACT",
         "K": "GT", "M": "AC", "R": "AG", "S": "CG", "V": "ACG", "W": "AT", "Y": "CT"}


def parse(pattern):
    tokens, group, cur, i = [], 0, 0, 0
    while i < len(pattern):
        c = pattern[i]
        if c == "(":
            group += 1
            cur = group
            i += 1
        elif c == ")":
            cur = 0
            i += 1
        elif c not in IUPAC:
            raise ValueError("cannot parse %r" % pattern)
        elif pattern[i + 1:i + 3] == "*?":
            tokens.append(("star", c, cur))
            i += 3
        elif pattern[i + 1:i + 2] == "*":
            tokens.append(("star", c, cur))
            i += 2
        else:
            tokens.append(("base", c, cur))
            i += 1
    return tokens


def group_pattern(tokens, g):
    return [(k, c) for k, c, gg in tokens if gg == g]


def fill(rng, tokens, force=None, star=(0, 60)):
    force = dict(force or {})
    usable = {}
    for g, s in force.items():
        gp = group_pattern(tokens, g)
        if all(k == "base" for k, _ in gp) and len(gp) == len(s) and all(b in IUPAC[c] for (_, c), b in zip(gp, s)):
            usable[g] = list(s)
    out, groups = [], {}
    for kind, c, g in tokens:
        if kind == "star":
            piece = "".join(rng.choice(IUPAC[c]) for _ in range(rng.randint(*star)))
        elif g in usable:
            piece = usable[g].pop(0)
        else:
            piece = rng.choice(IUPAC[c])
        out.append(piece)
        groups[g] = groups.get(g, "") + piece
    return "".join(out), groups


def rand_dna(rng, n):
    return "".join(rng.choice("ACGT") for _ in range(n))


def recase(rng, s):
    k = rng.random()
    if k < 0.5:
        return s
    if k < 0.7:
        return s.lower()
    return "".join(ch.lower() if rng.random() < 0.5 else ch for ch in s)


def make_record(rng, core, ident, rotate=True, circular=True, features=True):
    backbone = rand_dna(rng, rng.choice([0, 1, 5, 40, 120]))
    s = core + backbone
    if rotate and s:
        k = rng.randint(-2 * len(s), 2 * len(s)) % len(s)
        if rng.random() < 0.5:  # force the match to wrap the origin
            k = rng.randint(1, max(1, len(core) - 1))
            k = len(s) - k
        s = s[k:] + s[:k]
    s = recase(rng, s)
    rec = SeqRecord(Seq(s), id=ident, name=ident + "_name", description="record " + ident)
    rec.annotations["molecule_type"] = "DNA"
    if features and len(s) > 4:
        refs = [Reference(), Reference()]
        refs[0].title = "ref A of " + ident
        refs[1].title = "ref B of " + ident
        rec.annotations["references"] = refs
        for j in range(rng.randint(0, 3)):
            a = rng.randint(0, len(s) - 2)
            b = rng.randint(a + 1, len(s))
            quals = {"label": ["feat%d" % j]}
            if rng.random() < 0.5:
                quals["citation"] = ["[%d]" % rng.randint(1, 2)]
            rec.features.append(SeqFeature(FeatureLocation(a, b, rng.choice([1, -1])), type="misc_feature", qualifiers=quals))
    if circular:
        if rng.random() < 0.5:
            rec.annotations["topology"] = "circular"
        return CircularRecord(rec)
    rec.annotations["topology"] = rng.choice(["linear", "Linear", "circular", "CIRCULAR"])
    return rec


METHODS = ("overhang_start", "overhang_end", "target_sequence", "placeholder_sequence")


def probe(cls, record):
    e = None
    try:
        e = cls(record)
    except BaseException as exc:  # noqa
        return ("ctor-exc", type(exc).__name__, str(exc))
    res = [("valid", call(e.is_valid)), ("valid2", call(e.is_valid))]
    for m in METHODS:
        if hasattr(e, m):
            res.append((m, call(getattr(e, m))))
    return res


def public_classes(mod):
    out = []
    for name in sorted(vars(mod)):
        obj = vars(mod)[name]
        if isinstance(obj, type) and issubclass(obj, StructuredRecord) and not name.startswith("_") \
                and obj.__module__ == mod.__name__:
            out.append(obj)
    return out


def public_mro(cls):
    return [c.__name__ for c in cls.__mro__ if not c.__name__.startswith("_")]


def describe_kit(mod):
    _describe_kit(mod)
    # the throw-away subclasses made below must not linger in __subclasses__()
    # (AbstractPart.characterize walks it): collect them deterministically.
    import gc
    gc.collect()
    left = [c.__name__ for k in public_classes(mod) for c in k.__subclasses__()
            if not c.__module__.startswith("moclo.")]
    emit("leftover-subclasses", left)
    assert not left, left


def _describe_kit(mod):
    emit("kit", mod.__name__, getattr(mod, "__version__", None), getattr(mod, "__author__", None),
         sorted(n for n in vars(mod) if not n.startswith("_") and isinstance(vars(mod)[n], type)
                and vars(mod)[n].__module__ == mod.__name__))
    # definition order matters for AbstractPart.characterize
    order = [n for n, o in vars(mod).items() if isinstance(o, type) and o.__module__ == mod.__name__
             and not n.startswith("_")]
    emit("order", order)
    for cls in public_classes(mod):
        emit("class", cls.__name__, type(cls).__name__, public_mro(cls),
             getattr(cls.cutter, "__name__", cls.cutter), getattr(cls, "signature", "n/a"),
             cls._level if hasattr(cls, "_level") else "n/a",
             call(cls.structure), call(isabstract, cls), sorted(cls.__abstractmethods__),
             inspect.isabstract(cls), cls.__doc__ is None or hashlib.sha256(cls.__doc__.encode()).hexdigest()[:12],
             [c.__name__ for c in cls.__subclasses__() if not c.__name__.startswith("_")],
             cls.__qualname__, cls.__module__)
        # structure through an instance, a subclass, a subclass calling super, and a re-cut subclass
        sub = type(str("Sub" + cls.__name__), (cls,), {})
        emit("sub", cls.__name__, call(sub.structure), public_mro(sub)[1:3])

        class Sup(cls):
            @classmethod
            def structure(klass):
                return "NN" + super(Sup, klass).structure() + "NN"
        emit("super", cls.__name__, call(Sup.structure))
        for enz in (BsaI, BsmBI, BbsI, EcoRI):
            recut = type(str("Recut" + cls.__name__), (cls,), {"cutter": enz})
            emit("recut", cls.__name__, enz.__name__, call(recut.structure))
        if issubclass(cls, AbstractPart):
            resig = type(str("Resig" + cls.__name__), (cls,), {"signature": ("ACGT", "TTGA")})
            emit("resig", cls.__name__, call(resig.structure))
        if not isabstract(cls):
            dummy = CircularRecord(Seq("ACGT" * 5), id="dummy")
            emit("inst", cls.__name__, call(lambda: cls(dummy).structure()), call(lambda: cls._get_regex().pattern),
                 call(lambda: cls._get_regex() is cls._get_regex()), "_regex" in vars(cls))


def structures(mod):
    out = {}
    for cls in public_classes(mod):
        try:
            out[cls] = parse(cls.structure())
        except Exception as e:
            emit("no-structure", cls.__name__, type(e).__name__, str(e))
    return out


def typing_matrix(mod, rng, per_class=5):
    """generated plasmids for every class, probed with every class of the kit"""
    toks = structures(mod)
    classes = public_classes(mod)
    part_roots = [c for c in classes if issubclass(c, AbstractPart)]
    n = 0
    for cls, tokens in toks.items():
        for i in range(per_class):
            core, groups = fill(rng, tokens, star=rng.choice([(0, 0), (0, 5), (10, 60)]))
            kind = rng.random()
            circular = True
            if kind < 0.1:
                core = core + rng.choice(["GGTCTC", "GAGACC", "CGTCTC", "GAGACG", "GAAGAC", "GTCTTC"]) + "A"
            elif kind < 0.18:
                core = core[: len(core) // 2] + core[len(core) // 2 + 1:]
            elif kind < 0.28:
                circular = False
            rec = make_record(rng, core, "%s_%d" % (cls.__name__, i), circular=circular,
                              rotate=circular or rng.random() < 0.5)
            before = norm(rec)
            for other in classes:
                emit("probe", rec.id, other.__name__, probe(other, rec))
                n += 1
            for root in part_roots:
                emit("characterize", rec.id, root.__name__, call(root.characterize, rec))
            emit("unchanged", rec.id, norm(rec) == before)
    # degenerate records
    for s in ["", "A", "N" * 30, "ACGT" * 10]:
        rec = CircularRecord(Seq(s), id="deg%d" % len(s))
        for other in classes:
            emit("probe-deg", rec.id, other.__name__, probe(other, rec))
    return n


def non_palindromic(rng, used):
    while True:
        o = rand_dna(rng, 4)
        rc = str(Seq(o).reverse_complement())
        if o != rc and o not in used and rc not in used:
            used.add(o)
            return o


def assemblies(mod, rng, rounds=40):
    toks = structures(mod)
    vecs = [c for c in toks if issubclass(c, AbstractVector)]
    mods = [c for c in toks if issubclass(c, AbstractModule)]
    count = 0
    for r in range(rounds):
        if not vecs:
            break
        V = rng.choice(vecs)
        used = set()
        o_first, o_last = non_palindromic(rng, used), non_palindromic(rng, used)
        vcore, vgroups = fill(rng, toks[V], force={1: o_first, 3: o_last}, star=(5, 40))
        vrec = make_record(rng, vcore, "vec%d" % r)
        cur, end = vgroups[1].upper(), vgroups[3].upper()
        chain, guard = [], 0
        cands = [m for m in mods if m.cutter is V.cutter]
        while cur != end and guard < 9 and cands:
            guard += 1
            rng.shuffle(cands)
            picked = None
            for M in cands:
                gp = group_pattern(toks[M], 1)
                if len(gp) == len(cur) and all(k == "base" and b in IUPAC[c] for (k, c), b in zip(gp, cur)):
                    picked = M
                    break
            if picked is None:
                break
            nxt = end if rng.random() < 0.35 else non_palindromic(rng, used)
            mcore, mgroups = fill(rng, toks[picked], force={1: cur, 3: nxt}, star=(3, 50))
            mrec = make_record(rng, mcore, "mod%d_%d_%s" % (r, guard, picked.__name__))
            chain.append((picked, mrec))
            cur = mgroups[3].upper()
        vec = call(V, vrec)
        emit("asm-vector", r, V.__name__, vec[:2], probe(V, vrec))
        if vec[0] != "ok" or not chain:
            continue
        v = V(vrec)
        ents = [M(rec) for M, rec in chain]
        variants = {"full": ents}
        if len(ents) > 1:
            variants["missing"] = ents[:-1] if rng.random() < 0.5 else ents[1:]
            variants["shuffled"] = rng.sample(ents, len(ents))
        M0, rec0 = chain[rng.randrange(len(chain))]
        variants["zz-same-object-twice"] = ents + [ents[0]]
        variants["duplicate"] = ents + [M0(CircularRecord(rec0))]
        stray_core, _ = fill(rng, toks[M0], force={1: non_palindromic(rng, used), 3: non_palindromic(rng, used)})
        variants["unused"] = ents + [M0(make_record(rng, stray_core, "stray%d" % r))]
        rc_core, _ = fill(rng, toks[M0], force={1: str(Seq(chain[0][1] and vgroups[1]).reverse_complement()),
                                                 3: non_palindromic(rng, used)})
        variants["revcomp-overhang"] = ents + [M0(make_record(rng, rc_core, "rc%d" % r))]
        variants["invalid-module"] = ents + [M0(CircularRecord(Seq(rand_dna(rng, 50)), id="junk%d" % r))]
        for name, ms in sorted(variants.items()):
            kw = {} if rng.random() < 0.5 else {"id": "asm%d" % r, "name": "asm_%s" % name}
            before = [norm(m.record) for m in ms] + [norm(v.record)]
            emit("assemble", r, V.__name__, name, [type(m).__name__ for m in ms], call(v.assemble, *ms, **kw))
            emit("assemble-untouched", r, name, [norm(m.record) for m in ms] + [norm(v.record)] == before)
            count += 1
        emit("assemble-nothing", r, call(v.assemble)[:2])
    return count


def registry_matrix(mod, registry_cls, rng, asm_rounds=25):
    """every plasmid of the embedded registry against every class of the kit + random real assemblies"""
    reg = registry_cls()
    classes = public_classes(mod)
    items = list(reg.values())
    for it in items:
        emit("reg-item", it.id, it.name, it.resistance, type(it.entity).__name__)
        rec = it.entity.record
        for cls in classes:
            if isabstract(cls) and cls.cutter is NotImplemented:
                continue
            try:
                e = cls(rec)
                valid = call(e.is_valid)
            except BaseException as exc:  # noqa
                valid = ("exc", type(exc).__name__, str(exc))
            emit("reg-valid", it.id, cls.__name__, valid)
        ent = it.entity
        res = []
        for m in METHODS:
            if hasattr(ent, m):
                r = call(getattr(ent, m))
                res.append((m, hashlib.sha256(repr(r).encode()).hexdigest()[:16]))
        emit("reg-acc", it.id, res)
    # the same plasmids rotated by amounts larger than their length / negative
    for it in rng.sample(items, min(25, len(items))):
        rec = it.entity.record
        k = rng.choice([-1, 1]) * rng.randint(0, 3 * len(rec))
        rot = rec >> k
        e = type(it.entity)(rot)
        emit("reg-rot", it.id, k, call(e.is_valid),
             [(m, hashlib.sha256(repr(call(getattr(e, m))).encode()).hexdigest()[:16]) for m in METHODS if hasattr(e, m)])
    vectors_ = [it.entity for it in items if isinstance(it.entity, AbstractVector) and it.entity.is_valid()]
    modules_ = [it.entity for it in items if isinstance(it.entity, AbstractModule) and it.entity.is_valid()]
    done = 0
    for r in range(asm_rounds * 4):
        if done >= asm_rounds or not vectors_:
            break
        v = rng.choice(vectors_)
        by_start = {}
        for m in modules_:
            if m.cutter is v.cutter:
                by_start.setdefault(str(m.overhang_start()).upper(), []).append(m)
        cur, end = str(v.overhang_end()).upper(), str(v.overhang_start()).upper()
        chain = []
        while cur != end and len(chain) < 12 and cur in by_start:
            m = rng.choice(by_start[cur])
            if m in chain:
                break
            chain.append(m)
            cur = str(m.overhang_end()).upper()
        if not chain:
            continue
        done += 1
        variants = {"full": chain, "missing": chain[:-1], "extra": chain + [rng.choice(modules_)]}
        for name, ms in sorted(variants.items()):
            if not ms:
                continue
            res = call(v.assemble, *ms)
            emit("reg-asm", v.record.id, name, [m.record.id for m in ms], res[0],
                 hashlib.sha256(repr(res).encode()).hexdigest()[:16] if res[0] == "ok" else res)
    return len(items)


def finish():
    if os.environ.get("EQUIV_DUMP"):
        with open(os.environ["EQUIV_DUMP"], "w") as f:
            f.write("\n".join(OUT))
    print(hashlib.sha256("\n".join(OUT).encode("utf-8")).hexdigest(), len(OUT))


# --- R4_4: moclo.kits.cidar ---------------------------------------------------
from moclo.core import vectors, modules  # noqa: E402
from moclo.kits import cidar  # noqa: E402
from moclo.registry.cidar import CIDARRegistry  # noqa: E402

rng = random.Random(4004)
describe_kit(cidar)
for cls in public_classes(cidar):
    emit("kinds", cls.__name__,
         [b.__name__ for b in (vectors.AbstractVector, vectors.EntryVector, vectors.CassetteVector,
                               vectors.DeviceVector, modules.AbstractModule, modules.Product, modules.Entry,
                               modules.Cassette, modules.Device, AbstractPart) if issubclass(cls, b)],
         [k for k in ("cutter", "signature", "_level") if hasattr(cls, k)],
         [getattr(getattr(cls, k), "__name__", getattr(cls, k)) for k in ("cutter", "signature", "_level") if hasattr(cls, k)])
emit("n-probes", typing_matrix(cidar, rng, per_class=8))
emit("n-assemblies", assemblies(cidar, rng, rounds=80))
emit("n-items", registry_matrix(cidar, CIDARRegistry, rng, asm_rounds=40))
reg = CIDARRegistry()
for k in sorted(reg):
    ent = reg[k].entity
    emit("level", k, type(ent).__name__, getattr(ent, "_level", None), ent.cutter.__name__,
         isinstance(ent, vectors.EntryVector), isinstance(ent, vectors.DeviceVector),
         isinstance(ent, vectors.CassetteVector))
finish()
