# coding: utf-8
"""Differential test: prints a digest of everything observable through the
existing API of the code touched by the pull request. The digest must be the
same on the pristine tree and with clean.diff applied.

Run as:  cd /tmp/agents7/C04 && /venv/bin/python pairs_out/C04_r2/equiv.py [--dump FILE]
"""
import sys

sys.path.insert(0, "/tmp/agents7/C04")
import tests  # noqa: F401,E402

import hashlib  # noqa: E402
import inspect  # noqa: E402
import random  # noqa: E402
import re  # noqa: E402
import warnings  # noqa: E402

from Bio.Seq import Seq  # noqa: E402
from Bio.SeqFeature import SeqFeature, FeatureLocation, CompoundLocation  # noqa: E402
from Bio.SeqRecord import SeqRecord  # noqa: E402
from Bio import Restriction  # noqa: E402

from moclo import errors  # noqa: E402
from moclo.record import CircularRecord  # noqa: E402
from moclo.regex import DNARegex, SeqMatch  # noqa: E402
from moclo.core import modules, vectors, parts  # noqa: E402
from moclo.core import _utils as core_utils  # noqa: E402
from moclo.core._structured import StructuredRecord  # noqa: E402
from moclo.kits import ytk, cidar, ecoflex, moclo as moclo_kit, plant  # noqa: E402

LINES = []


def out(*items):
    line = " | ".join(str(i) for i in items)
    LINES.append(re.sub(r" at 0x[0-9a-f]+", " at 0x", line))


IUPAC = {
    "A": "A", "C": "C", "G": "G", "T": "T",
    "B": "CGT", "D": "AGT", "H": "ACT", "K": "GT", "M": "AC", "N": "ACGT",
    "R": "AG", "S": "CG", "V": "ACG", "W": "AT", "Y": "CT",
}
COMP = str.maketrans("ACGTBDHKMNRSVWY", "TGCAVHDMKNYSBWR")


def rc(s):
    return s.translate(COMP)[::-1]


def random_dna(rng, k):
    return "".join(rng.choice("ACGT") for _ in range(k))


def instantiate(pattern, rng, body):
    res = []
    i = 0
    while i < len(pattern):
        ch = pattern[i]
        if ch in "()":
            i += 1
        elif ch == "N" and pattern[i + 1:i + 2] == "*":
            i += 2
            if pattern[i:i + 1] == "?":
                i += 1
            res.append(body)
        else:
            res.append(rng.choice(IUPAC[ch]))
            i += 1
    return "".join(res)


# --- descriptions ----------------------------------------------------------------


def d_feature(f):
    quals = sorted((k, repr(v)) for k, v in f.qualifiers.items())
    return "%s@%s#%s%r" % (f.type, f.location, f.id, quals)


def d_record(r):
    if r is None:
        return "None"
    return "<%s seq=%s id=%r name=%r desc=%r dbx=%r ann=%r let=%r feats=[%s]>" % (
        type(r).__name__, str(r.seq), r.id, r.name, r.description, r.dbxrefs,
        sorted((k, repr(v)) for k, v in r.annotations.items()),
        sorted((k, repr(v)) for k, v in r.letter_annotations.items()),
        "; ".join(d_feature(f) for f in r.features),
    )


def d_value(v):
    if isinstance(v, SeqRecord):
        return d_record(v)
    if isinstance(v, Seq):
        return "Seq(%s)" % str(v)
    if isinstance(v, SeqMatch):
        return "SeqMatch(%r,%r,%r,%r | %s)" % (
            v.span(0), v.start(), v.end(), v.shift,
            ",".join("%r=%s" % (v.span(i), d_value(v.group(i))) for i in range(v.match.re.groups + 1)),
        )
    return repr(v)


def d_signature(func):
    """names, kinds and defaults of the parameters (annotations left out)"""
    return [(p.name, str(p.kind), repr(p.default) if p.default is not p.empty else "-")
            for p in inspect.signature(func).parameters.values()]


def attempt(label, func, *args, **kwargs):
    with warnings.catch_warnings(record=True) as caught:
        warnings.simplefilter("always")
        try:
            res = "-> " + d_value(func(*args, **kwargs))
        except Exception as exc:  # noqa
            res = "!! %s: %s [%r]" % (type(exc).__name__, exc, sorted(
                (k, d_value(v) if isinstance(v, (Seq, SeqRecord)) else type(v).__name__)
                for k, v in vars(exc).items()))
    warns = ["%s: %s" % (w.category.__name__, w.message) for w in caught
             if "pkg_resources" not in str(w.message)]
    out(label, res, warns)


# --- classes ---------------------------------------------------------------------


def kit_classes():
    found = {}
    for mod in (ytk, cidar, ecoflex, moclo_kit, plant):
        for name, obj in sorted(vars(mod).items()):
            if inspect.isclass(obj) and issubclass(obj, StructuredRecord) and obj.__module__ == mod.__name__:
                found[obj.__module__ + "." + name] = obj
    return [found[k] for k in sorted(found)]


def is_concrete(cls):
    try:
        cls.structure()
        cls(SeqRecord(Seq("A")))
    except (NotImplementedError, TypeError, ValueError, RuntimeError):
        return False
    return True


GENERIC_BASES = (modules.AbstractModule, modules.Product, modules.Entry, modules.Cassette, modules.Device,
                 vectors.AbstractVector, vectors.EntryVector, vectors.CassetteVector, vectors.DeviceVector)


def generic_classes(names):
    res = []
    for ename in names:
        enz = getattr(Restriction, ename)
        for base in GENERIC_BASES:
            res.append(type(str("G%s_%s" % (base.__name__, ename)), (base,), {"cutter": enz}))
        ov = abs(enz.ovhg)
        sig = ("ACGT"[:ov], "TNGA"[:ov])
        res.append(type(str("GPartEntry_%s" % ename), (parts.AbstractPart, modules.Entry),
                        {"cutter": enz, "signature": sig}))
        res.append(type(str("GPartVector_%s" % ename), (parts.AbstractPart, vectors.CassetteVector),
                        {"cutter": enz, "signature": sig}))
    return res


class ThreePrimeModule(modules.Entry):
    """hand-written structure for a 3' overhang cutter (BtsI: GCAGTG_NN^N)"""
    cutter = Restriction.BtsI

    @staticmethod
    def structure():
        return "GCAGTG(NN)(NN*N)(NN)CACTGC"


class ThreePrimeVector(vectors.EntryVector):
    cutter = Restriction.BtsI

    @staticmethod
    def structure():
        return "(NN)(CACTGCN*GCAGTG)(NN)"


class LazyVector(vectors.CassetteVector):
    cutter = Restriction.BsaI

    @classmethod
    def structure(cls):
        return "(NNNN)(NGAGACCN*?GGTCTCN)(NNNN)"


# --- records -----------------------------------------------------------------------


def decorate(rng, rec, with_citation):
    n = len(rec)
    a, b = sorted(rng.sample(range(n), 2))
    rec.features.append(SeqFeature(FeatureLocation(a, b, 1), type="misc_feature", id="f1",
                                   qualifiers={"label": ["inner"], "note": ["x"]}))
    c = rng.randrange(1, n - 1)
    rec.features.append(SeqFeature(CompoundLocation([FeatureLocation(c, n, -1), FeatureLocation(0, min(c, 5), -1)]),
                                   type="CDS", qualifiers={"label": ["wrap"]}))
    rec.features.append(SeqFeature(FeatureLocation(0, n), type="source", qualifiers={"organism": ["x"]}))
    rec.annotations["molecule_type"] = "DNA"
    rec.annotations["topology"] = "circular"
    if with_citation:
        rec.annotations["references"] = ["ref-A", "ref-B"]
        rec.features[0].qualifiers["citation"] = ["[2]"]
    rec.dbxrefs.append("db:1")
    return rec


def build_records(cls, rng):
    """A list of (label, record) for the class."""
    enz = cls.cutter
    pattern = cls.structure()
    res = []
    body = random_dna(rng, rng.randint(10, 24))
    core = instantiate(pattern, rng, body)
    backbone = random_dna(rng, rng.randint(15, 35))
    seq = core + backbone
    n = len(seq)
    for rot in (0, rng.randrange(1, n), n - 2, n - len(core) + 6, n - len(core) // 2):
        res.append(("circ rot%d" % rot, CircularRecord(Seq(seq), id="pl", name="plasmid", description="d") >> rot))
    res.append(("decorated", decorate(rng, CircularRecord(Seq(seq), id="deco", name="deco"), True) >> rng.randrange(n)))
    mixed = "".join(c.lower() if rng.random() < 0.5 else c for c in seq)
    res.append(("mixed", CircularRecord(Seq(mixed), id="mx") >> rng.randrange(n)))
    res.append(("lower", CircularRecord(Seq(seq.lower()), id="lw") >> (n - 3)))
    res.append(("plain", SeqRecord(Seq(seq), id="plain")))
    res.append(("plain rot", SeqRecord(Seq(seq[-9:] + seq[:-9]), id="plainr")))
    res.append(("plain linear", SeqRecord(Seq(seq), id="lin", annotations={"topology": "linear"})))
    res.append(("plain linear rot", SeqRecord(Seq(seq[9:] + seq[:9]), id="linr", annotations={"topology": "Linear"})))
    res.append(("plain CIRCULAR", SeqRecord(Seq(seq[9:] + seq[:9]), id="cc", annotations={"topology": "CIRCULAR"})))
    # an extra site in the body, both orientations
    for extra in (enz.site, rc(enz.site)):
        extra = "".join(rng.choice(IUPAC[c]) for c in extra)
        k = rng.randrange(2, len(body) - 2)
        body2 = body[:k] + extra + random_dna(rng, 13) + body[k:]
        seq2 = instantiate(pattern, rng, body2) + backbone
        res.append(("extra", CircularRecord(Seq(seq2), id="xs") >> rng.randrange(len(seq2))))
    # an extra site in the backbone
    seq3 = core + backbone[:7] + enz.site.replace("N", "A") + backbone[7:]
    res.append(("extra backbone", CircularRecord(Seq(seq3), id="xb") >> rng.randrange(len(seq3))))
    # two copies of the structure
    core_b = instantiate(pattern, rng, random_dna(rng, 11))
    seq4 = core + backbone + core_b + random_dna(rng, 9)
    res.append(("two", CircularRecord(Seq(seq4), id="two") >> rng.randrange(len(seq4))))
    # a mutated letter in the first site / no site at all / ambiguous letters
    mut = list(core)
    lit = re.search("[ACGT]{4,}", pattern.replace("(", "").replace(")", ""))
    if lit is not None:
        pos = core.find(lit.group(0))
        if pos >= 0:
            mut[pos + 1] = "A" if mut[pos + 1] != "A" else "C"
    res.append(("mutated", CircularRecord(Seq("".join(mut) + backbone), id="mut")))
    res.append(("random", CircularRecord(Seq(random_dna(rng, 60)), id="rnd")))
    res.append(("with N", CircularRecord(Seq(instantiate(pattern, rng, "ACNNTTNAGGNCA") + backbone), id="amb")))
    res.append(("tiny", CircularRecord(Seq("ATG"), id="tiny")))
    return res


def observe(cls, label, record, order):
    tag = "%s %s %s" % (cls.__name__, label, order)
    before = d_record(record)
    obj = cls(record)
    is_vector = isinstance(obj, vectors.AbstractVector)
    calls = {
        "v": ("is_valid", obj.is_valid),
        "s": ("overhang_start", obj.overhang_start),
        "e": ("overhang_end", obj.overhang_end),
        "t": ("target_sequence", obj.target_sequence),
        "p": ("placeholder_sequence", getattr(obj, "placeholder_sequence", None)),
    }
    for key in order:
        name, func = calls[key]
        if func is None:
            continue
        attempt("%s %s" % (tag, name), func)
    after = d_record(record)
    out(tag, "input unchanged" if before == after else "INPUT CHANGED: " + after)
    out(tag, "attrs", d_value(obj.seq), obj.record is record)


def assemblies(rng):
    class Vec(vectors.EntryVector):
        cutter = Restriction.BpiI

    class Mod(modules.Product):
        cutter = Restriction.BpiI

    def vec(o_up, o_down, rot=0, ident="vector", case=None, cite=False):
        s = "CC" + o_up + "TTGTCTTC" + random_dna(random.Random(1), 9) + "GAAGACTT" + o_down + "GG" + random_dna(random.Random(2), 20)
        if case:
            s = s.lower()
        r = CircularRecord(Seq(s), id=ident, name=ident)
        if cite:
            decorate(random.Random(3), r, True)
        return Vec(r >> rot)

    def mod(o_up, o_down, rot=0, ident="mod", body=None, cite=False, case=None):
        s = "GAAGACTT" + o_up + (body or random_dna(random.Random(ident), 12)) + o_down + "TTGTCTTC" + random_dna(random.Random(5), 11)
        if case:
            s = "".join(c.lower() if i % 3 else c for i, c in enumerate(s))
        r = CircularRecord(Seq(s), id=ident, name=ident)
        if cite:
            decorate(random.Random(ident), r, True)
        return Mod(r >> rot)

    cases = {
        "simple": (vec("ATGC", "CGTA"), [mod("ATGC", "CGTA")]),
        "two": (vec("ATGC", "CGTA", rot=13), [mod("ATGC", "GGAT", rot=5, ident="m1"), mod("GGAT", "CGTA", rot=31, ident="m2")]),
        "two reversed order": (vec("ATGC", "CGTA"), [mod("GGAT", "CGTA", ident="m2"), mod("ATGC", "GGAT", ident="m1")]),
        "cited": (vec("ATGC", "CGTA", rot=40, cite=True), [mod("ATGC", "GGAT", rot=7, ident="m1", cite=True), mod("GGAT", "CGTA", ident="m2", cite=True)]),
        "mixed case": (vec("ATGC", "CGTA", case=True), [mod("ATGC", "GGAT", ident="m1", case=True), mod("GGAT", "CGTA", ident="m2")]),
        "same overhangs": (vec("ATGC", "ATGC"), [mod("ATGC", "ATGC")]),
        "duplicate": (vec("ATGC", "CGTA"), [mod("ATGC", "CGTA", ident="m1"), mod("ATGC", "CGTA", ident="m2", body="TATATATATA")]),
        "missing": (vec("ATGC", "CGTA"), [mod("ATGC", "ATGA", ident="m1")]),
        "unused": (vec("ATGC", "CGTA"), [mod("ATGC", "CGTA", ident="m1"), mod("AAAA", "CCCC", ident="m2")]),
        "illegal module": (vec("ATGC", "CGTA"), [mod("ATGC", "CGTA", ident="m1", body="ACGAAGACTTACGTACGTTTT")]),
        "invalid module": (vec("ATGC", "CGTA"), [Mod(CircularRecord(Seq(random_dna(rng, 50)), id="bad"))]),
        "invalid vector": (Vec(CircularRecord(Seq(random_dna(rng, 50)), id="badv")), [mod("ATGC", "CGTA")]),
    }
    for name in sorted(cases):
        vector, mods = cases[name]
        before = [d_record(x.record) for x in [vector] + mods]
        attempt("assembly %s" % name, vector.assemble, *mods)
        attempt("assembly %s again named" % name, vector.assemble, *mods, id="xx", name="yy")
        after = [d_record(x.record) for x in [vector] + mods]
        out("assembly %s inputs" % name, "unchanged" if before == after else "CHANGED %r" % (after,))


def regex_section(rng):
    pats = ["AA(NN)", "GGTCTCN(NNNN)(NN*N)(NNNN)NGAGACC", "(RY)(N*?)(KM)TT", "GAAGACNN(NNNN)", "(BDHV)(SW)"]
    seqs = [
        "ATGCAAGCAATA", "ATGCAGCATA", "GAGACCTTTTGGTCTCAACGTACGTACGTACGTTGCAT", "ttggtctcaACGTacgtGGGGtgagaccaa",
        "AGCTAGCTTT", "GAAGACTTACGTAA", "CATGAAGACTTACG",
    ]
    for p in pats:
        rx = DNARegex(p)
        out("regex", p, rx.pattern, rx.regex.pattern, rx.regex.flags)
        for s in seqs:
            for kind in ("seq", "rec", "circ", "lin-annot"):
                if kind == "seq":
                    subject = Seq(s)
                elif kind == "rec":
                    subject = SeqRecord(Seq(s), id="r")
                elif kind == "circ":
                    subject = CircularRecord(Seq(s), id="c")
                else:
                    subject = SeqRecord(Seq(s), id="r", annotations={"topology": "linear"})
                attempt("search %s %s %s" % (p, s, kind), rx.search, subject)
                attempt("search %s %s %s nonlinear" % (p, s, kind), rx.search, subject, linear=False)
                attempt("search %s %s %s pos" % (p, s, kind), rx.search, subject, 3)
                attempt("search %s %s %s pos endpos" % (p, s, kind), rx.search, subject, 2, 9, False)
                attempt("search %s %s %s kw" % (p, s, kind), rx.search, subject, pos=1, endpos=len(s) - 1, linear=True)
        attempt("search %s str" % p, rx.search, "ATGC")
        attempt("search %s bytes" % p, rx.search, b"ATGC")
        attempt("search %s None" % p, rx.search, None)
    for letter in "ABCDGHKMNRSTVWYXacgtn*?()[]":
        out("transcribe", letter, DNARegex._transcribe(letter))
    out("lettermap", sorted(DNARegex._lettermap.items()))
    out("search signature", d_signature(DNARegex.search))
    m = DNARegex("AA(NN)").search(Seq("ATGCAGCATA"), linear=False)
    out("seqmatch attrs", type(m.match).__name__, m.shift, d_value(m.rec))


def misc_section():
    for name in ("BsaI", "EcoRI", "SmaI", "BtsI"):
        attempt("cutter_check %s" % name, core_utils.cutter_check, getattr(Restriction, name), name="K")
    attempt("cutter_check NotImplemented", core_utils.cutter_check, NotImplemented, name="Klass")
    unknown = [e for e in sorted(Restriction.AllEnzymes, key=str) if e.is_unknown()][:2]
    for e in unknown:
        attempt("cutter_check unknown %s" % e, core_utils.cutter_check, e, name="U")
    for base in (modules.AbstractModule, vectors.AbstractVector, parts.AbstractPart, modules.Entry, vectors.DeviceVector):
        attempt("abstract %s" % base.__name__, base, SeqRecord(Seq("ATGC")))
        out("signature", base.__name__, [(n, d_signature(f)) for n, f in sorted(
            inspect.getmembers(base, callable)) if not n.startswith("__") and n in (
            "structure", "overhang_start", "overhang_end", "is_valid", "characterize", "assemble")])
        out("level", base.__name__, getattr(base, "_level", "-"), base.cutter)
    src = SeqRecord(Seq("ATGCATGC"), id="src")
    dst = SeqRecord(Seq("ATGC"), id="dst")
    attempt("add_as_source", core_utils.add_as_source, src, dst)
    attempt("add_as_source loc", core_utils.add_as_source, src, SeqRecord(Seq("ATGC"), id="dst"), FeatureLocation(1, 3))
    rec = CircularRecord(Seq("ATGC"), id="thing")
    for exc in (
        errors.InvalidSequence(rec.seq), errors.InvalidSequence(rec.seq, details="d"),
        errors.IllegalSite(rec.seq), errors.IllegalSite(rec.seq, details="why"),
        errors.MissingModule(Seq("ATGC")), errors.MissingModule("ATGC", details="x"),
    ):
        out("error", type(exc).__name__, str(exc), isinstance(exc, ValueError))


def structures_section():
    for enz in sorted(Restriction.AllEnzymes, key=str):
        for base in (modules.Entry, vectors.EntryVector):
            cls = type(str("S"), (base,), {"cutter": enz})
            attempt("structure %s %s" % (base.__name__, enz), cls.structure)
        ov = abs(enz.ovhg) if isinstance(enz.ovhg, int) else 0
        for base in (modules.Entry, vectors.CassetteVector):
            cls = type(str("SP"), (parts.AbstractPart, base), {"cutter": enz, "signature": ("ACGTAC"[:ov], "TTGACA"[:ov])})
            attempt("part structure %s %s" % (base.__name__, enz), cls.structure)
    lonely = type(str("Lonely"), (parts.AbstractPart,), {"cutter": Restriction.BsaI, "signature": ("AAAA", "CCCC")})
    attempt("part neither", lonely.structure)
    nosig = type(str("NoSig"), (parts.AbstractPart, modules.Entry), {"cutter": Restriction.BsaI})
    attempt("part no signature", nosig.structure)


def characterize_section(rng):
    for base in (ytk.YTKPart, cidar.CIDARPart, ecoflex.EcoFlexPart, moclo_kit.MoCloPart):
        subs = sorted(base.__subclasses__(), key=lambda c: c.__name__)
        for sub in subs[:6]:
            try:
                pattern = sub.structure()
            except Exception:  # noqa
                continue
            seq = instantiate(pattern, rng, random_dna(rng, 15)) + random_dna(rng, 25)
            rec = CircularRecord(Seq(seq), id="chr-" + sub.__name__) >> rng.randrange(len(seq))
            with warnings.catch_warnings():
                warnings.simplefilter("ignore")
                try:
                    ent = base.characterize(rec)
                    out("characterize", base.__name__, sub.__name__, type(ent).__name__, ent.record is rec)
                except Exception as exc:  # noqa
                    out("characterize", base.__name__, sub.__name__, type(exc).__name__, str(exc))
        attempt("characterize nothing %s" % base.__name__, base.characterize, CircularRecord(Seq(random_dna(rng, 40)), id="nope"))


def record_section(rng):
    seq = random_dna(rng, 40)
    base = SeqRecord(Seq(seq), id="b", name="bn", description="bd", dbxrefs=["x:1"],
                     annotations={"topology": "circular", "k": [1, 2]},
                     letter_annotations={"phred_quality": list(range(40))})
    base.features.append(SeqFeature(FeatureLocation(3, 12, 1), type="gene", id="g", qualifiers={"label": ["g"]}))
    base.features.append(SeqFeature(CompoundLocation([FeatureLocation(30, 40, 1), FeatureLocation(0, 4, 1)]), type="CDS"))
    base.features.append(SeqFeature(FeatureLocation(0, 40), type="source"))
    circ = CircularRecord(base)
    weird = CircularRecord(base)
    weird.features.append(SeqFeature(None, type="weird"))
    for k in (0, 7, -2):
        attempt("rshift weird %d" % k, weird.__rshift__, k)
    out("record copy", d_record(circ), circ.features[0] is base.features[0], circ.annotations is base.annotations)
    for k in (0, 1, 5, 39, 40, 41, -3, 83):
        attempt("rshift %d" % k, circ.__rshift__, k)
        attempt("lshift %d" % k, circ.__lshift__, k)
    out("rshift 0 same object", (circ >> 0) is circ, (circ << 40) is circ)
    for idx in (0, 5, -1, slice(3, 20), slice(None, 7), slice(30, None), slice(None, None, -1), slice(5, 5)):
        attempt("getitem %r" % (idx,), circ.__getitem__, idx)
    for needle in (seq[35:] + seq[:5], seq[3:9], "AAAAAAAAAAAAAAAAAAAAAA", seq + seq[:2], Seq(seq[38:] + seq[:3])):
        attempt("contains", circ.__contains__, needle)
    attempt("add", lambda: circ + "ATG")
    attempt("radd", lambda: "ATG" + circ)
    attempt("add record", lambda: circ + base)
    attempt("reverse_complement", circ.reverse_complement)
    attempt("reverse_complement kw", circ.reverse_complement, id=True, name="n2", annotations=True, dbxrefs=True)
    attempt("linear annotation", CircularRecord, Seq("ATGC"), annotations={"topology": "linear"})
    attempt("Linear annotation", CircularRecord, Seq("ATGC"), annotations={"topology": "Circular", "z": 1})
    attempt("from linear record", CircularRecord, SeqRecord(Seq("ATGC"), id="l", annotations={"topology": "linear"}))
    attempt("defaults", CircularRecord, Seq("ATGC"))
    out("record untouched", d_record(base))


def main():
    rng = random.Random(4404)
    classes = [c for c in kit_classes()]
    for cls in classes:
        out("class", cls.__module__, cls.__name__, [b.__name__ for b in cls.__mro__], is_concrete(cls),
            getattr(cls, "_level", "-"), getattr(cls, "signature", "-"), cls.cutter)
    concrete = [c for c in classes if is_concrete(c)]
    generic = generic_classes(["BsaI", "BsmBI", "BpiI", "SapI", "BsmAI", "FokI", "AarI"])
    special = [ThreePrimeModule, ThreePrimeVector, LazyVector]
    orders = ["vsetpv", "tv", "sv", "pvte", "evs", "vvt"]
    k = 0
    for cls in concrete + generic + special:
        attempt("structure %s" % cls.__name__, cls.structure)
        if not is_concrete(cls):
            attempt("instantiate %s" % cls.__name__, cls, SeqRecord(Seq("ATGC")))
            continue
        for label, record in build_records(cls, rng):
            k += 1
            observe(cls, label, record, orders[k % len(orders)])
    out("records", k)
    assemblies(rng)
    regex_section(rng)
    misc_section()
    structures_section()
    characterize_section(rng)
    record_section(rng)
    text = "\n".join(LINES)
    if "--dump" in sys.argv:
        with open(sys.argv[sys.argv.index("--dump") + 1], "w") as handle:
            handle.write(text + "\n")
    print("%d observations, %d structured records" % (len(LINES), k))
    print("digest", hashlib.sha256(text.encode("utf-8")).hexdigest())


if __name__ == "__main__":
    main()
