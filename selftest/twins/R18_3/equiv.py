# coding: utf-8
"""Differential test for the rewrite of ``moclo.core._assembly``.

Runs several hundred Golden Gate assemblies (successful, with missing,
duplicate, unused or invalid modules, with valid and invalid citations)
through ``AbstractVector.assemble`` and digests the assembled records, the
exceptions, the warnings and the state in which input records are left.
"""
import hashlib
import random
import re
import sys
import warnings

sys.path.insert(0, "/tmp/agentsR4/R18")
warnings.simplefilter("ignore")
import tests  # noqa: E402,F401

from Bio.Seq import Seq  # noqa: E402
from Bio.SeqFeature import SeqFeature, FeatureLocation, Reference  # noqa: E402
from Bio.SeqRecord import SeqRecord  # noqa: E402
from Bio.Restriction import BpiI, BsaI  # noqa: E402

from moclo import errors  # noqa: E402
from moclo.record import CircularRecord  # noqa: E402
from moclo.core.modules import AbstractModule  # noqa: E402
from moclo.core.vectors import AbstractVector  # noqa: E402

rng = random.Random(1803)


class MockVector(AbstractVector):
    cutter = BpiI


class MockModule(AbstractModule):
    cutter = BpiI


class BsaVector(AbstractVector):
    cutter = BsaI


class BsaModule(AbstractModule):
    cutter = BsaI


KITS = {
    "bpi": (MockVector, MockModule, "GAAGACTT", "TTGTCTTC"),
    "bsa": (BsaVector, BsaModule, "GGTCTCA", "TGAGACC"),
}


def dna(n, alphabet="AT"):
    return "".join(rng.choice(alphabet) for _ in range(n))


def revcomp(s):
    return str(Seq(s).reverse_complement())


def overhangs(k):
    """k distinct 4-mers, none palindromic nor reverse-complement of another."""
    out = []
    while len(out) < k:
        o = dna(4, "ACGT")
        if o == revcomp(o) or o in out or revcomp(o) in out:
            continue
        out.append(o)
    return out


REF_STYLE = ["object"]


def make_reference(i):
    # a record never mixes plain strings and Reference objects (the library
    # compares them with ``==``, which Biopython does not support)
    if REF_STYLE[0] == "text":
        return "plain reference {}".format(i)
    ref = Reference()
    ref.title = "Title {}".format(i)
    ref.authors = "Doe J."
    ref.journal = "J. Irreproducible Results {}".format(i % 3)
    return ref


def annotate(rec, body_start, body_len, nrefs, bad=None):
    """Add features (some with citations) and references to the record."""
    refs = [make_reference(rng.randint(0, 5)) for _ in range(nrefs)]
    if nrefs or rng.random() < 0.3:
        rec.annotations["references"] = refs
    for j in range(rng.randint(0, 3)):
        a = rng.randint(0, max(body_len - 1, 0))
        b = rng.randint(a, body_len)
        quals = {"label": ["feat{}".format(j)]}
        if nrefs and rng.random() < 0.7:
            quals["citation"] = [
                "[{}]".format(rng.randint(1, nrefs)) for _ in range(rng.randint(1, 3))
            ]
        rec.features.append(
            SeqFeature(
                FeatureLocation(body_start + a, body_start + b, rng.choice([1, -1])),
                type="misc_feature",
                qualifiers=quals,
            )
        )
    if bad is not None:
        rec.features.append(
            SeqFeature(
                FeatureLocation(body_start, body_start + body_len, 1),
                type="CDS",
                qualifiers={"citation": [bad]},
            )
        )
    return rec


def finish(text, rec_id, body_start, body_len, nrefs, bad, case, rotate):
    if case == "lower":
        text = text.lower()
    elif case == "mixed":
        text = "".join(c.lower() if rng.random() < 0.5 else c for c in text)
    rec = CircularRecord(Seq(text), id=rec_id, name=rec_id)
    annotate(rec, body_start, body_len, nrefs, bad)
    if rotate:
        rec = rec >> rng.randint(1, 3 * len(text))
    return rec


def make_module(kit, name, up, down, nrefs=0, bad=None, case="upper", rotate=False):
    _, mod_cls, site, etis = KITS[kit]
    body = dna(rng.randint(1, 18))
    pad = dna(rng.randint(0, 10))
    text = site + up + body + down + etis + pad
    return mod_cls(finish(text, name, len(site) + 4, len(body), nrefs, bad, case, rotate))


def make_vector(kit, name, start, end, nrefs=0, bad=None, case="upper", rotate=False):
    vec_cls, _, site, etis = KITS[kit]
    placeholder = dna(rng.randint(1, 10))
    backbone = dna(rng.randint(2, 20))
    # <end overhang><reversed site> placeholder <site><start overhang> backbone
    text = end + etis + placeholder + site + start + backbone
    body_start = len(end + etis + placeholder + site + start)
    return vec_cls(finish(text, name, body_start, len(backbone), nrefs, bad, case, rotate))


def dump_ref(ref):
    if isinstance(ref, Reference):
        return ("Reference", ref.title, ref.authors, ref.journal)
    return repr(ref)


def dump_record(rec):
    return (
        type(rec).__name__,
        str(rec.seq),
        rec.id,
        rec.name,
        rec.description,
        sorted(
            (k, [dump_ref(r) for r in v] if k == "references" else repr(v))
            for k, v in rec.annotations.items()
        ),
        [
            (
                f.type,
                repr(f.location),
                sorted(
                    (k, [dump_ref(r) for r in v] if k == "citation" else repr(v))
                    for k, v in f.qualifiers.items()
                ),
            )
            for f in rec.features
        ],
    )


def dump_exc(exc):
    out = [type(exc).__name__, str(exc)]
    for attr in ("details", "start_overhang"):
        if hasattr(exc, attr):
            out.append((attr, repr(getattr(exc, attr))))
    for attr in ("duplicates", "remaining"):
        if hasattr(exc, attr):
            out.append((attr, [m.record.id for m in getattr(exc, attr)]))
    if isinstance(exc, errors.InvalidSequence):
        out.append(("sequence", str(getattr(exc.sequence, "seq", exc.sequence))))
    out.append(("cause", repr(exc.__cause__), exc.__suppress_context__))
    return out


def run(vector, modules, **kwargs):
    with warnings.catch_warnings(record=True) as caught:
        warnings.simplefilter("always")
        try:
            res = ("ok", dump_record(vector.assemble(*modules, **kwargs)))
        except Exception as exc:  # noqa: B902
            res = ("err", dump_exc(exc))
    warns = [(w.category.__name__, str(w.message)) for w in caught]
    state = [dump_record(x.record) for x in [vector] + list(modules)]
    return (res, warns, state)


SCENARIOS = [
    "plain", "plain", "plain", "missing_first", "missing_middle", "missing_last",
    "unused", "unused_two", "duplicate_start", "duplicate_object", "revcomp",
    "bad_citation_module", "bad_citation_vector", "same_overhangs_vector",
    "invalid_module", "cycle_without_vector",
]

results = []
for it in range(480):
    scenario = SCENARIOS[it % len(SCENARIOS)]
    kit = "bsa" if it % 7 == 3 else "bpi"
    k = rng.randint(1, 4)
    ovs = overhangs(k + 4)
    chain, spare = ovs[: k + 1], ovs[k + 1:]
    case = rng.choice(["upper", "upper", "lower", "mixed"])
    rot = rng.random() < 0.5
    with_refs = rng.random() < 0.7
    REF_STYLE[0] = rng.choice(["object", "object", "text"])

    def nrefs():
        return rng.randint(1, 3) if with_refs else 0

    bad_mod = bad_vec = None
    if scenario == "bad_citation_module":
        bad_mod = rng.choice(["1", "[x]", "[]", "[0]", "[9]", "ref", "[-1]", "[2] and more"])
    if scenario == "bad_citation_vector":
        bad_vec = rng.choice(["[x]", "[]", "[7]", "no"])

    vstart, vend = chain[k], chain[0]
    if scenario == "same_overhangs_vector":
        vstart = vend if rng.random() < 0.5 else vend.lower()
    vector = make_vector(kit, "vec{}".format(it), vstart, vend, nrefs(), bad_vec, case, rot)

    modules = []
    for j in range(k):
        bad = bad_mod if (bad_mod is not None and j == k - 1) else None
        modules.append(
            make_module(
                kit, "mod{}_{}".format(it, j), chain[j], chain[j + 1], nrefs(), bad,
                rng.choice(["upper", case]), rng.random() < 0.4,
            )
        )

    if scenario == "missing_first":
        modules = modules[1:] or [make_module(kit, "other", spare[0], spare[1])]
    elif scenario == "missing_middle":
        del modules[len(modules) // 2]
        modules = modules or [make_module(kit, "other", spare[0], spare[1], nrefs())]
    elif scenario == "missing_last":
        modules = modules[:-1] or [make_module(kit, "other", spare[0], chain[0], nrefs())]
    elif scenario == "unused":
        modules.append(make_module(kit, "extra{}".format(it), spare[0], spare[1], nrefs()))
    elif scenario == "unused_two":
        modules.insert(0, make_module(kit, "extraA{}".format(it), spare[0], spare[1], nrefs()))
        modules.append(make_module(kit, "extraB{}".format(it), spare[1], spare[2], nrefs()))
    elif scenario == "duplicate_start":
        j = rng.randrange(k)
        dup = make_module(kit, "dup{}".format(it), chain[j], spare[0], nrefs(), None, "lower")
        modules.insert(rng.randint(0, len(modules)), dup)
    elif scenario == "duplicate_object":
        modules.append(modules[rng.randrange(len(modules))])
    elif scenario == "revcomp":
        j = rng.randrange(k)
        modules.append(make_module(kit, "rc{}".format(it), revcomp(chain[j]), spare[0], nrefs()))
    elif scenario == "invalid_module":
        broken = SeqRecord(Seq(dna(30)), id="broken{}".format(it))
        modules.insert(rng.randint(0, len(modules)), KITS[kit][1](broken))
    elif scenario == "cycle_without_vector":
        # modules closing on themselves, never reaching the vector start
        modules = [
            make_module(kit, "cycA{}".format(it), chain[0], spare[0], nrefs()),
            make_module(kit, "cycB{}".format(it), spare[0], chain[0], nrefs()),
        ]

    rng.shuffle(modules)
    kwargs = {}
    if it % 3 == 0:
        kwargs = {"name": "construct{}".format(it), "id": "ID{}".format(it)}
    elif it % 3 == 1:
        kwargs = {"name": "only-name", "unknown": 1}

    first = run(vector, modules, **kwargs)
    # assembling twice must work on the restored citations
    second = run(vector, modules)
    results.append((scenario, kit, k, first, second))

# no module at all / wrong arguments
vector = make_vector("bpi", "lonely", "ATGC", "CGTA", 2)
for args in ((), (None,), (vector,), ("module",)):
    with warnings.catch_warnings(record=True):
        try:
            results.append(("ok", dump_record(vector.assemble(*args))))
        except Exception as exc:  # noqa: B902
            results.append(("err", type(exc).__name__, str(exc)))
    results.append(dump_record(vector.record))

# default reprs of mock entities contain memory addresses
blob = re.sub(r" at 0x[0-9a-fA-F]+", " at 0x?", repr(results)).encode("utf-8")
print(len(results), hashlib.sha256(blob).hexdigest())
