# coding: utf-8
"""Differential test for refactorings of moclo/regex.py and moclo/record.py.

Exercises ``DNARegex`` / ``SeqMatch`` / ``CircularRecord`` (and the assembly
code built on top of them) through the public API on many generated inputs and
prints a digest of everything observed (results and exceptions).
"""
import sys

sys.path.insert(0, "/tmp/agentsR3/R9")
import tests  # noqa: F401,E402  (splices the kit packages in the moclo namespace)

import hashlib  # noqa: E402
import random  # noqa: E402
import re  # noqa: E402
import warnings  # noqa: E402

from Bio.Seq import Seq  # noqa: E402
from Bio.SeqFeature import (  # noqa: E402
    AfterPosition,
    BeforePosition,
    CompoundLocation,
    ExactPosition,
    FeatureLocation,
    SeqFeature,
)
from Bio.SeqRecord import SeqRecord  # noqa: E402
from Bio.Restriction import BpiI, BsaI  # noqa: E402

from moclo import errors  # noqa: E402
from moclo.record import CircularRecord  # noqa: E402
from moclo.regex import DNARegex, SeqMatch  # noqa: E402
from moclo.core.vectors import AbstractVector  # noqa: E402
from moclo.core.modules import AbstractModule  # noqa: E402

warnings.simplefilter("ignore")

RNG = random.Random(20240927)
OUT = []


def emit(*items):
    OUT.append(repr(items))


# --- description helpers ----------------------------------------------------


def d_loc(loc):
    if loc is None:
        return None
    return (
        type(loc).__name__,
        repr(loc),
        [
            (
                type(p.start).__name__,
                int(p.start),
                type(p.end).__name__,
                int(p.end),
                p.strand,
                p.ref,
                p.ref_db,
            )
            for p in loc.parts
        ],
        getattr(loc, "operator", None),
    )


def d_feat(f):
    return (type(f).__name__, f.type, f.id, d_loc(f.location), sorted(f.qualifiers.items()))


def d(obj):
    """Describe any value produced by the library."""
    if isinstance(obj, SeqRecord):
        return (
            type(obj).__name__,
            str(obj.seq),
            obj.id,
            obj.name,
            obj.description,
            list(obj.dbxrefs),
            sorted((k, repr(v)) for k, v in obj.annotations.items()),
            sorted((k, repr(v)) for k, v in obj.letter_annotations.items()),
            [d_feat(f) for f in obj.features],
        )
    if isinstance(obj, Seq):
        return ("Seq", str(obj))
    if isinstance(obj, SeqMatch):
        return d_match(obj)
    if isinstance(obj, (list, tuple)):
        return (type(obj).__name__, [d(x) for x in obj])
    return (type(obj).__name__, repr(obj))


def attempt(func, *args, **kwargs):
    try:
        return ("ok", d(func(*args, **kwargs)))
    except Exception as e:  # noqa
        return ("exc", type(e).__name__, str(e))


def d_match(m):
    if m is None:
        return None
    res = [
        "match",
        type(m).__name__,
        m.shift,
        type(m.rec).__name__,
        attempt(m.start),
        attempt(m.end),
        attempt(m.span),
        attempt(m.group),
    ]
    n = m.match.re.groups
    for i in range(0, n + 2):
        res.append(attempt(m.span, i))
        res.append(attempt(m.group, i))
    return res


# --- generators -------------------------------------------------------------


def rand_dna(n, alphabet="ACGT"):
    return "".join(RNG.choice(alphabet) for _ in range(n))


def rand_case(s):
    return "".join(c.lower() if RNG.random() < 0.4 else c for c in s)


def rand_location(n):
    kind = RNG.random()

    def simple():
        a = RNG.randrange(0, n)
        b = RNG.randrange(a, n + 1)
        strand = RNG.choice([1, -1, 0, None])
        k = RNG.random()
        if k < 0.1:
            return FeatureLocation(BeforePosition(a), ExactPosition(b), strand)
        if k < 0.2:
            return FeatureLocation(ExactPosition(a), AfterPosition(b), strand)
        if k < 0.3:
            return FeatureLocation(a, b, strand, ref="REF{}".format(a), ref_db="DB")
        return FeatureLocation(a, b, strand)

    if kind < 0.05:
        return None
    if kind < 0.7:
        return simple()
    parts = [simple() for _ in range(RNG.randrange(2, 4))]
    return CompoundLocation(parts, operator=RNG.choice(["join", "order"]))


def rand_record(n=None, cls=CircularRecord, **kw):
    if n is None:
        n = RNG.randrange(1, 40)
    seq = Seq(rand_case(rand_dna(n, "ACGTN" if RNG.random() < 0.2 else "ACGT")))
    features = []
    if n:
        for i in range(RNG.randrange(0, 5)):
            loc = rand_location(n)
            ftype = RNG.choice(["CDS", "misc_feature", "source", "promoter"])
            quals = {"label": ["f{}".format(i)]}
            if RNG.random() < 0.3:
                quals["citation"] = ["[1]"]
            features.append(SeqFeature(loc, type=ftype, id="feat{}".format(i), qualifiers=quals))
        if RNG.random() < 0.5:
            # a genuine full-span source feature
            strand = RNG.choice([1, None])
            features.insert(
                RNG.randrange(0, len(features) + 1),
                SeqFeature(FeatureLocation(0, n, strand), type="source", id="src"),
            )
        if RNG.random() < 0.2:
            # compound source starting at 0 and ending at n
            a = RNG.randrange(0, n + 1)
            features.append(
                SeqFeature(
                    CompoundLocation([FeatureLocation(0, a, 1), FeatureLocation(a, n, 1)]),
                    type="source",
                    id="src2",
                )
            )
    annotations = {}
    k = RNG.random()
    if k < 0.3:
        annotations["topology"] = RNG.choice(["circular", "Circular", "CIRCULAR"])
    if RNG.random() < 0.5:
        annotations["references"] = ["ref-a", "ref-b"]
        annotations["molecule_type"] = "DNA"
    letter_annotations = {}
    if RNG.random() < 0.5:
        letter_annotations["phred_quality"] = [RNG.randrange(0, 60) for _ in range(n)]
    if RNG.random() < 0.3:
        letter_annotations["secondary"] = rand_dna(n, ".()")
    args = dict(
        id="id{}".format(RNG.randrange(1000)),
        name="name{}".format(RNG.randrange(1000)),
        description="desc{}".format(RNG.randrange(1000)),
        dbxrefs=["db:{}".format(RNG.randrange(10))] if RNG.random() < 0.5 else None,
        features=features,
        annotations=annotations if (annotations or RNG.random() < 0.5) else None,
        letter_annotations=letter_annotations or None,
    )
    args.update(kw)
    return cls(seq, **args)


class UserRecord(CircularRecord):
    """A subclass as a user of the library could define it."""

    extra = "user"


INIT_LOG = []


class LoggingRecord(CircularRecord):
    """A user subclass overriding the constructor."""

    def __init__(self, seq, *args, **kwargs):
        INIT_LOG.append((type(seq).__name__, len(args), sorted(kwargs)))
        super(LoggingRecord, self).__init__(seq, *args, **kwargs)


# --- 1. DNARegex construction ------------------------------------------------

PATTERNS = [
    "NN",
    "AA(NN)",
    "ggtctc",
    "GGTCTCN(NNNN)(N*?)(NNNN)NGAGACC",
    "GAAGACNN(NNNN)(N*?)(NNNN)NNGTCTTC",
    "(NNNN)(NNGTCTTCN*?GAAGACNN)(NNNN)",
    "A()C",
    "()",
    "",
    "A(C)?G",
    "(A|C)(G|T)T",
    "RYSWKM",
    "BDHV(N)",
    "bdhv(n)",
    "AnnT",
    "A.T",
    "A[CG]T",
    "(?P<x>AN)(?P=x)",
    "N{3}(R{2})",
    "^AC",
    "GT$",
    "(N+)$",
    "(?=(AC))A",
    "X",
    "U",
    "\\w\\w",
    "\\N",
    "\\B",
    "(A",
    "A)",
    "[A",
    "*",
    "(?z)",
]
for _ in range(40):
    PATTERNS.append(
        "".join(
            RNG.choice(list("ACGTNRYSWKMBDHVacgtnrysw") + ["(", ")", "N*?", "N+", "(NN)", "()"])
            for _ in range(RNG.randrange(1, 8))
        )
    )

REGEXES = []
for p in PATTERNS:
    try:
        rx = DNARegex(p)
    except Exception as e:  # noqa
        emit("DNARegex", p, "exc", type(e).__name__, str(e))
        continue
    emit("DNARegex", p, rx.pattern, rx.regex.pattern, rx.regex.flags, rx.regex.groups)
    REGEXES.append(rx)


class ProteinLikeRegex(DNARegex):
    """User subclass relying on the public API only."""

    def search(self, string, pos=0, endpos=sys.maxsize, linear=True):
        return super(ProteinLikeRegex, self).search(string, pos, endpos, linear)


for p in ("AA(NN)", "RY(N*?)KM"):
    rx = ProteinLikeRegex(p)
    emit("sub", p, rx.pattern, rx.regex.pattern)
    REGEXES.append(rx)

for bad in (None, 12, b"AN", ["A", "N"], ("N", "R")):
    emit("DNARegex-bad", repr(bad), attempt(lambda: DNARegex(bad).regex.pattern))

# --- 2. DNARegex.search -----------------------------------------------------

TARGETS = []
for n in [0, 1, 2, 3, 5, 8, 12, 20, 33]:
    for _ in range(3):
        s = rand_case(rand_dna(n, "ACGTN" if RNG.random() < 0.3 else "ACGT"))
        TARGETS.append(Seq(s))
        TARGETS.append(SeqRecord(Seq(s), id="lin"))
        TARGETS.append(CircularRecord(Seq(s), id="circ"))
        TARGETS.append(UserRecord(Seq(s), id="user"))
TARGETS.extend(rand_record() for _ in range(20))
# sequences built around known sites, rotated so that matches wrap the origin
for site in ["GGTCTCAATGCCCCCGGGGTTTTAGAGACC", "GAAGACTTATGCCACACGTATTGTCTTC", "AAGC", "ACACAC"]:
    base = site + rand_dna(RNG.randrange(0, 10))
    for k in range(0, len(base), 3):
        rot = base[k:] + base[:k]
        TARGETS.append(Seq(rot))
        TARGETS.append(CircularRecord(Seq(rot), id="rot{}".format(k)))
        TARGETS.append(SeqRecord(Seq(rand_case(rot)), id="rotl{}".format(k)))

BAD_TARGETS = ["ATGC", b"ATGC", None, 42, ["A", "T"], ("A",), bytearray(b"AC")]

count = 0
for rx in REGEXES:
    for bad in BAD_TARGETS:
        emit("search-bad", rx.pattern, repr(bad), attempt(rx.search, bad))
        emit("search-bad", rx.pattern, repr(bad), attempt(rx.search, bad, linear=False))
    for t in RNG.sample(TARGETS, 45):
        n = len(t)
        calls = [
            ((), {}),
            ((), {"linear": False}),
            ((), {"linear": True}),
        ]
        for _ in range(3):
            pos = RNG.choice([0, 1, 2, n - 1, n, n + 1, -1, -3, RNG.randrange(0, n + 1)])
            endpos = RNG.choice([0, 1, n - 1, n, n + 2, 2 * n, -1, -2, RNG.randrange(0, n + 2)])
            linear = RNG.choice([True, False, 0, 1, None, "yes"])
            k = RNG.random()
            if k < 0.3:
                calls.append(((pos,), {}))
            elif k < 0.6:
                calls.append(((pos, endpos), {"linear": linear}))
            elif k < 0.8:
                calls.append(((), {"pos": pos, "endpos": endpos, "linear": linear}))
            else:
                calls.append(((pos, endpos, linear), {}))
        for args, kwargs in calls:
            try:
                m = rx.search(t, *args, **kwargs)
            except Exception as e:  # noqa
                emit("search", rx.pattern, str(getattr(t, "seq", t)), args, sorted(kwargs.items()),
                     "exc", type(e).__name__, str(e))
                continue
            count += 1
            ident = None if m is None else (m.rec is t, type(m.match).__name__, m.match.span())
            emit("search", rx.pattern, type(t).__name__, str(getattr(t, "seq", t)), args,
                 sorted(kwargs.items()), ident, d_match(m))
emit("searches", count)
emit("search-badargs", attempt(REGEXES[0].search, Seq("ACGT"), "a"))
emit("search-badargs", attempt(REGEXES[0].search, Seq("ACGT"), 0, None))
emit("search-badargs", attempt(REGEXES[0].search, Seq("ACGT"), 0.5))
emit("search-badargs", attempt(REGEXES[0].search))

# --- 3. SeqMatch built directly ---------------------------------------------

RAW = [
    (r"(?i)AA([ACGTN][ACGTN])", "ATGCAGCATAATGCAGCATA"),
    (r"(A)(C)?(G*)", "ACGGGACGGG"),
    (r"(C*)(A)()", "CCCACCCA"),
    (r"(?P<a>..)(?P<b>.*)", "ACGTACGTACGT"),
]
RECS = [
    Seq("ATGCAGCATA"),
    SeqRecord(Seq("ATGCAGCATA"), id="x"),
    CircularRecord(Seq("ATGCAGCATA"), id="y"),
    rand_record(10),
    rand_record(5),
    Seq(""),
    CircularRecord(Seq(""), id="empty"),
    "ATGCAGCATA",
    list("ATGCA"),
    tuple("ATGCAGC"),
    b"ACGTAC",
]
for pat, text in RAW:
    crx = re.compile(pat)
    for start in range(0, len(text)):
        raw = crx.match(text, start)
        if raw is None:
            continue
        for rec in RECS:
            for extra in ((), (3,), (-1,)):
                m = SeqMatch(raw, rec, *extra)
                emit("SeqMatch", pat, start, type(rec).__name__, extra, m.match is raw,
                     m.rec is rec, d_match(m))
            m = SeqMatch(match=raw, rec=rec, shift=7)
            emit("SeqMatch-kw", m.shift, attempt(m.group, "a"), attempt(m.span, "b"),
                 attempt(m.group, 99), attempt(m.group, -1), attempt(m.group, None))
emit("SeqMatch-bad", attempt(SeqMatch), attempt(SeqMatch, None))
emit("SeqMatch-none", attempt(lambda: SeqMatch(None, Seq("A")).start()))
emit("SeqMatch-none", attempt(lambda: SeqMatch(None, Seq("A")).group()))
emit("SeqMatch-generic", attempt(lambda: SeqMatch[Seq].__name__))

# --- 4. CircularRecord construction ------------------------------------------

for cls in (CircularRecord, UserRecord, LoggingRecord):
    for _ in range(25):
        src = rand_record(cls=SeqRecord)
        if RNG.random() < 0.3:
            src.annotations["topology"] = RNG.choice(["linear", "LINEAR", "circular", "Circular", ""])
        before = d(src)
        r = attempt(cls, src)
        emit("ctor-rec", cls.__name__, before, r, d(src) == before)
        try:
            c = cls(src, "ignored-id", name="ignored", annotations={"topology": "linear"})
        except Exception as e:  # noqa
            emit("ctor-rec2", type(e).__name__, str(e))
        else:
            # deep copies: mutating the copy must not touch the source
            c.annotations["zzz"] = 1
            c.dbxrefs.append("new")
            if c.features:
                c.features[0].qualifiers["mut"] = ["x"]
                c.features.pop()
            emit("ctor-rec2", d(c), d(src) == before,
                 [f is g for f, g in zip(c.features, src.features)])
        # from another CircularRecord
        emit("ctor-circ", attempt(lambda: cls(CircularRecord(src))))
    for topo in ("circular", "CIRCULAR", "cIrCuLaR", "linear", "Linear", "", " circular", None, 3,
                 b"circular"):
        emit("ctor-topo", cls.__name__, repr(topo),
             attempt(cls, Seq("ACGT"), annotations={"topology": topo, "k": "v"}))
    emit("ctor", cls.__name__, attempt(cls, Seq("ACGT")))
    emit("ctor", cls.__name__, attempt(cls, Seq("ACGT"), "i", "n", "d", ["x"], [], {}, {}))
    emit("ctor", cls.__name__, attempt(cls, Seq("ACGT"), annotations={}))
    emit("ctor", cls.__name__, attempt(cls, Seq("ACGT"), letter_annotations={"q": [1, 2, 3]}))
    emit("ctor", cls.__name__, attempt(cls, Seq("ACGT"), letter_annotations={"q": [1, 2, 3, 4]}))
    emit("ctor", cls.__name__, attempt(cls, "ACGT"))
    emit("ctor", cls.__name__, attempt(cls, None))
    emit("ctor", cls.__name__, attempt(cls, Seq("ACGT"), id=None))
    emit("ctor", cls.__name__, attempt(cls))
    emit("ctor", cls.__name__, attempt(cls, Seq("AC"), bogus=1))
emit("init-log", INIT_LOG)
del INIT_LOG[:]

# --- 5. CircularRecord operators ----------------------------------------------

RECORDS = [rand_record(cls=RNG.choice([CircularRecord, CircularRecord, UserRecord, LoggingRecord]))
           for _ in range(120)]
RECORDS.append(CircularRecord(Seq(""), id="empty"))
RECORDS.append(CircularRecord(Seq("A"), id="one"))
RECORDS.append(rand_record(0))
# features located past the end / wrapping twice
big = CircularRecord(
    Seq("ACGTACGTAC"),
    id="big",
    features=[
        SeqFeature(FeatureLocation(8, 14, 1), type="wrap"),
        SeqFeature(FeatureLocation(12, 25, -1), type="beyond"),
        SeqFeature(FeatureLocation(20, 20), type="empty"),
        SeqFeature(CompoundLocation([FeatureLocation(8, 10, 1), FeatureLocation(10, 12, 1)]),
                   type="source"),
        SeqFeature(FeatureLocation(0, 10, -1), type="source"),
        SeqFeature(FeatureLocation(0, 10), type="Source"),
        SeqFeature(FeatureLocation(0, 9), type="source"),
        SeqFeature(FeatureLocation(1, 10), type="source"),
    ],
)
RECORDS.append(big)


def amounts(n):
    base = [0, 1, -1, 2, n - 1, n, n + 1, n + 3, -n, -n - 2, 2 * n, 3 * n + 1, 10 ** 6, -10 ** 6,
            True, False]
    base.extend(RNG.randrange(-3 * n - 3, 3 * n + 4) for _ in range(4))
    return base


for rec in RECORDS:
    n = len(rec)
    before = d(rec)
    for k in amounts(n):
        for opname, op in ((">>", lambda r, k: r >> k), ("<<", lambda r, k: r << k)):
            try:
                new = op(rec, k)
            except Exception as e:  # noqa
                emit(opname, rec.id, k, "exc", type(e).__name__, str(e))
                continue
            shared = (
                new is rec,
                new.annotations is rec.annotations,
                new.dbxrefs is rec.dbxrefs,
                [f.qualifiers is g.qualifiers for f, g in zip(new.features, rec.features)],
                [f.location is g.location for f, g in zip(new.features, rec.features)],
                [f is g for f, g in zip(new.features, rec.features)],
            )
            emit(opname, rec.id, k, shared, d(new))
            # rotating back
            emit(opname + "-back", attempt(lambda: op(op(rec, k), -k)))
    for k in (0.0, 1.5, -2.5, None, "1", 2 ** 70, -(2 ** 70), [1], (1, 2)):
        emit(">>bad", rec.id, repr(k), attempt(lambda: rec >> k), attempt(lambda: rec << k))
    emit("unchanged", d(rec) == before)
    emit("irshift", attempt(lambda: CircularRecord.__irshift__))
    emit("rrshift", attempt(lambda: 3 >> rec), attempt(lambda: 3 << rec))

    # containment
    s = str(rec.seq)
    probes = ["", "A", "a", "N", "ACGT", s, s + s, s[::-1], s.upper(), s.lower(), s + "A"]
    for _ in range(6):
        if n:
            a = RNG.randrange(0, n)
            ln = RNG.randrange(0, n + 2)
            probes.append((s + s + s)[a : a + ln])
    for p in probes:
        emit("in", rec.id, p, attempt(lambda: p in rec))
        emit("in-seq", rec.id, p, attempt(lambda: Seq(p) in rec))
    for p in (1, None, b"A", ["A"], ("A", "C"), 2.5, rec, rec.seq, SeqRecord(Seq("A"))):
        emit("in-bad", rec.id, type(p).__name__, attempt(lambda: p in rec))

    # indexing
    idx = [0, -1, n - 1, n, -n, -n - 1, n + 5, True]
    for i in idx:
        emit("getitem", rec.id, i, attempt(lambda: rec[i]))
    slices = [slice(None), slice(0, 0), slice(0, n), slice(1, None), slice(None, -1),
              slice(None, None, -1), slice(None, None, 2), slice(n, 0), slice(-3, None),
              slice(0, 10 ** 6), slice(n + 3, n + 9), slice(None, None, 0)]
    for _ in range(5):
        slices.append(slice(RNG.randrange(-n - 2, n + 3), RNG.randrange(-n - 2, n + 3)))
    for sl in slices:
        try:
            sub = rec[sl]
        except Exception as e:  # noqa
            emit("getslice", rec.id, repr(sl), "exc", type(e).__name__, str(e))
            continue
        emit("getslice", rec.id, repr(sl), type(sub) is SeqRecord, d(sub),
             sub.annotations is rec.annotations, sub.dbxrefs is rec.dbxrefs,
             [f is g for f, g in zip(sub.features, rec.features)])
        # mutation of the slice must leave the record alone
        sub.annotations["mut"] = 1
        sub.dbxrefs.append("mut")
        for f in sub.features:
            f.qualifiers["mut"] = 1
        for v in sub.letter_annotations.values():
            if isinstance(v, list) and v:
                v[0] = -1
    for bad in ("a", None, 1.5, (1, 2), [0], slice("a", "b")):
        emit("getitem-bad", rec.id, repr(bad), attempt(lambda: rec[bad]))
    emit("unchanged2", d(rec) == before)

    # concatenation
    others = ["A", "", Seq("AC"), SeqRecord(Seq("AC")), rec, CircularRecord(Seq("G")), 0, None, 1.5,
              [rec], b"A"]
    for o in others:
        emit("add", rec.id, type(o).__name__, attempt(lambda: rec + o), attempt(lambda: o + rec))
    emit("sum", attempt(sum, [rec]), attempt(sum, [rec, rec]))
    emit("add-call", attempt(rec.__add__, "A"), attempt(rec.__radd__, "A"), attempt(rec.__add__),
         attempt(rec.__radd__, 1, 2), attempt(rec.__add__, other="A"))

    def iadd():
        x = rec
        x += "A"
        return x

    emit("iadd", attempt(iadd))

    # reverse complement
    flagsets = [{}, {"id": True}, {"id": "newid", "name": "newname", "description": "newdesc"},
                {"features": False}, {"annotations": True}, {"letter_annotations": False},
                {"dbxrefs": True}, {"annotations": {"topology": "linear"}},
                {"annotations": {"topology": "circular", "x": 1}},
                {"features": [], "dbxrefs": ["q"], "letter_annotations": {}},
                {"id": True, "name": True, "description": True, "features": True,
                 "annotations": True, "letter_annotations": True, "dbxrefs": True},
                {"bogus": 1}]
    for flags in flagsets:
        try:
            rc = rec.reverse_complement(**flags)
        except Exception as e:  # noqa
            emit("rc", rec.id, sorted(flags), "exc", type(e).__name__, str(e))
            continue
        emit("rc", rec.id, sorted(flags), type(rc) is type(rec), d(rc),
             rc.annotations is rec.annotations)
    emit("rc-pos", attempt(rec.reverse_complement, True, True, True, False, True, False, True))
    emit("rc-rc", attempt(lambda: rec.reverse_complement().reverse_complement()))
    emit("unchanged3", d(rec) == before)
    # other inherited behaviour that goes through the overridden methods
    emit("misc", len(rec), bool(rec), attempt(lambda: [c for c in rec][:5]), attempt(rec.upper),
         attempt(rec.lower), attempt(lambda: rec.format("fasta")), attempt(str, rec)[0],
         attempt(lambda: rec == rec))

emit("init-log", len(INIT_LOG), INIT_LOG[:200])

# class-level introspection that users may rely on
for name in ("__add__", "__radd__", "__contains__", "__getitem__", "reverse_complement",
             "__lshift__", "__rshift__", "__init__"):
    f = getattr(CircularRecord, name)
    emit("attr", name, f.__name__, f.__doc__, callable(f))
    g = getattr(UserRecord, name)
    emit("attr-sub", name, g is f)
emit("isinstance", isinstance(RECORDS[0], SeqRecord), issubclass(CircularRecord, SeqRecord),
     issubclass(UserRecord, CircularRecord), CircularRecord.__name__, CircularRecord.__module__,
     CircularRecord.__doc__, DNARegex.__doc__, DNARegex.__name__, DNARegex.__module__,
     SeqMatch.__name__, SeqMatch.__module__, SeqMatch.__doc__)
import moclo.record  # noqa: E402
import moclo.regex  # noqa: E402

emit("public-record", sorted(n for n in vars(moclo.record) if not n.startswith("_")))
emit("public-regex", sorted(n for n in vars(moclo.regex) if not n.startswith("_")))
emit("public-CircularRecord", sorted(n for n in vars(CircularRecord) if not n.startswith("_")))
emit("public-DNARegex", sorted(n for n in vars(DNARegex) if not n.startswith("_")))
emit("public-SeqMatch", sorted(n for n in vars(SeqMatch) if not n.startswith("_")))

# --- 6. assemblies on top of both modules -------------------------------------


class MockVector(AbstractVector):
    cutter = BpiI


class MockModule(AbstractModule):
    cutter = BpiI


class BsaVector(AbstractVector):
    cutter = BsaI


class BsaModule(AbstractModule):
    cutter = BsaI


def d_exc(e):
    return ("exc", type(e).__name__, str(e))


def rotations(seq, ident, features=False, cls=CircularRecord, topology=None):
    n = len(seq)
    for k in sorted(set([0, 1, 5, n // 2, n - 3, n - 1] + [RNG.randrange(n) for _ in range(3)])):
        rot = seq[k:] + seq[:k]
        if RNG.random() < 0.5:
            rot = rand_case(rot)
        feats = []
        ann = {}
        if features:
            a = RNG.randrange(0, n - 1)
            b = RNG.randrange(a + 1, n + 1)
            feats.append(SeqFeature(FeatureLocation(a, b, 1), type="misc_feature",
                                    qualifiers={"label": [ident], "citation": ["[1]"]}))
            feats.append(SeqFeature(FeatureLocation(0, n, 1), type="source",
                                    qualifiers={"organism": [ident]}))
            ann["references"] = ["ref-" + ident, "ref-common"]
        if topology is not None:
            ann["topology"] = topology
        yield k, cls(Seq(rot), id=ident, name=ident, features=feats, annotations=ann or None)


def inspect_part(part):
    return (
        attempt(part.is_valid),
        attempt(part.overhang_start),
        attempt(part.overhang_end),
        attempt(part.target_sequence),
        attempt(getattr(part, "placeholder_sequence", lambda: None)),
    )


VEC = "CCATGCTTGTCTTCCACAGAAGACTTCGTAGG"  # ATGC ---- CGTA
MOD_OK = "GAAGACTTATGCTATACGTATTGTCTTC"  # CGTA --- ATGC (reads ATGC..CGTA)
MOD_DUP = "GAAGACTTATGCCACACGTATTGTCTTC"
MOD_MISS = "GAAGACTTATGACACACGTATTGTCTTC"
MOD_UNUSED = "GAAGACTTAAAACACACCCCTTGTCTTC"
VEC_BAD = "CCATGCTTGTCTTCCACAGAAGACTTATGCGG"
MOD_A = "GAAGACTTATGCAAAAAAAAGGGGTTGTCTTC" + "TTTTT"  # ATGC -> GGGG
MOD_B = "GAAGACTTGGGGCCCCCCCCCGTATTGTCTTC" + "AAATT"  # GGGG -> CGTA

for kv, vrec in rotations(VEC + "ACGTTGCA", "vector", features=True):
    vector = MockVector(vrec)
    emit("vector", kv, inspect_part(vector))
    for km, mrec in rotations(MOD_OK + "TTAACC", "mod1", features=True):
        module = MockModule(mrec)
        emit("module", km, inspect_part(module))
        with warnings.catch_warnings(record=True) as caught:
            warnings.simplefilter("always")
            try:
                asm = vector.assemble(module, id="asm", name="asm")
            except Exception as e:  # noqa
                emit("assemble", kv, km, d_exc(e))
            else:
                emit("assemble", kv, km, d(asm), [str(w.message) for w in caught
                                                   if isinstance(w.message, errors.MocloError)])
        emit("after", d(vrec), d(mrec))
    # two-module assembly, unused, duplicates, missing
    for (ka, arec), (kb, brec) in zip(rotations(MOD_A, "modA", features=True),
                                      rotations(MOD_B, "modB", features=True)):
        ma, mb = MockModule(arec), MockModule(brec)
        extra = MockModule(CircularRecord(Seq(MOD_UNUSED), id="unused"))
        dup = MockModule(CircularRecord(Seq(MOD_DUP), id="dup"))
        for label, mods in (("ab", [ma, mb]), ("ba", [mb, ma]), ("a", [ma]), ("b", [mb]),
                            ("ab+unused", [ma, mb, extra]), ("ab+dup", [ma, dup, mb]),
                            ("aa", [ma, ma]), ("ab+a2", [ma, mb, MockModule(arec)])):
            with warnings.catch_warnings(record=True) as caught:
                warnings.simplefilter("always")
                try:
                    asm = vector.assemble(*mods)
                except Exception as e:  # noqa
                    emit("assemble2", kv, ka, kb, label, d_exc(e))
                else:
                    emit("assemble2", kv, ka, kb, label, d(asm),
                         [str(w.message) for w in caught
                          if isinstance(w.message, errors.MocloError)])
        emit("after2", d(arec), d(brec))

for seq, ident in ((VEC_BAD, "badvec"), (MOD_MISS, "miss"), (MOD_DUP, "dup"), ("ACGT" * 6, "nosite"),
                   (VEC + "GAAGACAA", "illegal"), ("", "empty")):
    for topo in (None, "circular", "linear", "Linear"):
        if not seq:
            recs = [(0, SeqRecord(Seq(""), id=ident,
                                  annotations={"topology": topo} if topo else {}))]
        else:
            recs = list(rotations(seq, ident, cls=SeqRecord if topo else CircularRecord,
                                  topology=topo))
        for k, rec in recs:
            emit("part", ident, topo, k, inspect_part(MockVector(rec)), inspect_part(MockModule(rec)),
                 inspect_part(BsaVector(rec)), inspect_part(BsaModule(rec)))

bad_vector = MockVector(CircularRecord(Seq(VEC_BAD), "vector"))
emit("invalid-vector", attempt(bad_vector.assemble, MockModule(CircularRecord(Seq(MOD_OK), "m"))))
vec = MockVector(CircularRecord(Seq(VEC), "vector"))
emit("missing", attempt(vec.assemble, MockModule(CircularRecord(Seq(MOD_MISS), "mod1"))))
emit("dup", attempt(vec.assemble, MockModule(CircularRecord(Seq(MOD_DUP), "mod1")),
                    MockModule(CircularRecord(Seq(MOD_OK), "mod2"))))

# real kit parts, rotated
try:
    from moclo.registry.ytk import YTKRegistry
    from moclo.kits import ytk

    reg = YTKRegistry()
    keys = sorted(reg)
    for key in RNG.sample(keys, 25):
        item = reg[key]
        ent = item.entity
        rec = ent.record
        n = len(rec)
        emit("ytk", key, type(ent).__name__, attempt(ent.is_valid), attempt(ent.overhang_start),
             attempt(ent.overhang_end), hashlib.sha256(repr(attempt(ent.target_sequence)).encode()).hexdigest())
        for k in (1, n // 3, n - 7, RNG.randrange(n)):
            rot = type(ent)(rec >> k)
            rot2 = type(ent)(rec << k)
            emit("ytk-rot", key, k, attempt(rot.is_valid), attempt(rot.overhang_start),
                 attempt(rot.overhang_end),
                 hashlib.sha256(repr(attempt(rot.target_sequence)).encode()).hexdigest(),
                 hashlib.sha256(repr(attempt(rot2.target_sequence)).encode()).hexdigest(),
                 hashlib.sha256(repr(d(rec >> k)).encode()).hexdigest(),
                 hashlib.sha256(repr(d((rec >> k).reverse_complement())).encode()).hexdigest())
    # a genuine YTK cassette assembly
    vector = reg["pYTK095"].entity
    mods = [reg[x].entity for x in ("pYTK002", "pYTK009", "pYTK033", "pYTK056", "pYTK067")]
    for k in (0, 17, 1234):
        rmods = [type(m)(m.record >> (k % len(m.record))) for m in mods]
        rvec = type(vector)(vector.record << k)
        with warnings.catch_warnings(record=True) as caught:
            warnings.simplefilter("always")
            try:
                asm = rvec.assemble(*rmods)
            except Exception as e:  # noqa
                emit("ytk-asm", k, d_exc(e))
            else:
                emit("ytk-asm", k, hashlib.sha256(repr(d(asm)).encode()).hexdigest(), len(asm),
                     [str(w.message) for w in caught if isinstance(w.message, errors.MocloError)])
        emit("ytk-asm-missing", k, attempt(rvec.assemble, *rmods[:-1]))
        emit("ytk-asm-dup", k, attempt(rvec.assemble, *(rmods + [type(mods[0])(mods[0].record)])))
except ImportError as e:  # registry not available: still part of the digest
    emit("ytk-unavailable", str(e))

# memory addresses in default reprs are the only run-dependent content
text = re.sub(r"0x[0-9a-fA-F]+", "0x?", "\n".join(OUT))
if len(sys.argv) > 1:  # optional dump of all observations, to diff two runs
    with open(sys.argv[1], "w") as dump:
        dump.write(text)
blob = text.encode("utf-8")
print(len(OUT), "observations")
print(hashlib.sha256(blob).hexdigest())
