# coding: utf-8
"""Differential test: prints a digest of everything observable from the
refactored code (rotation of circular records and the code around it) on a
few hundred generated inputs. The digest must not change under clean.diff."""
import sys

sys.path.insert(0, "/tmp/agents6/C13")
import tests  # noqa: F401,E402

import hashlib  # noqa: E402
import random  # noqa: E402
import warnings  # noqa: E402

from Bio.Restriction import BsaI, BsmBI, BbsI  # noqa: E402
from Bio.Seq import Seq  # noqa: E402
from Bio.SeqFeature import (  # noqa: E402
    AfterPosition,
    BeforePosition,
    CompoundLocation,
    ExactPosition,
    FeatureLocation,
    SeqFeature,
)
from Bio.SeqRecord import SeqRecord  # noqa: E402

from moclo.core import Entry, Cassette, EntryVector, CassetteVector  # noqa: E402
from moclo.record import CircularRecord  # noqa: E402
from moclo.regex import DNARegex  # noqa: E402

LINES = []


def emit(*items):
    LINES.append(" | ".join(str(i) for i in items))


def show_loc(loc):
    if loc is None:
        return "None"
    parts = [
        "{}:{}:{}:{}:{}:{}:{}".format(
            type(p.start).__name__, int(p.start), type(p.end).__name__, int(p.end),
            p.strand, p.ref, p.ref_db,
        )
        for p in loc.parts
    ]
    return "{}<{}>[{}]".format(type(loc).__name__, getattr(loc, "operator", "-"), ",".join(parts))


def show(rec):
    if not isinstance(rec, SeqRecord):
        return repr(rec)
    feats = [
        (f.type, f.id, show_loc(f.location), sorted((k, repr(v)) for k, v in f.qualifiers.items()))
        for f in rec.features
    ]
    return repr(
        (
            type(rec).__name__, str(rec.seq), rec.id, rec.name, rec.description,
            list(rec.dbxrefs), sorted((k, repr(v)) for k, v in rec.annotations.items()),
            sorted((k, type(v).__name__, repr(v)) for k, v in rec.letter_annotations.items()),
            feats,
        )
    )


def attempt(label, func, *watch):
    """Run func, record its result or exception, warnings, and input state."""
    with warnings.catch_warnings(record=True) as caught:
        warnings.simplefilter("always")
        try:
            res = func()
            out = ("ok", show(res) if not isinstance(res, (list, tuple)) else [show(r) for r in res])
        except Exception as exc:  # noqa: B902
            res = None
            out = ("exc", type(exc).__name__, str(exc))
    emit(label, out, [(w.category.__name__, str(w.message)) for w in caught], [show(w) for w in watch])
    return res


def random_location(rng, n):
    kind = rng.randrange(9)
    strand = rng.choice([1, -1, None, 0])
    if kind == 0:  # simple
        a = rng.randrange(0, n)
        b = rng.randrange(a, n + 1)
        return FeatureLocation(a, b, strand)
    if kind == 1:  # origin spanning, end past the length
        a = rng.randrange(1, n) if n > 1 else 0
        b = rng.randrange(n, n + a + 1)
        return FeatureLocation(a, b, strand)
    if kind == 2:  # whole length
        return FeatureLocation(0, n, strand)
    if kind == 3:  # compound
        k = rng.randrange(2, 5)
        parts = []
        for _ in range(k):
            a = rng.randrange(0, n)
            b = rng.randrange(a, n + 1)
            parts.append(FeatureLocation(a, b, rng.choice([strand, strand, -1, 1])))
        return CompoundLocation(parts, rng.choice(["join", "order"]))
    if kind == 4:  # compound covering 0..n as overall span
        cut = rng.randrange(0, n + 1)
        gap = rng.randrange(cut, n + 1)
        return CompoundLocation([FeatureLocation(0, cut, strand), FeatureLocation(gap, n, strand)])
    if kind == 5:  # compound, wrapped over origin, origin part first
        a = rng.randrange(0, n)
        return CompoundLocation([FeatureLocation(a, n, strand), FeatureLocation(0, rng.randrange(0, a + 1), strand)])
    if kind == 6:  # fuzzy
        a = rng.randrange(0, n)
        b = rng.randrange(a, n + 1)
        return FeatureLocation(BeforePosition(a), AfterPosition(b), strand)
    if kind == 7:  # both ends past the length (already denormalised)
        a = rng.randrange(n, 3 * n)
        return FeatureLocation(a, a + rng.randrange(0, n), strand)
    a = rng.randrange(0, n)
    b = rng.randrange(a, n + 1)
    return FeatureLocation(ExactPosition(a), ExactPosition(b), strand, ref=rng.choice([None, "X1.1"]))


def random_record(rng, i):
    n = rng.choice([1, 2, 3, 4, 5, 7, 8, 12, 16, 26])
    alphabet = "ABCDEFGHIJKLMNOPQRSTUVWXYZ" if rng.random() < 0.5 else "ACGTacgt"
    if alphabet.startswith("AB"):
        seq = alphabet[:n]
    else:
        seq = "".join(rng.choice(alphabet) for _ in range(n))
    feats = []
    for j in range(rng.randrange(0, 6)):
        ftype = rng.choice(["source", "source", "CDS", "gene", "misc_feature"])
        loc = None if rng.random() < 0.07 else random_location(rng, n)
        quals = {"label": ["f{}".format(j)], "n": [str(rng.randrange(100))]}
        feats.append(SeqFeature(loc, type=ftype, id="id{}".format(j), qualifiers=quals))
    letan = {}
    if rng.random() < 0.6:
        letan["phred"] = [rng.randrange(60) for _ in range(n)]
    if rng.random() < 0.4:
        letan["tag"] = "".join(rng.choice("xyz.") for _ in range(n))
    if rng.random() < 0.2:
        letan["tup"] = tuple(range(n))
    annotations = {"molecule_type": "DNA", "k": [i]}
    if rng.random() < 0.5:
        annotations["topology"] = rng.choice(["circular", "Circular", "CIRCULAR"])
    kwargs = dict(
        id="rec{}".format(i), name="name{}".format(i), description="desc {}".format(i),
        dbxrefs=["db:{}".format(i)], features=feats, annotations=annotations,
        letter_annotations=letan,
    )
    if rng.random() < 0.3:
        return CircularRecord(SeqRecord(Seq(seq), **kwargs)), n
    return CircularRecord(Seq(seq), **kwargs), n


def rotations(rng):
    for i in range(260):
        rec, n = random_record(rng, i)
        ks = [0, 1, -1, n, -n, n + 1, 2 * n, 3 * n + 2, -(2 * n + 1), rng.randrange(-50, 50), True]
        for k in rng.sample(ks, 5):
            r1 = attempt(("rshift", i, k), lambda: rec >> k, rec)
            r2 = attempt(("lshift", i, k), lambda: rec << k, rec)
            emit("identity", i, k, r1 is rec, r2 is rec)
            if r1 is not None:
                emit("shares", i, k, r1.annotations is rec.annotations, r1.dbxrefs is rec.dbxrefs,
                     [a.qualifiers is b.qualifiers for a, b in zip(r1.features, rec.features)],
                     [a.location is b.location for a, b in zip(r1.features, rec.features)],
                     [a is b for a, b in zip(r1.features, rec.features)])
        a, b, c = rng.randrange(-30, 30), rng.randrange(-30, 30), rng.randrange(0, 30)
        attempt(("compose", i, a, b, c), lambda: ((rec >> a) << b) >> c, rec)
        attempt(("compose2", i, a, b), lambda: (rec << a) << b, rec)
        attempt(("slice", i), lambda: (rec << a)[: max(1, n // 2)], rec)
        attempt(("revcomp", i), lambda: (rec >> c).reverse_complement() if set(str(rec.seq)) <= set("ACGTacgt") else None, rec)
        attempt(("contains", i), lambda: [str(rec.seq)[-1:] + str(rec.seq)[:1] in rec, "??" in rec])
        attempt(("add", i), lambda: rec + rec, rec)
        attempt(("radd", i), lambda: "AC" + rec, rec)

    # degenerate inputs
    attempt("empty>>", lambda: CircularRecord(Seq("")) >> 1)
    attempt("empty<<", lambda: CircularRecord(Seq("")) << 0)
    lin = CircularRecord(Seq("ACGT"), annotations={"molecule_type": "DNA"})
    lin.annotations["topology"] = "linear"
    attempt("linear>>", lambda: lin >> 1, lin)
    attempt("linear<<", lambda: lin << 1, lin)
    attempt("linear>>4", lambda: lin >> 4, lin)
    attempt("linear-init", lambda: CircularRecord(SeqRecord(Seq("ACGT"), annotations={"topology": "linear"})))
    bad = CircularRecord(Seq("ACGT"))
    bad.features.append(SeqFeature(FeatureLocation(1, 3, 1), type="gene"))
    attempt("str-index", lambda: bad >> "a", bad)
    attempt("none-index", lambda: bad << None, bad)

    class Sub(CircularRecord):
        pass

    sub = Sub(Seq("ACGTTG"), id="sub", features=[SeqFeature(FeatureLocation(4, 6, -1), type="gene")])
    attempt("subclass", lambda: sub >> 3, sub)
    attempt("subclass<<", lambda: sub << 3, sub)


def random_dna(rng, n, lower=0.0):
    while True:
        s = "".join(rng.choice("ACGT") for _ in range(n))
        if not any(site in s + s for site in ("GGTCTC", "GAGACC", "CGTCTC", "GAGACG", "GAAGAC", "GTCTTC")):
            return "".join(c.lower() if rng.random() < lower else c for c in s)


def structured(rng):
    class MyEntry(Entry):
        cutter = BsaI

    class MyCassetteVector(CassetteVector):
        cutter = BsaI

    class MyCassette(Cassette):
        cutter = BsmBI

    class MyEntryVector(EntryVector):
        cutter = BbsI

    def annotate(rec, rng, tag):
        n = len(rec)
        rec.annotations["references"] = ["ref-{}-a".format(tag), "ref-{}-b".format(tag)]
        for j in range(rng.randrange(0, 5)):
            a = rng.randrange(0, n)
            b = rng.randrange(a, min(n, a + 30) + 1)
            quals = {"label": ["{}-{}".format(tag, j)]}
            if rng.random() < 0.4:
                quals["citation"] = [rng.choice(["[1]", "[2]"])]
            rec.features.append(SeqFeature(FeatureLocation(a, b, rng.choice([1, -1])), type="misc_feature", qualifiers=quals))
        if rng.random() < 0.3:
            rec.features.append(SeqFeature(FeatureLocation(0, n), type="source", qualifiers={"label": ["whole"]}))
        return rec

    def module_seq(rng, up, down, lower):
        ins = random_dna(rng, rng.randrange(5, 40), lower)
        core = "GGTCTC" + "A" + up + ins + down + "T" + "GAGACC"
        bb = random_dna(rng, rng.randrange(10, 50), lower)
        return core + bb

    def vector_seq(rng, up, down, lower):
        # overhang of the first module, placeholder, overhang of the last module
        ph = random_dna(rng, rng.randrange(5, 30), lower)
        core = up + "A" + "GAGACC" + ph + "GGTCTC" + "T" + down
        bb = random_dna(rng, rng.randrange(20, 60), lower)
        return core + bb

    ovhs = ["AACG", "GGCT", "TTGA", "CCAT", "ATCC"]
    for i in range(60):
        lower = rng.choice([0.0, 0.0, 0.3, 1.0])
        k = rng.randrange(1, 4)
        chain = rng.sample(ovhs, k + 1)
        wrap = rng.random() < 0.6
        mods = []
        for j in range(k):
            s = module_seq(rng, chain[j], chain[j + 1], lower)
            rot = rng.randrange(1, len(s)) if wrap else 0
            s = s[rot:] + s[:rot]
            anns = {"molecule_type": "DNA"}
            if rng.random() < 0.5:
                anns["topology"] = "circular"
            if rng.random() < 0.85:
                rec = CircularRecord(Seq(s), id="mod{}_{}".format(i, j), name="m", annotations=anns)
            else:
                rec = SeqRecord(Seq(s), id="mod{}_{}".format(i, j), name="m", annotations=anns)
            mods.append(MyEntry(annotate(rec, rng, "m{}{}".format(i, j))))
        vs = vector_seq(rng, chain[0], chain[k], lower)
        rot = rng.randrange(1, len(vs)) if wrap else 0
        vs = vs[rot:] + vs[:rot]
        vrec = CircularRecord(Seq(vs), id="vec{}".format(i), name="v", annotations={"molecule_type": "DNA"})
        vec = MyCassetteVector(annotate(vrec, rng, "v{}".format(i)))
        failure = rng.randrange(6)
        used = list(mods)
        if failure == 0 and len(used) > 1:
            used = used[:-1]  # missing module
        elif failure == 1:
            used = used + [used[0]]  # same module twice is fine / duplicates
        elif failure == 2:
            extra = module_seq(rng, chain[0], chain[1], lower)
            used = used + [MyEntry(CircularRecord(Seq(extra), id="dup{}".format(i)))]
        watch = [m.record for m in mods] + [vec.record]
        for m in mods:
            attempt(("module", i, m.record.id), lambda: [m.overhang_start(), m.overhang_end(), m.target_sequence()], m.record)
            attempt(("module-valid", i), lambda: m.is_valid())
        attempt(("vector", i), lambda: [vec.overhang_start(), vec.overhang_end(), vec.placeholder_sequence(), vec.target_sequence()], vec.record)
        attempt(("assemble", i, failure), lambda: vec.assemble(*used, id="asm{}".format(i), name="a"), *watch)
        # other enzymes / wrong structure
        attempt(("wrong-enzyme", i), lambda: MyCassette(mods[0].record).target_sequence())
        attempt(("wrong-vector", i), lambda: MyEntryVector(vec.record).target_sequence())

    # regex layer
    for i in range(80):
        n = rng.randrange(8, 40)
        s = random_dna(rng, n, rng.choice([0.0, 0.5]))
        a = rng.randrange(0, n)
        ln = rng.randrange(2, 7)
        motif = (s + s)[a : a + ln].upper()
        pattern = "({})(N*)({})".format(motif[:1], motif[1:]) if i % 2 else "(N)({})".format(motif)
        rx = DNARegex(pattern)
        for target in (CircularRecord(Seq(s), id="c"), SeqRecord(Seq(s), id="l"), Seq(s)):
            for linear in (True, False):
                def run():
                    m = rx.search(target, linear=linear)
                    if m is None:
                        return None
                    return [repr((m.start(), m.end(), m.span(1)))] + [m.group(g) for g in range(0, 3)]
                attempt(("regex", i, type(target).__name__, linear), run)
    attempt("regex-type", lambda: DNARegex("AN").search("ACGT"))


def main():
    rng = random.Random(20260927)
    rotations(rng)
    structured(rng)
    digest = hashlib.sha256("\n".join(LINES).encode("utf-8")).hexdigest()
    kinds = {}
    for line in LINES:
        if "('exc'" in line:
            kinds["exc"] = kinds.get("exc", 0) + 1
        elif "('ok'" in line:
            kinds["ok"] = kinds.get("ok", 0) + 1
    print("observations:", len(LINES), sorted(kinds.items()))
    print("digest:", digest)


if __name__ == "__main__":
    main()
