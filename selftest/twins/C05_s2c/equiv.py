# coding: utf-8
"""Differential test for the structure / characterisation code of moclo.

Run as: cd /tmp/agents8/C05 && /venv/bin/python pairs_out/C05_s2/equiv.py [--dump FILE]

Prints a digest of every observed result (return values, exception types and
messages, warnings, state of the inputs afterwards). The digest must be the
same before and after a behaviour-preserving change.
"""
import sys

sys.path.insert(0, "/tmp/agents8/C05")
import tests  # noqa: F401,E402

import copy  # noqa: E402
import hashlib  # noqa: E402
import inspect  # noqa: E402
import random  # noqa: E402
import re  # noqa: E402
import warnings  # noqa: E402

from Bio import Restriction  # noqa: E402
from Bio.Seq import Seq  # noqa: E402
from Bio.SeqFeature import SeqFeature, FeatureLocation  # noqa: E402
from Bio.SeqRecord import SeqRecord  # noqa: E402

from moclo import core, errors  # noqa: E402
from moclo._utils import isabstract  # noqa: E402
from moclo.core import (  # noqa: E402
    AbstractModule,
    AbstractPart,
    AbstractVector,
    Cassette,
    CassetteVector,
    Device,
    DeviceVector,
    Entry,
    EntryVector,
    Product,
)
from moclo.kits import cidar, ecoflex, moclo as kmoclo, plant, ytk  # noqa: E402
from moclo.record import CircularRecord  # noqa: E402
from moclo.regex import DNARegex  # noqa: E402

LINES = []
KEEP = []  # keeps the classes defined here alive (``__subclasses__`` is weak)
RNG = random.Random(20240605)

IUPAC = {
    "A": "A", "C": "C", "G": "G", "T": "T",
    "B": "CGT", "D": "AGT", "H": "ACT", "K": "GT", "M": "AC", "N": "ACGT",
    "R": "AG", "S": "CG", "V": "ACG", "W": "AT", "Y": "CT",
}
FORBIDDEN = [
    "GGTCTC", "GAGACC", "CGTCTC", "GAGACG", "GAAGAC", "GTCTTC", "GCTCTTC",
    "GAAGAGC", "GGATG", "CATCC", "GACGC", "GCGTC", "GAATTC", "GCAGTG", "CACTGC",
    "CACCTGC", "GCAGGTG",
]


def out(*items):
    line = " | ".join(str(i) for i in items)
    if len(line) > 400:  # keep the dump small, but the digest sensitive
        line = line[:360] + "...#" + hashlib.sha1(line.encode("utf-8")).hexdigest()
    LINES.append(line)


def call(label, func, *args, **kwargs):
    """Call func, log result or exception, and the warnings it emitted."""
    with warnings.catch_warnings(record=True) as caught:
        warnings.simplefilter("always")
        try:
            res = func(*args, **kwargs)
            desc = "OK " + show(res)
        except Exception as e:  # noqa
            res = None
            desc = "EXC {}: {}".format(type(e).__name__, e)
    ws = ["{}:{}".format(type(w.message).__name__, w.message) for w in caught
          if "pkg_resources" not in str(w.message)]
    out(label, re.sub(r"0x[0-9a-fA-F]+", "0x?", desc), "W=" + ";".join(ws))
    return res


def show(x):
    if isinstance(x, SeqRecord):
        return "<{} id={} seq={} feats={}>".format(
            type(x).__name__, x.id, str(x.seq), show_features(x))
    if isinstance(x, Seq):
        return "Seq({})".format(str(x))
    if isinstance(x, core._structured.StructuredRecord):
        return "<{} of {}>".format(type(x).__name__, x.record.id)
    if isinstance(x, (list, tuple)):
        return "[" + ", ".join(show(i) for i in x) + "]"
    if inspect.isclass(x):
        return x.__name__
    return repr(x)


def show_features(rec):
    feats = []
    for f in rec.features:
        quals = sorted((k, str(v)) for k, v in f.qualifiers.items())
        feats.append("{}@{}{}".format(f.type, f.location, quals))
    refs = rec.annotations.get("references")
    return "{} refs={}".format(feats, refs)


def rand_dna(n, rng=RNG):
    while True:
        s = "".join(rng.choice("ACGT") for _ in range(n))
        d = s + s
        if not any(f in d for f in FORBIDDEN):
            return s


def fill(pattern, overhangs=None, insert=None, rng=RNG):
    """Build a sequence following a DNA pattern with 3 groups.

    overhangs: replacement for group 1 and 3 (as found in the pattern).
    """
    seq = []
    group = 0
    depth = 0
    i = 0
    buf = {1: [], 2: [], 3: []}
    pieces = []  # (group, text)
    while i < len(pattern):
        c = pattern[i]
        if c == "(":
            group += 1
            depth = 1
        elif c == ")":
            depth = 0
        elif c in "*?":
            pass
        else:
            star = i + 1 < len(pattern) and pattern[i + 1] == "*"
            g = group if depth else 0
            if star:
                pieces.append((g, insert if insert is not None else rand_dna(rng.randint(8, 30), rng)))
            else:
                pieces.append((g, rng.choice(IUPAC.get(c.upper(), c))))
        i += 1
    # rebuild, replacing overhang groups
    res = []
    done = set()
    for g, text in pieces:
        if overhangs is not None and g in (1, 3):
            if g not in done:
                done.add(g)
                ov = overhangs[0] if g == 1 else overhangs[1]
                res.append("".join(rng.choice(IUPAC.get(ch.upper(), ch)) for ch in ov))
            continue
        res.append(text)
    return "".join(res)


def mkrec(seq, id_, circular=True, topology=None, features=True):
    cls = CircularRecord if circular else SeqRecord
    rec = cls(Seq(seq), id=id_, name=id_, description="rec " + id_)
    if topology is not None:
        rec.annotations["topology"] = topology
    if features:
        rec.features.append(SeqFeature(FeatureLocation(0, min(5, len(seq))), type="misc_feature",
                                       qualifiers={"label": ["f0"]}))
    return rec


def classes_of(mod):
    return [c for n, c in sorted(vars(mod).items())
            if inspect.isclass(c) and c.__module__ == mod.__name__
            and issubclass(c, core._structured.StructuredRecord)]


KITS = [ytk, cidar, ecoflex, kmoclo, plant]
ALL = [c for m in KITS for c in classes_of(m)]
CORE = [AbstractModule, AbstractVector, AbstractPart, Product, Entry, Cassette, Device,
        EntryVector, CassetteVector, DeviceVector]


# --- 1. static facts about every class --------------------------------------

def section_static():
    for c in CORE + ALL:
        out("class", c.__module__.split(".")[-1], c.__name__,
            "abstract=%s" % isabstract(c),
            "level=%r" % getattr(c, "_level", "n/a"),
            "cutter=%s" % (c.cutter if c.cutter is NotImplemented else c.cutter.__name__),
            "sig=%r" % (getattr(c, "signature", "n/a"),),
            "bases=%s" % [k.__name__ for k in (AbstractPart, AbstractModule, AbstractVector,
                                               Product, Entry, Cassette, Device, EntryVector,
                                               CassetteVector, DeviceVector) if issubclass(c, k)],
            "kitbases=%s" % [k.__name__ for k in ALL if issubclass(c, k) and k is not c],
            "subclasses=%s" % [k.__name__ for k in c.__subclasses__()
                              if k.__module__.startswith("moclo.kits")])
        call("structure " + c.__name__, c.structure)
        call("new " + c.__name__, lambda c=c: type(c(mkrec("ATGC", "x"))).__name__)
    for m in KITS:
        out("module", m.__name__, sorted(n for n in vars(m) if not n.startswith("__")
                                         and inspect.isclass(vars(m)[n])))
        out("version", m.__name__, m.__version__, m.__author__)
    for n in core.__all__:
        out("core", n, getattr(core, n).__module__)


# --- 2. user-defined classes over many enzymes and signatures ---------------

ENZYMES = ["BsaI", "BpiI", "BbsI", "BsmBI", "Esp3I", "SapI", "FokI", "HgaI", "AarI", "BtgZI",
           "EcoRI", "BtsI", "KpnI", "BseRI", "SfiI", "BsrI", "BcgI", "MlyI", "SmaI", "EcoRV"]
SIGNATURES = [("ATGC", "TTCA"), ("NNNN", "GGGA"), ("GGGA", "NNNN"), ("NNNN", "NNNN"),
              ("RYKM", "SWBD"), ("HVNN", "acgt"), ("atgc", "ttca"), ("ATG", "TCA"),
              ("AT", "GC"), "AB", ("ATGC",), ("A", "B", "C"), None, 12, NotImplemented,
              ["ATGC", "TTCA"], (Seq("ATGC"), Seq("TTCA"))]


def user_classes(cutter, signature):
    class GM(Entry):
        pass

    class GV(CassetteVector):
        pass

    GM.cutter = GV.cutter = cutter

    class PM(AbstractPart, GM):
        pass

    class PV(AbstractPart, GV):
        pass

    class PX(AbstractPart):
        pass

    class PB(AbstractPart, GM, GV):
        pass

    class PN(AbstractPart, GM):  # inherits the cutter declaration of AbstractPart
        pass

    for k in (PM, PV, PX, PB):
        k.cutter = cutter
        k.signature = signature
    PN.signature = signature
    KEEP.extend([GM, GV, PM, PV, PX, PB, PN])
    return GM, GV, PM, PV, PX, PB, PN


def section_user():
    for name in ENZYMES:
        cutter = getattr(Restriction, name)
        out("enzyme", name, cutter.elucidate(), cutter.ovhgseq, cutter.is_5overhang(),
            cutter.is_3overhang(), cutter.is_blunt(), cutter.is_unknown())
        for sig in SIGNATURES:
            ks = user_classes(cutter, sig)
            for k in ks:
                tag = "{} {} {!r}".format(name, k.__name__, sig)
                call("ustructure " + tag, k.structure)
                call("uabstract " + tag, isabstract, k)
                call("uregex " + tag, lambda k=k: k._get_regex().pattern)
                call("unew " + tag, lambda k=k: type(k(mkrec("ATGCATGC", "u"))).__name__)
    for cutter in (NotImplemented, None):
        for sig in (("ATGC", "TTCA"), NotImplemented, ("A",)):
            for k in user_classes(cutter, sig):
                tag = "{} {} {!r}".format(cutter, k.__name__, sig)
                call("ustructure " + tag, k.structure)
                call("unew " + tag, lambda k=k: type(k(mkrec("ATGCATGC", "u"))).__name__)


# --- 3. generated records against every class -------------------------------

def observe(entity, tag, deep=True):
    rec = entity.record
    before = (str(rec.seq), show_features(rec), rec.id)
    v = call("valid " + tag, entity.is_valid)
    call("valid2 " + tag, entity.is_valid)
    if deep:
        for meth in ("overhang_start", "overhang_end", "target_sequence", "placeholder_sequence"):
            if hasattr(entity, meth):
                call(meth + " " + tag, getattr(entity, meth))
        call("span " + tag, lambda: [entity._match.span(i) for i in range(4)])
    after = (str(rec.seq), show_features(rec), rec.id)
    out("state " + tag, "unchanged" if before == after else "CHANGED %r" % (after,))
    return v


def variants(seq, id_, rng):
    """Yield records presenting the same construct in different ways."""
    pad1, pad2 = rand_dna(rng.randint(5, 25), rng), rand_dna(rng.randint(5, 25), rng)
    full = pad1 + seq + pad2
    yield mkrec(full, id_ + ".c")
    yield mkrec(full, id_ + ".l", circular=False, topology="linear")
    yield mkrec(full, id_ + ".s", circular=False)
    yield mkrec(full.lower(), id_ + ".lc")
    mixed = "".join(ch.lower() if rng.random() < 0.5 else ch for ch in full)
    yield mkrec(mixed, id_ + ".mx", circular=False, topology="Circular")
    # rotations such that the match wraps the origin at interesting places
    n = len(full)
    start = len(pad1)
    for k, shift in enumerate(sorted({start + 3, start + 7, start + 8, start + 11, start + 12,
                                      start + len(seq) - 9, start + len(seq) - 5,
                                      start + len(seq) // 2, start + 1, start})):
        rot = full[shift % n:] + full[:shift % n]
        yield mkrec(rot, "{}.r{}".format(id_, k))
        if k % 3 == 0:
            yield mkrec(rot, "{}.rl{}".format(id_, k), circular=False, topology="linear")


def section_records():
    rng = random.Random(99)
    part_classes = [c for c in ALL if issubclass(c, AbstractPart) and not isabstract(c)]
    generic = [c for c in ALL if not issubclass(c, AbstractPart)]
    bases = [ytk.YTKPart, cidar.CIDARPart, ecoflex.EcoFlexPart, kmoclo.MoCloPart, AbstractPart]
    overhang_pool = sorted({o for c in part_classes for o in c.signature})
    records = []
    # members of every part class (from the generic pattern of its role and cutter)
    for c in part_classes:
        role = Entry if issubclass(c, AbstractModule) else CassetteVector

        class G(role):
            cutter = c.cutter

        KEEP.append(G)
        pat = G.structure()
        up, down = c.signature
        ovs = (up, down) if issubclass(c, AbstractModule) else (down, up)
        seq = fill(pat, ovs, rng=rng)
        records.append((c.__name__, seq))
        # near miss: one letter of one overhang changed
        which = rng.randint(0, 1)
        ov = list(ovs)
        concrete = "".join(rng.choice(IUPAC[ch]) for ch in ov[which])
        pos = rng.randrange(len(concrete))
        alt = rng.choice([b for b in "ACGT" if b != concrete[pos]])
        ov[which] = concrete[:pos] + alt + concrete[pos + 1:]
        records.append((c.__name__ + "~", fill(pat, tuple(ov), rng=rng)))
    # members of the hand-written generic classes
    for c in generic:
        records.append((c.__name__, fill(c.structure(), None, rng=rng)))
        o1, o2 = rng.choice(overhang_pool), rng.choice(overhang_pool)
        records.append((c.__name__ + "+", fill(c.structure(), (o1, o2), rng=rng)))
    # special YTK 234r members
    records.append(("r234", "AACG" + "TGAGACC" + rand_dna(20, rng) + "GGTCTCA" + "GCTG"))
    # junk and illegal sites
    records.append(("junk", rand_dna(60, rng)))
    records.append(("tiny", "ATG"))
    m = fill(ytk.YTKEntry.structure(), ("CCCT", "AACG"), insert=rand_dna(10, rng) + "GGTCTCA" + rand_dna(10, rng), rng=rng)
    records.append(("illegal1", m))
    m = fill(ytk.YTKEntry.structure(), ("AACG", "TATG"), insert=rand_dna(10, rng) + "TGAGACC" + rand_dna(10, rng), rng=rng)
    records.append(("illegal2", m))
    m = fill(ytk.YTKCassetteVector.structure(), ("CCCT", "CCGA"), insert=rand_dna(10, rng) + "GGTCTCA" + rand_dna(10, rng), rng=rng)
    records.append(("illegal3", m))
    m = fill(ytk.YTKEntry.structure(), ("TATG", "ATCC"), rng=rng)
    records.append(("withN", m[:20] + "N" + m[21:]))
    records.append(("two", fill(ytk.YTKEntry.structure(), ("CCCT", "AACG"), rng=rng) + rand_dna(9, rng)
                    + fill(ytk.YTKEntry.structure(), ("TATG", "ATCC"), rng=rng)))

    out("nrecords", len(records))
    count = 0
    for idx, (name, seq) in enumerate(records):
        for vi, rec in enumerate(variants(seq, name, rng)):
            # full sweep over every class for a few presentations, a cheaper
            # sweep (same-kit classes and bases) for the others
            sweep = ALL if vi in (0, 1, 5, 8) else [c for c in ALL if (idx + vi) % 7 == hash_name(c) % 7]
            for c in sweep:
                if c.cutter is NotImplemented:
                    continue
                tag = "{} {}".format(c.__name__, rec.id)
                ent = call("inst " + tag, c, rec)
                if ent is not None:
                    observe(ent, tag, deep=(vi in (0, 5, 8)))
                    count += 1
            if vi not in (0, 1, 3, 5, 8, 11):
                continue
            for b in bases + [part_classes[(idx + vi) % len(part_classes)]]:
                call("characterize {} {}".format(b.__name__, rec.id), b.characterize, rec)
    out("nobservations", count)


def hash_name(c):
    return sum(ord(ch) for ch in c.__name__)


# --- 4. order of use: generic first, then part, and the reverse -------------

def section_order():
    rng = random.Random(5)
    from Bio.Restriction import BsaI, BpiI

    class GenEntry(Entry):
        cutter = BsaI

    class PartA(AbstractPart, GenEntry):
        cutter = BsaI
        signature = ("AATG", "GCTT")

    class PartB(PartA):
        signature = ("GCTT", "CGCT")

    class PartC(PartB):
        pass

    class GenVec(EntryVector):
        cutter = BpiI

    class VecA(AbstractPart, GenVec):
        cutter = BpiI
        signature = ("GGAG", "CGCT")

    KEEP.extend([GenEntry, PartA, PartB, PartC, GenVec, VecA])
    ra = mkrec(rand_dna(12, rng) + fill(GenEntry.structure(), ("AATG", "GCTT"), rng=rng), "ra")
    rb = mkrec(rand_dna(12, rng) + fill(GenEntry.structure(), ("GCTT", "CGCT"), rng=rng), "rb")
    rv = mkrec(rand_dna(12, rng) + fill(GenVec.structure(), ("CGCT", "GGAG"), rng=rng), "rv")
    rw = mkrec(rand_dna(12, rng) + fill(GenVec.structure(), ("GGAG", "CGCT"), rng=rng), "rw")
    for k in (GenEntry, PartA, PartB, PartC, GenVec, VecA, PartC, PartB, PartA, GenEntry):
        for r in (ra, rb, rv, rw):
            e = call("oinst {} {}".format(k.__name__, r.id), k, r)
            if e is not None:
                observe(e, "order {} {}".format(k.__name__, r.id))
    for k in (PartA, PartB, PartC, VecA, AbstractPart):
        for r in (ra, rb, rv, rw):
            call("ochar {} {}".format(k.__name__, r.id), k.characterize, r)
        out("osub", k.__name__, [s.__name__ for s in k.__subclasses__() if s.__module__ == __name__])


# --- 5. assemblies -----------------------------------------------------------

def section_assembly():
    rng = random.Random(7)
    chain = [("1", ytk.YTKPart1), ("2", ytk.YTKPart2), ("3", ytk.YTKPart3), ("4", ytk.YTKPart4),
             ("5", ytk.YTKPart5), ("6", ytk.YTKPart6), ("7", ytk.YTKPart7)]
    refs = ["refA", "refB", "refC"]

    def build():
        mods = {}
        for n, c in chain:
            seq = rand_dna(10, rng) + fill(ytk.YTKEntry.structure(), c.signature, rng=rng) + rand_dna(10, rng)
            rec = mkrec(seq, "m" + n)
            rec.annotations["references"] = list(refs[: 1 + int(n) % 3])
            rec.features.append(SeqFeature(FeatureLocation(12, 30), type="CDS",
                                           qualifiers={"citation": ["[1]"], "label": ["cds" + n]}))
            mods[n] = rec
        vs = fill(ytk.YTKCassetteVector.structure(), ("CCCT", "CCGA"), rng=rng)
        vec = mkrec(rand_dna(15, rng) + vs + rand_dna(15, rng), "vec")
        vec.annotations["references"] = list(refs)
        vec.features.append(SeqFeature(FeatureLocation(2, 9), type="rep_origin",
                                       qualifiers={"citation": ["[2]", "[3]"]}))
        return mods, vec

    scenarios = {
        "full": lambda mods: [c(mods[n]) for n, c in chain],
        "generic": lambda mods: [ytk.YTKEntry(mods[n]) for n, c in chain],
        "missing": lambda mods: [c(mods[n]) for n, c in chain if n != "4"],
        "duplicate": lambda mods: [c(mods[n]) for n, c in chain] + [ytk.YTKPart3(copy.deepcopy(mods["3"]))],
        "wrongtype": lambda mods: [ytk.YTKPart2(mods["1"])] + [c(mods[n]) for n, c in chain[1:]],
        "badcitation": lambda mods: [c(bad(mods[n]) if n == "5" else mods[n]) for n, c in chain],
    }

    def bad(rec):
        rec.features[-1].qualifiers["citation"] = ["(1)"]
        return rec

    for name, make in sorted(scenarios.items()):
        for vcls in (ytk.YTKPart8, ytk.YTKCassetteVector, ytk.YTKPart8a):
            for rot in (0, 37):
                mods, vec = build()
                if rot:
                    vec = vec >> rot
                    mods = {n: (r << (rot + int(n))) for n, r in mods.items()}
                tag = "assembly {} {} {}".format(name, vcls.__name__, rot)
                v = call("vinst " + tag, vcls, vec)
                if v is None:
                    continue
                ms = call("minst " + tag, make, mods)
                if ms is None:
                    continue
                call(tag, lambda: v.assemble(*ms, id="asm", name="asm"))
                for r in [vec] + [mods[n] for n in sorted(mods)]:
                    out("after " + tag, r.id, str(r.seq)[:12], show_features(r))
    # unused module warning
    mods, vec = build()
    extra = mkrec(rand_dna(10, rng) + fill(ytk.YTKEntry.structure(), ("TTCT", "TGGC"), rng=rng), "extra")
    v = ytk.YTKPart8(vec)
    ms = [c(mods[n]) for n, c in chain] + [ytk.YTKEntry(extra)]
    call("assembly unused", lambda: v.assemble(*ms))


# --- 6. the DNA regex layer ---------------------------------------------------

def section_regex():
    rng = random.Random(3)
    out("lettermap", sorted(DNARegex._lettermap.items()))
    call("lettermap get", lambda: (DNARegex._lettermap.get("N"), DNARegex._lettermap.get("A"),
                                   "N" in DNARegex._lettermap, len(DNARegex._lettermap)))
    pats = ["AA(NN)", "(NNNN)", "R(YK)M", "SWB(D)HV", "ATG(N*?)TAA", "N{3}", "acgt", "RYKMSWBDHVN",
            "rykmswbdhvn", "(", "[", "A|C", "", "GGTCTCN(NNNN)(NN*N)(NNNN)NGAGACC", "X", "UN"]
    texts = ["ATGCAAGCAATA", "ATGCAGCATA", "GATTACAGATTACATAA", "atgcaagcaata", "NNNNNNNN",
             "RYKMSWBDHVN", "A", "", rand_dna(40, rng), "ACGTRYKMSWBDHVNX"]
    for p in pats:
        rx = call("compile %r" % p, DNARegex, p)
        call("transcribe %r" % p, DNARegex._transcribe, p)
        if rx is None:
            continue
        out("pattern", rx.pattern, rx.regex.pattern, rx.regex.flags)
        for t in texts:
            for kind, obj in (("seq", Seq(t)), ("rec", SeqRecord(Seq(t), id="t")),
                              ("circ", CircularRecord(Seq(t), id="t")), ("str", t)):
                for kw in ({}, {"linear": False}, {"pos": 2}, {"pos": 1, "endpos": 5}, {"endpos": 0},
                           {"pos": -2, "linear": False}):
                    def run():
                        m = rx.search(obj, **kw)
                        if m is None:
                            return None
                        n = rx.regex.groups
                        return (m.start(), m.end(), [m.span(i) for i in range(n + 1)],
                                [show(m.group(i)) for i in range(n + 1)], m.shift,
                                type(m.rec).__name__)
                    call("search %r %s %s %r" % (p, t, kind, sorted(kw.items())), run)


# --- 7. registries ------------------------------------------------------------

def section_registries():
    from moclo.registry.base import CombinedRegistry, FilesystemRegistry  # noqa
    from moclo.registry.ytk import YTKRegistry, PTKRegistry
    from moclo.registry.cidar import CIDARRegistry
    from moclo.registry.ecoflex import EcoFlexRegistry
    from moclo.registry.plant import PlantRegistry
    for factory in (YTKRegistry, PTKRegistry, CIDARRegistry, EcoFlexRegistry, PlantRegistry):
        reg = call("registry " + factory.__name__, factory)
        if reg is None:
            continue
        out("len", factory.__name__, len(reg))
        for key in sorted(reg):
            item = reg[key]
            ent = item.entity
            out("item", factory.__name__, key, type(ent).__name__, item.resistance,
                len(ent.record))
            call("item valid " + key, ent.is_valid)
            call("item start " + key, ent.overhang_start)
            call("item end " + key, ent.overhang_end)
            if issubclass(type(ent), AbstractPart):
                for base in type(ent).__mro__:
                    if base.__module__.startswith("moclo.kits") and issubclass(base, AbstractPart):
                        call("rchar {} {}".format(base.__name__, key), base.characterize, ent.record)
        # every part class of the matching kit against a sample of the items
        keys = sorted(reg)[::5]
        kit = {"YTKRegistry": ytk, "PTKRegistry": ytk, "CIDARRegistry": cidar,
               "EcoFlexRegistry": ecoflex, "PlantRegistry": kmoclo}[factory.__name__]
        for key in keys:
            rec = reg[key].entity.record
            for c in classes_of(kit) + (classes_of(plant) if kit is kmoclo else []):
                if c.cutter is NotImplemented:
                    continue
                call("rvalid {} {}".format(c.__name__, key), lambda: c(rec).is_valid())
                call("rvalid-rot {} {}".format(c.__name__, key), lambda: c(rec >> 1234).is_valid())


def main():
    for section in (section_static, section_records, section_user, section_order,
                    section_assembly, section_regex, section_registries):
        out("=== " + section.__name__)
        section()
    blob = "\n".join(LINES).encode("utf-8")
    if "--dump" in sys.argv:
        with open(sys.argv[sys.argv.index("--dump") + 1], "wb") as f:
            f.write(blob)
    print("lines:", len(LINES))
    print("digest:", hashlib.sha256(blob).hexdigest())


if __name__ == "__main__":
    main()
