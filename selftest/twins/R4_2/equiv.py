# coding: utf-8
"""Differential test for R4_2 (find_resistance + FilesystemRegistry)."""
import sys

WT = "/tmp/agentsR/R4"
sys.path.insert(0, WT)
import tests  # noqa: E402,F401

import hashlib
import io
import os
import random
import re
import warnings

warnings.simplefilter("ignore")

import fs
import Bio.SeqIO
from Bio.Seq import Seq
from Bio.SeqRecord import SeqRecord
from Bio.SeqFeature import SeqFeature, FeatureLocation

from moclo.core import AbstractPart, AbstractModule, AbstractVector
from moclo.core import modules, vectors
from moclo.kits import ytk, cidar, ecoflex
from moclo.record import CircularRecord
from moclo.registry import base
from moclo.registry.base import FilesystemRegistry, Item
from moclo.registry._utils import find_resistance
from moclo.registry.ytk import YTKRegistry, PTKRegistry
from moclo.registry.cidar import CIDARRegistry

OUT = []
_ADDR = re.compile(r"0x[0-9a-fA-F]+")


def emit(*xs):
    OUT.append(_ADDR.sub("0x", repr(xs)))


def call(f, *a, **k):
    try:
        return ("ok", f(*a, **k))
    except BaseException as e:  # noqa
        return ("exc", type(e).__name__, str(e), type(e.__cause__).__name__,
                type(e.__context__).__name__)


def norm_record(r):
    return (type(r).__name__, r.id, r.name, r.description,
            hashlib.sha256(str(r.seq).encode()).hexdigest()[:16], len(r.features),
            r.annotations.get("topology"))


def norm_item(it):
    return (type(it).__name__, it.id, it.name, it.resistance, type(it.entity).__name__,
            norm_record(it.entity.record), tuple(it)[0], tuple(it)[1], tuple(it)[3])


rng = random.Random(987654321)

# --- 1. find_resistance ------------------------------------------------------

KNOWN = ["KanR", "CamR", "CmR", "KnR", "AmpR", "SmR", "SpecR"]
OTHER = ["kanr", "KANR", "ampR", "GFP", "ori", "", " KanR", "KanR ", "Kanamycin", "AmpR promoter"]


class Feature(object):
    """a minimal stand-in: find_resistance only reads .qualifiers"""

    def __init__(self, qualifiers):
        self.qualifiers = qualifiers


class Rec(object):
    def __init__(self, id_, features):
        self.id = id_
        self.features = features


def rand_labels():
    k = rng.random()
    n = rng.choice([0, 1, 1, 2, 3, 5])
    if k < 0.45:
        return [rng.choice(OTHER) for _ in range(n)]
    if k < 0.75:
        labs = [rng.choice(OTHER) for _ in range(n)] + [rng.choice(KNOWN)]
        rng.shuffle(labs)
        return labs
    if k < 0.85:  # the same cassette several times
        c = rng.choice(KNOWN)
        return [c] * rng.randint(2, 4) + [rng.choice(OTHER) for _ in range(n)]
    if k < 0.95:  # several cassettes
        labs = rng.sample(KNOWN, rng.randint(2, 4)) + [rng.choice(OTHER) for _ in range(n)]
        rng.shuffle(labs)
        return labs
    return []


def rand_qualifiers():
    k = rng.random()
    if k < 0.15:
        return {}
    if k < 0.2:
        return {"note": ["AmpR"], "gene": ["KanR"]}
    labels = rand_labels()
    k = rng.random()
    if k < 0.1:
        labels = tuple(labels)
    elif k < 0.15:
        labels = set(labels)
    elif k < 0.2:
        labels = dict.fromkeys(labels, 1)
    elif k < 0.25:
        labels = iter(labels)
    elif k < 0.3:
        labels = rng.choice(KNOWN + OTHER)  # a bare string: iterated letter by letter
    return {"label": labels, "note": ["x"]}


for i in range(1500):
    feats = [Feature(rand_qualifiers()) for _ in range(rng.choice([0, 1, 2, 3, 6, 10]))]
    rec = Rec(rng.choice(["r%d" % i, "", "{}", "it's", None, 12]), feats)
    emit("fr", i, call(find_resistance, rec))

# odd label containers / values
ODD = [None, 3, [None], [1, 2.5, "KanR"], [("KanR",)], [b"KanR"], [["KanR"]], [{"a": 1}], ["KanR", ["x"]],
       [["x"], "KanR"], "KanR", ["AmpR", None, "KanR"], (), [""], [Seq("KanR")]]
for i, lab in enumerate(ODD):
    for pos in range(3):
        feats = [Feature({"label": ["GFP"]}), Feature({"label": ["CmR"]})]
        feats.insert(pos, Feature({"label": lab}))
        emit("odd", i, pos, call(find_resistance, Rec("odd", feats)))
# record-like objects with missing attributes
emit("noattr", call(find_resistance, object()), call(find_resistance, Rec("x", None)),
     call(find_resistance, Rec("x", [object()])), call(find_resistance, Rec("x", [Feature(None)])))

# real records: every plasmid of the embedded registries
REAL = {}
for cls in (YTKRegistry, PTKRegistry, CIDARRegistry):
    r = cls()
    for k, it in r.items():
        REAL[k] = it
        emit("real", k, call(find_resistance, it.entity.record))
        # rotated / reverse complemented / feature order reversed
        rec = it.entity.record
        emit("real>>", k, call(find_resistance, rec >> 17), call(find_resistance, rec.reverse_complement()))
        rev = CircularRecord(rec)
        rev.features.reverse()
        emit("real-rev", k, call(find_resistance, rev))


# --- 2. FilesystemRegistry ---------------------------------------------------

def genbank(rec):
    buf = io.StringIO()
    Bio.SeqIO.write([rec] if not isinstance(rec, list) else rec, buf, "genbank")
    return buf.getvalue()


def synthetic(i):
    n = rng.randint(30, 90)
    rec = SeqRecord(Seq("".join(rng.choice("ACGT") for _ in range(n))), id="syn%d" % i, name="syn%d" % i,
                    description=rng.choice(["", "synthetic %d" % i, "."]))
    rec.annotations["molecule_type"] = "DNA"
    rec.annotations["topology"] = "circular"
    for _ in range(rng.randint(0, 3)):
        a = rng.randint(0, n - 2)
        rec.features.append(SeqFeature(FeatureLocation(a, rng.randint(a + 1, n), 1), type="misc_feature",
                                       qualifiers=rand_qualifiers_plain()))
    return rec


def rand_qualifiers_plain():
    labs = rand_labels()
    return {"label": labs} if labs else {}


ytk_keys = sorted(k for k in REAL if k.startswith("pYTK"))
cidar_keys = sorted(k for k in REAL if not k.startswith("pYTK") and not k.startswith("pPTK"))

BASES = [ytk.YTKPart, ytk.YTKPart8, ytk.YTKPart1, ytk.YTKEntry, ytk.YTKCassetteVector, cidar.CIDARPart,
         cidar.CIDARPromoter, ecoflex.EcoFlexPart, AbstractPart, modules.Entry, vectors.EntryVector]
BAD_BASES = [None, 3, "YTKPart", object, int, ytk, ytk.YTKPart(REAL["pYTK002"].entity.record), (ytk.YTKPart,)]

for b in BAD_BASES:
    emit("badbase", call(lambda: type(FilesystemRegistry("mem://", b)).__name__))
for b in BASES + [AbstractModule, AbstractVector, modules.Product]:
    emit("goodbase", b.__name__, call(lambda: type(FilesystemRegistry("mem://", b)).__name__))
emit("badurl", call(lambda: FilesystemRegistry("nonexistent-protocol://x", ytk.YTKPart))[:2])

EXTS = [("gb", "gbk"), ("gbk", "gb"), ("gb",), ("genbank", "gb"), (), ["gbk"], ("GB",), (1, "gb"), ("gb", "gb"), "gb"]

for trial in range(40):
    mem = fs.open_fs("mem://")
    names = []
    chosen = rng.sample(ytk_keys, rng.randint(0, 6)) + rng.sample(cidar_keys, rng.randint(0, 3))
    for k in chosen:
        ext = rng.choice(["gb", "gbk", "gb", "genbank", "GB", "txt"])
        rec = REAL[k].entity.record
        if rng.random() < 0.3:
            rec = rec >> rng.randint(-5000, 5000)
        txt = genbank(rec)
        mem.writetext("%s.%s" % (k, ext), txt)
        names.append(k)
        if rng.random() < 0.2:  # same key under another extension, different content
            other = REAL[rng.choice(ytk_keys)].entity.record
            mem.writetext("%s.%s" % (k, "gbk" if ext != "gbk" else "gb"), genbank(other))
    for i in range(rng.randint(0, 4)):
        mem.writetext("syn%d.%s" % (i, rng.choice(["gb", "gbk"])), genbank(synthetic(i)))
        names.append("syn%d" % i)
    k = rng.random()
    if k < 0.5:
        mem.writetext("garbage.gb", "this is not a genbank file\n")
        mem.writetext("empty.gbk", "")
        mem.writetext("two.gb", genbank([synthetic(100), synthetic(101)]))
        names += ["garbage", "empty", "two"]
        lin = synthetic(102)
        lin.annotations["topology"] = "linear"
        mem.writetext("linear.gb", genbank(lin))
        names.append("linear")
    if rng.random() < 0.5:
        mem.makedir("dir.gb")
        mem.makedirs("sub/deeper")
        mem.writetext("sub/pYTK002.gb", genbank(REAL["pYTK002"].entity.record))
        mem.writetext("sub/deeper/x.gbk", genbank(synthetic(7)))
        mem.writetext("dir.gb/inner.gb", genbank(synthetic(8)))
        mem.writetext("a.b.gb", genbank(synthetic(9)))
        mem.writetext(".gb", genbank(synthetic(10)))
        names += ["dir", "sub/pYTK002", "sub", "inner", "a.b", "a", "", "dir.gb/inner"]
    names += ["nope", "pYTK999", None, 5, "pYTK002.gb", "/pYTK002", "../x"]
    emit("fs", trial, sorted(mem.walk.files()))
    for b in [ytk.YTKPart, cidar.CIDARPart] + rng.sample(BASES[1:], 2):
        for exts in [EXTS[0]] + rng.sample(EXTS[1:], 2):
            r = call(FilesystemRegistry, mem, b, exts)
            if r[0] != "ok":
                emit("ctor", trial, b.__name__, exts, r)
                continue
            reg = r[1]
            tag = ("reg", trial, b.__name__, repr(exts))
            emit(tag, "attrs", reg.base.__name__, reg._recurse, reg._extensions, call(lambda: reg._files),
                 type(reg.fs).__name__)
            emit(tag, "len", call(len, reg), "iter", call(lambda: sorted(reg)), call(lambda: list(reg)))
            it = call(iter, reg)
            emit(tag, "iter-type", type(it[1]).__name__ if it[0] == "ok" else it)
            for k in names:
                emit(tag, k, call(lambda: norm_item(reg[k])), call(lambda: k in reg))
            emit(tag, "mapping", call(lambda: sorted(reg.keys())), call(lambda: reg.get("nope", 7)),
                 call(lambda: len(list(reg.values()))) if trial % 5 == 0 else None)
            # read-only wrapper: the registry cannot write
            emit(tag, "ro", call(lambda: reg.fs.writetext("x.gb", "x"))[:2])
    # closed filesystem
    reg = FilesystemRegistry(mem, ytk.YTKPart)
    gen = iter(reg)
    mem.close()
    emit("closed", trial, call(len, reg)[:3], call(lambda: list(reg))[:3], call(reg.__getitem__, "pYTK002")[:3],
         call(next, gen)[:3])

if os.environ.get("EQUIV_DUMP"):
    open(os.environ["EQUIV_DUMP"], "w").write("\n".join(OUT))
print(hashlib.sha256("\n".join(OUT).encode("utf-8")).hexdigest(), len(OUT))
