# coding: utf-8
"""Differential test for the code property C04 depends on.

Run as ``cd /tmp/agents9/C04 && /venv/bin/python pairs_out/C04_tN/equiv.py``.
Prints a digest of every observable result (return values, exception types,
messages and ``.args``, warnings, state of the inputs afterwards) obtained by
driving the structured record classes of the core and of the five kits, the
DNA regex, the assembly and the registries through the public API on a few
hundred generated inputs. An optional argument names a file the individual
result lines are dumped to (for debugging a digest difference).
"""
import sys

sys.path.insert(0, "/tmp/agents9/C04")
import tests  # noqa: E402,F401

import copy  # noqa: E402
import hashlib  # noqa: E402
import importlib  # noqa: E402
import inspect  # noqa: E402
import random  # noqa: E402
import re  # noqa: E402
import warnings  # noqa: E402

warnings.simplefilter("ignore")

from Bio import Restriction  # noqa: E402
from Bio.Seq import Seq  # noqa: E402
from Bio.SeqFeature import SeqFeature, FeatureLocation  # noqa: E402
from Bio.SeqRecord import SeqRecord  # noqa: E402

from moclo import errors  # noqa: E402
from moclo.record import CircularRecord  # noqa: E402
from moclo.regex import DNARegex, SeqMatch  # noqa: E402
from moclo.core import (  # noqa: E402
    AbstractModule,
    AbstractVector,
    AbstractPart,
    Product,
    Entry,
    Cassette,
    Device,
    EntryVector,
    CassetteVector,
    DeviceVector,
)
from moclo.core import modules as core_modules  # noqa: E402
from moclo.core import vectors as core_vectors  # noqa: E402
from moclo.core import parts as core_parts  # noqa: E402
from moclo.core import _utils as core_utils  # noqa: E402
from moclo.core._structured import StructuredRecord  # noqa: E402

KITS = ["ytk", "cidar", "ecoflex", "moclo", "plant"]
IUPAC = {
    "A": "A", "C": "C", "G": "G", "T": "T",
    "B": "CGT", "D": "AGT", "H": "ACT", "K": "GT", "M": "AC", "N": "ACGT",
    "R": "AG", "S": "CG", "V": "ACG", "W": "AT", "Y": "CT",
}
SITES = ["GGTCTC", "GAGACC", "CGTCTC", "GAGACG", "GAAGAC", "GTCTTC"]

LINES = []


_ADDRESS = re.compile(r" at 0x[0-9a-fA-F]+")


def out(*fields):
    LINES.append(_ADDRESS.sub(" at 0x?", " | ".join(str(f) for f in fields)))


# --- canonical descriptions -------------------------------------------------


def d_feature(f):
    quals = sorted((k, repr(v)) for k, v in f.qualifiers.items())
    return "F({},{},{})".format(f.type, f.location, quals)


def d(obj):
    if isinstance(obj, SeqRecord):
        ann = sorted((k, repr(v)) for k, v in obj.annotations.items())
        return "{}<{}|{}|{}|{}|{}|{}|{}>".format(
            type(obj).__name__,
            obj.id,
            obj.name,
            obj.description,
            str(obj.seq),
            [d_feature(f) for f in obj.features],
            ann,
            sorted(obj.letter_annotations.items()),
        )
    if isinstance(obj, Seq):
        return "Seq<{}>".format(str(obj))
    if isinstance(obj, StructuredRecord):
        return "{}[{}]".format(type(obj).__name__, obj.record.id)
    if isinstance(obj, SeqMatch):
        return "SeqMatch<{}>".format([tuple(obj.span(i)) for i in range(obj.match.re.groups + 1)])
    if isinstance(obj, BaseException):
        extra = []
        for attr in ("sequence", "exc", "details", "duplicates", "start_overhang", "remaining"):
            if hasattr(obj, attr):
                extra.append((attr, d(getattr(obj, attr))))
        return "{}<{}|args={}|{}|cause={}|ctx={}|suppress={}>".format(
            type(obj).__name__,
            str(obj),
            d(obj.args),
            extra,
            type(obj.__cause__).__name__,
            type(obj.__context__).__name__,
            obj.__suppress_context__,
        )
    if isinstance(obj, tuple):
        return "(" + ",".join(d(x) for x in obj) + ")"
    if isinstance(obj, list):
        return "[" + ",".join(d(x) for x in obj) + "]"
    if isinstance(obj, dict):
        return "{" + ",".join("{}:{}".format(d(k), d(v)) for k, v in sorted(obj.items(), key=repr)) + "}"
    if inspect.isclass(obj):
        return "class:" + obj.__name__
    return repr(obj)


def attempt(func, *args, **kwargs):
    """Call and describe the result, the exception, and the warnings."""
    with warnings.catch_warnings(record=True) as caught:
        warnings.simplefilter("always")
        try:
            res = "ok:" + d(func(*args, **kwargs))
        except Exception as exc:  # noqa
            res = "exc:" + d(exc)
    warns = [
        "{}:{}".format(w.category.__name__, d(w.message) if isinstance(w.message, errors.MocloError) else str(w.message))
        for w in caught
        if not issubclass(w.category, (DeprecationWarning, PendingDeprecationWarning))
        and "pkg_resources" not in str(w.message)
    ]
    return res + ("" if not warns else " warns=" + repr(warns))


# --- sequence generation ----------------------------------------------------


def clean_filler(rng, length):
    while True:
        s = "".join(rng.choice("ACGT") for _ in range(length))
        if not any(site in s + s for site in SITES):
            return s


def generate(rng, pattern, groups=None, filler=None, insert=None):
    """Spell out a sequence matching the given DNA pattern.

    groups: overrides for numbered capture groups; filler: length of the
    ``N*`` stretch; insert: a string placed in the middle of the filler.
    """
    groups = groups or {}
    res = []
    i = 0
    gi = 0
    while i < len(pattern):
        c = pattern[i]
        if c == "(":
            gi += 1
            if gi in groups:
                res.append(groups[gi])
                i = pattern.index(")", i) + 1
                continue
            i += 1
        elif c == ")":
            i += 1
        elif pattern.startswith("N*?", i) or pattern.startswith("N*", i):
            n = rng.randint(3, 24) if filler is None else filler
            f = clean_filler(rng, n)
            if insert:
                f = f[: n // 2] + insert + f[n // 2 :]
            res.append(f)
            i += 3 if pattern.startswith("N*?", i) else 2
        elif c in IUPAC:
            res.append(rng.choice(IUPAC[c]))
            i += 1
        else:
            raise ValueError("cannot spell {!r} in {!r}".format(c, pattern))
    return "".join(res)


def mixed_case(rng, s):
    return "".join(c.lower() if rng.random() < 0.4 else c for c in s)


def decorate(rng, rec, citations=False):
    """Add a few features (and references) to a record."""
    n = len(rec)
    for k in range(3):
        a = rng.randrange(0, n - 1)
        b = rng.randrange(a + 1, n + 1)
        quals = {"label": ["f{}".format(k)]}
        rec.features.append(SeqFeature(FeatureLocation(a, b, strand=rng.choice([1, -1])), type="misc_feature", qualifiers=quals))
    if citations:
        rec.annotations["references"] = ["ref-{}-a".format(rec.id), "ref-{}-b".format(rec.id)]
        rec.features[0].qualifiers["citation"] = ["[2]"]
        rec.features[1].qualifiers["citation"] = ["[1]", "[2]"]
    return rec


def make_record(rng, seq, rid, kind="circular", citations=False):
    if kind == "circular":
        rec = CircularRecord(Seq(seq), id=rid, name=rid)
    elif kind == "plain":
        rec = SeqRecord(Seq(seq), id=rid, name=rid)
    elif kind == "plain-circular":
        rec = SeqRecord(Seq(seq), id=rid, name=rid, annotations={"topology": "circular"})
    elif kind == "plain-linear":
        rec = SeqRecord(Seq(seq), id=rid, name=rid, annotations={"topology": "linear"})
    else:
        raise ValueError(kind)
    return decorate(rng, rec, citations=citations)


# --- the classes ------------------------------------------------------------


def kit_classes():
    found = []
    for kit in KITS:
        mod = importlib.import_module("moclo.kits." + kit)
        for name, obj in sorted(vars(mod).items()):
            if inspect.isclass(obj) and issubclass(obj, StructuredRecord) and obj.__module__ == mod.__name__:
                found.append((kit, obj))
    return found


def usable(cls):
    if cls.cutter is NotImplemented:
        return False
    if issubclass(cls, AbstractPart) and cls.signature is NotImplemented:
        return False
    return True


def probe(entity, label):
    """Observe everything an entity reports."""
    before = d(entity.record)
    out(label, "is_valid", attempt(entity.is_valid))
    out(label, "match", attempt(lambda: entity._match))
    out(label, "overhang_start", attempt(entity.overhang_start))
    out(label, "overhang_end", attempt(entity.overhang_end))
    out(label, "target", attempt(entity.target_sequence))
    if isinstance(entity, AbstractVector):
        out(label, "placeholder", attempt(entity.placeholder_sequence))
    out(label, "is_valid-again", attempt(entity.is_valid))
    out(label, "record-unchanged", before == d(entity.record))


def section_kit_classes(rng):
    classes = kit_classes()
    out("kit classes", len(classes), [c.__name__ for _, c in classes])
    for kit, cls in classes:
        label = "{}.{}".format(kit, cls.__name__)
        out(label, "mro", [c.__name__ for c in cls.__mro__ if c is not object])
        out(label, "structure", attempt(cls.structure))
        out(label, "instantiate-empty", attempt(lambda: type(cls(CircularRecord(Seq("ATGC"), id="x"))).__name__))
        if not usable(cls):
            continue
        pattern = cls.structure()
        backbone = clean_filler(rng, rng.randint(12, 40))
        core = generate(rng, pattern)
        seq = core + backbone
        n = len(seq)
        # as generated, rotated so that the match wraps at several places, and
        # so that each captured group starts exactly at the origin
        rec = make_record(rng, seq, "base")
        probe(cls(rec), label + "@0")
        ent = cls(rec)
        offsets = {1, 5, n // 2, len(core) // 2 + len(backbone), n - 1, len(backbone) + 3}
        try:
            for k in (1, 2, 3):
                offsets.add((n - ent._match.span(k)[0]) % n)
                offsets.add((n - ent._match.span(k)[1]) % n)
                offsets.add((n - ent._match.span(k)[0] - 2) % n)
        except Exception:  # noqa
            pass
        for off in sorted(offsets):
            probe(cls(rec >> off), label + "@{}".format(off))
        # other containers for the same sequence
        for kind in ("plain", "plain-circular", "plain-linear"):
            probe(cls(make_record(rng, seq, kind, kind=kind)), label + "/" + kind)
            probe(cls(make_record(rng, seq[7:] + seq[:7], kind, kind=kind)), label + "/" + kind + "@-7")
        # mixed letter case
        low = mixed_case(rng, seq)
        probe(cls(make_record(rng, low, "mixed")), label + "/mixed")
        probe(cls(make_record(rng, low, "mixed") >> (len(backbone) + 5)), label + "/mixed@wrap")
        # an extra site of the class enzyme within the body / in the backbone
        site = cls.cutter.site
        for ins_name, ins in (("site", site), ("rcsite", str(Seq(site).reverse_complement()))):
            bad = generate(rng, pattern, insert="A" + ins + "T") + backbone
            probe(cls(make_record(rng, bad, "extra-" + ins_name)), label + "/extra-" + ins_name)
            probe(cls(make_record(rng, bad, "extra-" + ins_name) >> (len(backbone) + 9)), label + "/extra-" + ins_name + "@wrap")
            bad2 = core + backbone[:6] + ins + backbone[6:]
            probe(cls(make_record(rng, bad2, "bb-" + ins_name)), label + "/bb-" + ins_name)
        # a site of a neighbouring enzyme in the body
        for other in ("GGTCTC", "CGTCTC", "GAAGAC"):
            if other != site:
                seq2 = generate(rng, pattern, insert="C" + other + "A") + backbone
                probe(cls(make_record(rng, seq2, "other")), label + "/other-" + other)
                break
        # point mutations in the first site / first overhang
        for pos in (0, 3, 8):
            mut = list(seq)
            mut[pos] = {"A": "C", "C": "G", "G": "T", "T": "A"}[mut[pos].upper()]
            probe(cls(make_record(rng, "".join(mut), "mut")), label + "/mut{}".format(pos))
        # two structures in the same plasmid
        twice = core + backbone + generate(rng, pattern) + clean_filler(rng, 9)
        probe(cls(make_record(rng, twice, "twice")), label + "/twice")
        probe(cls(make_record(rng, twice, "twice") >> (len(core) + 3)), label + "/twice@")
        # too short / empty
        probe(cls(make_record(rng, "ATGCATGC", "short")), label + "/short")


def section_cross_kit(rng):
    """Records built for one class, read through the classes of the others."""
    classes = [c for _, c in kit_classes() if usable(c)]
    picks = rng.sample(classes, 14)
    for src in picks:
        seq = generate(rng, src.structure()) + clean_filler(rng, 21)
        rec = make_record(rng, seq, "x-" + src.__name__) >> 11
        for cls in classes:
            ent = cls(rec)
            out("cross", src.__name__, cls.__name__, attempt(ent.is_valid), attempt(ent.overhang_start), attempt(ent.overhang_end), attempt(lambda: str(ent.target_sequence().seq)))


ENZYMES = [
    "BsaI", "BsmBI", "BbsI", "BpiI", "Esp3I", "SapI", "BspQI", "BtgZI", "BsmFI", "FokI", "BfuAI", "BsmAI", "Eco31I",
    "AarI", "BseRI", "BsgI", "BpmI", "EciI", "AcuI", "BtsI", "BsrDI", "MmeI", "BsmI", "BtsIMutI", "BciVI",
    "MlyI", "EcoRV", "EcoRI", "PstI", "HgaI", "BbvI", "EarI", "SfaNI", "BcoDI",
]


def section_generic(rng):
    bases = [Product, Entry, Cassette, Device, AbstractModule, EntryVector, CassetteVector, DeviceVector, AbstractVector]
    for name in ENZYMES:
        enz = getattr(Restriction, name, None)
        if enz is None:
            continue
        out("enzyme", name, enz.elucidate(), enz.is_3overhang(), enz.is_5overhang(), enz.is_blunt())
        for base in bases:
            cls = type(str("G" + base.__name__ + name), (base,), {"cutter": enz})
            label = "generic.{}".format(cls.__name__)
            out(label, "structure", attempt(cls.structure))
            out(label, "new", attempt(lambda: type(cls(CircularRecord(Seq("ATGC"), id="x"))).__name__))
            try:
                pattern = cls.structure()
                seq = generate(rng, pattern) + clean_filler(rng, 17)
            except Exception:  # noqa
                continue
            if base in (Entry, Device, EntryVector, AbstractVector):
                for off in (0, 4, len(seq) - 6, 20):
                    try:
                        ent = cls(make_record(rng, seq, "g") >> off)
                    except Exception as exc:  # noqa
                        out(label, off, "exc:" + d(exc))
                        break
                    probe(ent, label + "@{}".format(off))
        ovl = abs(enz.ovhg) if enz.ovhg else 0
        for role in (Entry, CassetteVector):
            for sig in (("ACGT"[:ovl] or "A", "TTGA"[:ovl] or "T"), ("N" * ovl, "GGGA"[:ovl]), NotImplemented, ("AAAA",), ("AA", "CC", "GG"), 5):
                cls = type(str("P" + role.__name__ + name), (AbstractPart, role), {"cutter": enz, "signature": sig})
                label = "part.{}.{}".format(cls.__name__, sig)
                out(label, "structure", attempt(cls.structure))
                try:
                    seq = generate(rng, cls.structure()) + clean_filler(rng, 15)
                except Exception:  # noqa
                    continue
                for off in (0, 6, len(seq) - 3):
                    try:
                        ent = cls(make_record(rng, seq, "p") >> off)
                    except Exception as exc:  # noqa
                        out(label, off, "exc:" + d(exc))
                        break
                    probe(ent, label + "@{}".format(off))
    # classes without cutter / bare parts
    for base in (AbstractModule, AbstractVector, Product, EntryVector):
        out("nocutter", base.__name__, attempt(base.structure), attempt(lambda: base(CircularRecord(Seq("ATGC"), id="x"))))

    class Bare(AbstractPart):
        cutter = Restriction.BsaI
        signature = ("ATGC", "GGCA")

    out("bare part", attempt(Bare.structure), attempt(lambda: Bare(CircularRecord(Seq("ATGC"), id="x")).is_valid()))
    out("abstract part", attempt(AbstractPart.structure))
    out("structured", attempt(lambda: StructuredRecord(CircularRecord(Seq("A"), id="x"))))


def section_regex(rng):
    for pattern in ("AA(NN)", "GGTCTCN(NNNN)(NN*N)(NNNN)NGAGACC", "(AACG)(NGAGACCN*?GGTCTCN)(GCTG)", "(R)(Y)(S)W", "TT"):
        rx = DNARegex(pattern)
        out("regex", pattern, rx.pattern, rx.regex.pattern)
        for trial in range(6):
            try:
                seq = generate(rng, pattern) + clean_filler(rng, 10)
            except ValueError:
                seq = clean_filler(rng, 30)
            if trial % 2:
                seq = mixed_case(rng, seq)
            n = len(seq)
            for off in (0, 3, n - 2, n - 5, n // 2):
                s = seq[-off:] + seq[:-off] if off else seq
                for kind, target in (
                    ("Seq", Seq(s)),
                    ("SeqRecord", SeqRecord(Seq(s), id="r")),
                    ("CircularRecord", CircularRecord(Seq(s), id="c")),
                ):
                    for kwargs in ({}, {"linear": False}, {"linear": True}, {"pos": 2}, {"pos": 1, "endpos": 6, "linear": False}):
                        def run():
                            m = rx.search(target, **kwargs)
                            if m is None:
                                return None
                            k = m.match.re.groups
                            return (m.start(), m.end(), tuple(m.span()), [tuple(m.span(i)) for i in range(k + 1)], [m.group(i) for i in range(k + 1)], m.group(), m.shift, m.rec is target)
                        out("search", pattern, kind, off, sorted(kwargs.items()), attempt(run))
    rx = DNARegex("NN")
    for bad in ("ATGC", None, 5, b"ATGC", ["A"]):
        out("regex-type", repr(bad), attempt(rx.search, bad))


def section_utils(rng):
    for name in ("BsaI", "BseRI", "EcoRV", "MlyI"):
        enz = getattr(Restriction, name)
        out("cutter_check", name, attempt(core_utils.cutter_check, enz, "X"), attempt(core_utils.cutter_check, cutter=enz, name="Y"), attempt(core_utils.cutter_check, enz, name="Z"))
    out("cutter_check NI", attempt(core_utils.cutter_check, NotImplemented, "Thing"), attempt(core_utils.cutter_check, NotImplemented, name="Thing"))
    out("cutter_check bad", attempt(core_utils.cutter_check, None, "Thing"), attempt(core_utils.cutter_check, NotImplemented))
    src = make_record(rng, clean_filler(rng, 30), "src")
    for form in range(5):
        dst = make_record(rng, clean_filler(rng, 12), "dst", kind="plain")
        loc = FeatureLocation(2, 7, strand=1)
        if form == 0:
            res = attempt(core_utils.add_as_source, src, dst)
        elif form == 1:
            res = attempt(core_utils.add_as_source, src, dst, loc)
        elif form == 2:
            res = attempt(core_utils.add_as_source, src_record=src, dst_record=dst, location=loc)
        elif form == 3:
            res = attempt(core_utils.add_as_source, src, dst_record=dst)
        else:
            res = attempt(core_utils.add_as_source, src)
        out("add_as_source", form, res, d(dst), d(src))
    # names that have to stay importable
    for mod, names in (
        (core_modules, ["AbstractModule", "Product", "Entry", "Cassette", "Device", "StructuredRecord", "cutter_check", "add_as_source", "cached_property", "errors", "Seq"]),
        (core_vectors, ["AbstractVector", "EntryVector", "CassetteVector", "DeviceVector", "AssemblyManager", "StructuredRecord", "cutter_check", "add_as_source", "cached_property", "errors", "Seq"]),
        (core_parts, ["AbstractPart", "AbstractModule", "AbstractVector", "StructuredRecord", "cutter_check", "isabstract", "Seq", "__all__"]),
        (core_utils, ["cutter_check", "add_as_source", "SeqFeature", "FeatureLocation"]),
        (errors, ["MocloError", "InvalidSequence", "IllegalSite", "AssemblyError", "DuplicateModules", "MissingModule", "AssemblyWarning", "UnusedModules"]),
    ):
        out("names", mod.__name__, [(n, hasattr(mod, n)) for n in names])
    out("all", core_parts.__all__, sorted(importlib.import_module("moclo.core").__all__))
    for cls in (AbstractModule, AbstractVector, AbstractPart):
        out("subclass", cls.__name__, issubclass(cls, StructuredRecord), [b.__name__ for b in cls.__bases__], cls.cutter is NotImplemented, getattr(cls, "_level", "-"))
    for cls in (Product, Entry, Cassette, Device, EntryVector, CassetteVector, DeviceVector):
        out("level", cls.__name__, cls._level, [b.__name__ for b in cls.__bases__])
    out("signatures", [(c.__name__, attempt(lambda: tuple(c.signature)), type(c.signature).__name__ == "tuple" or c.signature is NotImplemented) for _, c in kit_classes() if issubclass(c, AbstractPart)])
    # errors
    rec = make_record(rng, "ATGCATGC", "err")
    for exc in (
        errors.InvalidSequence(rec),
        errors.InvalidSequence(rec, details="some details"),
        errors.InvalidSequence(rec, ValueError("x"), "d"),
        errors.InvalidSequence(sequence=rec.seq, exc=None, details=None),
        errors.IllegalSite(rec.seq),
        errors.IllegalSite(rec.seq, details="why"),
        errors.MissingModule(Seq("ATGC")),
        errors.MissingModule("ATGC", details="x"),
    ):
        out("error", d(exc), isinstance(exc, ValueError), isinstance(exc, errors.MocloError))


def chain_modules(rng, module_cls, start, end, count, prefix, citations=False, kind="circular"):
    """Modules whose overhangs lead from ``start`` to ``end``."""
    ovl = len(start)
    pool = ["ACTA", "GTCA", "TGAC", "CAGT", "AGGC", "TCCG"]
    pool = [p[:ovl] for p in pool if p[:ovl] not in (start, end)]
    hops = [start] + pool[: count - 1] + [end]
    mods = []
    for k in range(count):
        seq = generate(rng, module_cls.structure(), groups={1: hops[k], 3: hops[k + 1]}) + clean_filler(rng, 14)
        rec = make_record(rng, seq, "{}{}".format(prefix, k), kind=kind, citations=citations)
        if kind == "circular":
            rec = rec >> rng.randrange(0, len(seq))
        mods.append(module_cls(rec))
    return mods


def run_assembly(label, vector, mods, **kwargs):
    inputs = [vector] + list(mods)
    before = [d(x.record) for x in inputs]
    out(label, attempt(vector.assemble, *mods, **kwargs))
    out(label, "inputs-unchanged", [b == d(x.record) for b, x in zip(before, inputs)])


def section_assembly(rng):
    vectors = [c for _, c in kit_classes() if usable(c) and issubclass(c, AbstractVector)]
    for vcls in vectors:
        label = "assembly." + vcls.__name__
        pattern = vcls.structure()
        groups = {}
        if not issubclass(vcls, AbstractPart):
            groups = {1: "GCAA", 3: "TTCG"}
        vseq = generate(rng, pattern, groups=groups) + clean_filler(rng, 33)
        vrec = make_record(rng, vseq, "vec", citations=True)
        vector = vcls(vrec >> rng.randrange(0, len(vseq)))
        try:
            start, end = str(vector.overhang_end()), str(vector.overhang_start())
        except Exception as exc:  # noqa
            out(label, "vector", "exc:" + d(exc))
            continue
        mcls = type(str("M" + vcls.__name__), (AbstractModule,), {"cutter": vcls.cutter})
        for count in (1, 2, 3):
            mods = chain_modules(rng, mcls, start, end, count, "m", citations=(count == 2))
            rng.shuffle(mods)
            run_assembly(label + ".ok{}".format(count), vcls(vector.record), mods, id="asm{}".format(count), name="n{}".format(count))
        seed = rng.randrange(10 ** 6)

        def fresh(citations=True):
            return chain_modules(random.Random(seed), mcls, start, end, 3, "m", citations=citations)

        mods = fresh()
        run_assembly(label + ".missing", vcls(vector.record), [mods[0], mods[2]])
        mods = fresh()
        run_assembly(label + ".dup", vcls(vector.record), mods + [mods[1]])
        mods = fresh()
        clone = mcls(CircularRecord(mods[1].record, id="clone"))
        run_assembly(label + ".dup2", vcls(vector.record), mods + [clone])
        mods = fresh()
        extra = chain_modules(rng, mcls, "AAAT"[: len(start)], "CCCA"[: len(start)], 1, "extra")
        run_assembly(label + ".unused", vcls(vector.record), mods + extra)
        mods = fresh(citations=False)
        rc = generate(rng, mcls.structure(), groups={1: str(Seq(mods[1].overhang_start()).reverse_complement()), 3: "CATC"[: len(start)]}) + clean_filler(rng, 10)
        run_assembly(label + ".revcomp", vcls(vector.record), mods + [mcls(make_record(rng, rc, "rc"))])
        mods = fresh()
        lowered = [mcls(CircularRecord(Seq(str(m.record.seq).lower()), id=m.record.id)) for m in mods]
        run_assembly(label + ".lower", vcls(vector.record), lowered)
        plain = chain_modules(rng, mcls, start, end, 2, "pl", kind="plain")
        run_assembly(label + ".plain-modules", vcls(vector.record), plain)
        run_assembly(label + ".plain-vector", vcls(SeqRecord(vector.record.seq, id="pv")), chain_modules(rng, mcls, start, end, 1, "m"))
        bad = mcls(make_record(rng, clean_filler(rng, 40), "notamodule"))
        run_assembly(label + ".invalid-module", vcls(vector.record), [bad])
        illegal = generate(rng, mcls.structure(), groups={1: start, 3: end}, insert="A" + vcls.cutter.site + "T") + clean_filler(rng, 10)
        run_assembly(label + ".illegal-module", vcls(vector.record), [mcls(make_record(rng, illegal, "illegal"))])
        same = generate(rng, pattern, groups={1: "GCAA", 3: "GCAA"}) + clean_filler(rng, 20)
        if not issubclass(vcls, AbstractPart):
            run_assembly(label + ".same-overhangs", vcls(make_record(rng, same, "same")), chain_modules(rng, mcls, "GCAA", "GCAA", 1, "m"))
    # kit modules into kit vectors (YTK cassette from typed parts)
    ytk = importlib.import_module("moclo.kits.ytk")
    order = [ytk.YTKPart1, ytk.YTKPart2, ytk.YTKPart3, ytk.YTKPart4, ytk.YTKPart5, ytk.YTKPart6, ytk.YTKPart7]
    for trial in range(3):
        vseq = generate(rng, ytk.YTKPart8.structure()) + clean_filler(rng, 40)
        vector = ytk.YTKPart8(make_record(rng, vseq, "p8", citations=True) >> rng.randrange(len(vseq)))
        mods = []
        for cls in order:
            s = generate(rng, cls.structure()) + clean_filler(rng, 25)
            mods.append(cls(make_record(rng, s, cls.__name__, citations=bool(trial)) >> rng.randrange(len(s))))
        rng.shuffle(mods)
        run_assembly("assembly.ytk.full{}".format(trial), vector, mods)
        run_assembly("assembly.ytk.partial{}".format(trial), ytk.YTKPart8(vector.record), mods[:-1])


def section_characterize(rng):
    for kit, base in (("ytk", "YTKPart"), ("cidar", "CIDARPart"), ("ecoflex", "EcoFlexPart"), ("moclo", "MoCloPart")):
        mod = importlib.import_module("moclo.kits." + kit)
        base = getattr(mod, base)
        subs = [c for c in base.__subclasses__() if usable(c)]
        for cls in rng.sample(subs, min(4, len(subs))):
            seq = generate(rng, cls.structure()) + clean_filler(rng, 18)
            rec = make_record(rng, seq, "chr") >> 5
            out("characterize", kit, cls.__name__, attempt(lambda: type(base.characterize(rec)).__name__))
        out("characterize-none", kit, attempt(base.characterize, make_record(rng, clean_filler(rng, 50), "nothing")))


def section_registries(rng):
    regs = [
        ("ytk", "YTKRegistry"), ("ytk", "PTKRegistry"), ("cidar", "CIDARRegistry"),
        ("ecoflex", "EcoFlexRegistry"), ("plant", "PlantRegistry"),
    ]
    for modname, clsname in regs:
        try:
            mod = importlib.import_module("moclo.registry." + modname)
            registry = getattr(mod, clsname)()
            items = sorted(registry.values(), key=lambda it: it.id)
        except Exception as exc:  # noqa
            out("registry", clsname, "exc:" + type(exc).__name__)
            continue
        out("registry", clsname, len(items))
        for item in items:
            ent = item.entity
            def summary(e):
                t = e.target_sequence()
                res = [str(e.overhang_start()), str(e.overhang_end()), len(t), hashlib.md5(str(t.seq).encode()).hexdigest(), len(t.features), [tuple(e._match.span(i)) for i in range(4)]]
                if isinstance(e, AbstractVector):
                    p = e.placeholder_sequence()
                    res += [len(p), hashlib.md5(str(p.seq).encode()).hexdigest(), len(p.features)]
                return res
            out("item", clsname, item.id, type(ent).__name__, attempt(ent.is_valid), attempt(summary, ent))
            n = len(ent.record)
            try:
                a = ent._match.span(1)[0]
            except Exception:  # noqa
                a = 0
            for off in ((n - a - 2) % n, rng.randrange(n)):
                rot = type(ent)(ent.record >> off)
                out("item-rot", clsname, item.id, off, attempt(rot.is_valid), attempt(summary, rot))


def main():
    rng = random.Random(20240404)
    for section in (
        section_kit_classes,
        section_cross_kit,
        section_generic,
        section_regex,
        section_utils,
        section_assembly,
        section_characterize,
        section_registries,
    ):
        start = len(LINES)
        section(rng)
        sub = hashlib.sha256("\n".join(LINES[start:]).encode("utf-8")).hexdigest()
        print("{:<24} {:>6} results  {}".format(section.__name__, len(LINES) - start, sub[:16]))
    digest = hashlib.sha256("\n".join(LINES).encode("utf-8")).hexdigest()
    if len(sys.argv) > 1:
        with open(sys.argv[1], "w") as fh:
            fh.write("\n".join(LINES) + "\n")
    print("DIGEST {} ({} results)".format(digest, len(LINES)))


if __name__ == "__main__":
    main()
