# coding: utf-8
"""Differential test for the code C05 depends on.

Exercises part / module / vector structures, structured-record matching,
overhang and target extraction, characterisation, assembly, the DNA regex
and ``isabstract`` on a few hundred generated inputs, and prints a digest of
every result, exception (type and message), warning, and of the state of the
inputs (and of the per-class pattern caches) afterwards.

Run as:  cd /tmp/agents5/C05 && /venv/bin/python pairs_out/C05_p2/equiv.py
The output must be identical on the pristine tree and with clean.diff applied.
"""
import sys

sys.path.insert(0, "/tmp/agents5/C05")
import tests  # noqa: F401,E402

import collections.abc  # noqa: E402
import hashlib  # noqa: E402
import random  # noqa: E402
import warnings  # noqa: E402

from Bio import Restriction  # noqa: E402
from Bio.Seq import Seq  # noqa: E402
from Bio.SeqFeature import FeatureLocation, SeqFeature  # noqa: E402
from Bio.SeqRecord import SeqRecord  # noqa: E402

from moclo import errors  # noqa: F401,E402
from moclo._utils import isabstract  # noqa: E402
from moclo.core import (  # noqa: E402
    AbstractModule,
    AbstractPart,
    AbstractVector,
    Cassette,
    CassetteVector,
    Device,
    DeviceVector,
    Entry,
    EntryVector,
    Product,
)
from moclo.core._structured import StructuredRecord  # noqa: E402
from moclo.kits import cidar, ecoflex, plant, ytk  # noqa: F401,E402
from moclo.kits import moclo as moclo_kit  # noqa: F401,E402
from moclo.record import CircularRecord  # noqa: E402
from moclo.regex import DNARegex  # noqa: E402

RNG = random.Random(50505)
LINES = []
KEEP = []  # strong references to generated classes


def describe(value):
    if isinstance(value, SeqRecord):
        feats = [
            (f.type, str(f.location), sorted((k, str(v)) for k, v in f.qualifiers.items()))
            for f in value.features
        ]
        return "{}({!r}, id={!r}, name={!r}, annotations={!r}, features={!r})".format(
            type(value).__name__,
            str(value.seq),
            value.id,
            value.name,
            sorted((k, repr(v)) for k, v in value.annotations.items()),
            feats,
        )
    if isinstance(value, Seq):
        return "Seq({!r})".format(str(value))
    if isinstance(value, StructuredRecord):
        return "<{} of {}>".format(type(value).__name__, value.record.id)
    if isinstance(value, type):
        return "<class {}>".format(value.__name__)
    if isinstance(value, DNARegex):
        return "<DNARegex {} {}>".format(value.pattern, value.regex.pattern)
    if isinstance(value, (tuple, list)):
        return "[" + ", ".join(describe(v) for v in value) + "]"
    return repr(value)


def attempt(label, func, *args, **kwargs):
    with warnings.catch_warnings(record=True) as caught:
        warnings.simplefilter("always")
        try:
            result = func(*args, **kwargs)
            outcome = "-> " + describe(result)
        except Exception as err:  # noqa
            result = None
            outcome = "!! {}: {}".format(type(err).__name__, err)
    for w in caught:
        if "pkg_resources" in str(w.message):
            continue
        outcome += " ## {}: {}".format(w.category.__name__, w.message)
    LINES.append("{} {}".format(label, outcome))
    return result


def dna(n):
    return "".join(RNG.choice("ACGT") for _ in range(n))


def instantiate(code):
    table = {"N": "ACGT", "R": "AG", "Y": "CT", "W": "AT", "S": "CG", "K": "GT",
             "M": "AC", "B": "CGT", "D": "AGT", "H": "ACT", "V": "ACG"}
    return "".join(RNG.choice(table.get(c, c)) for c in code)


def fill(pattern, overhang):
    pattern = pattern.replace("^", "|").replace("_", "|")
    head, _, tail = pattern.split("|")
    return instantiate(head) + overhang + instantiate(tail)


def layout(cutter, vector, upo, downo, inner=None, outer=None):
    up = cutter.elucidate()
    down = str(Seq(up).reverse_complement())
    inner = dna(RNG.randint(0, 25)) if inner is None else inner
    outer = dna(RNG.randint(10, 40)) if outer is None else outer
    if vector:
        return fill(down, downo) + inner + fill(up, upo) + outer
    return fill(up, upo) + inner + fill(down, downo) + outer


def annotated(seq, rid, circular=True, topology=None):
    feats = [
        SeqFeature(FeatureLocation(2, min(12, len(seq))), type="misc_feature",
                   qualifiers={"label": ["f1"]}),
        SeqFeature(FeatureLocation(max(0, len(seq) - 9), len(seq)), type="CDS",
                   qualifiers={"label": ["f2"], "note": ["color: #ff0000"]}),
    ]
    annotations = {"molecule_type": "DNA"}
    if topology is not None:
        annotations["topology"] = topology
    cls = CircularRecord if circular else SeqRecord
    return cls(Seq(seq), id=rid, name=rid, description="d:" + rid,
               features=feats, annotations=annotations)


def snapshot(record):
    return describe(record)


# === 1. structures over every enzyme and configuration =====================

ENZYMES = sorted(Restriction.AllEnzymes, key=str)
LINES.append("enzymes {}".format(len(ENZYMES)))
for enzyme in ENZYMES:
    mod = type(str("M" + str(enzyme)), (Entry,), {"cutter": enzyme})
    vec = type(str("V" + str(enzyme)), (EntryVector,), {"cutter": enzyme})
    n = abs(enzyme.ovhg) if isinstance(enzyme.ovhg, int) else 4
    sig = (instantiate("N" * n) or "AC", ("N" * n) or "GT")
    pmod = type(str("PM" + str(enzyme)), (AbstractPart, mod), {"signature": sig})
    pvec = type(str("PV" + str(enzyme)), (AbstractPart, vec), {"signature": sig})
    KEEP.extend([mod, vec, pmod, pvec])
    for cls in (mod, vec, pmod, pvec):
        attempt("structure {}".format(cls.__name__), cls.structure)
    attempt("new {}".format(pmod.__name__), pmod, annotated("ACGT" * 5, "r"))
    attempt("isabstract {}".format(pmod.__name__), isabstract, pmod)


class NoRole(AbstractPart):
    cutter = Restriction.BsaI
    signature = ("ATGC", "ATTC")


class NoRoleNoCutter(AbstractPart):
    signature = ("ATGC", "ATTC")


class NoCutter(AbstractPart, Entry):
    signature = ("ATGC", "ATTC")


class NoSignature(AbstractPart, Entry):
    cutter = Restriction.BsaI


class NoSignatureNoCutter(AbstractPart, Entry):
    pass


class LongSignature(AbstractPart, Entry):
    cutter = Restriction.BsaI
    signature = ("ATGC", "ATTC", "GGGG")


class ShortSignature(AbstractPart, EntryVector):
    cutter = Restriction.BsaI
    signature = ("ATGC",)


class StringSignature(AbstractPart, Entry):
    cutter = Restriction.BsaI
    signature = "AT"


class NoneSignature(AbstractPart, Entry):
    cutter = Restriction.BsaI
    signature = None


class NoneSignatureNoCutter(AbstractPart, Entry):
    signature = None


class LowerSignature(AbstractPart, Entry):
    cutter = Restriction.BsaI
    signature = ("atgc", "nnnn")


class BluntPart(AbstractPart, Entry):
    cutter = Restriction.EcoRV
    signature = ("ATGC", "ATTC")


class ThreePrimePart(AbstractPart, EntryVector):
    cutter = Restriction.BseRI
    signature = ("AT", "GC")


ODD = [NoRole, NoRoleNoCutter, NoCutter, NoSignature, NoSignatureNoCutter,
       LongSignature, ShortSignature, StringSignature, NoneSignature,
       NoneSignatureNoCutter, LowerSignature, BluntPart, ThreePrimePart,
       AbstractPart, AbstractModule, AbstractVector, Entry, Product, Cassette,
       Device, EntryVector, CassetteVector, DeviceVector]
for cls in ODD:
    attempt("odd structure {}".format(cls.__name__), cls.structure)
    attempt("odd isabstract {}".format(cls.__name__), isabstract, cls)
    rec = annotated(layout(Restriction.BsaI, False, "ATGC", "ATTC"), "odd")
    before = snapshot(rec)
    entity = attempt("odd new {}".format(cls.__name__), cls, rec)
    if entity is not None:
        attempt("odd valid {}".format(cls.__name__), entity.is_valid)
        attempt("odd valid again {}".format(cls.__name__), entity.is_valid)
    attempt("odd characterize {}".format(cls.__name__),
            getattr(cls, "characterize", lambda r: "n/a"), rec)
    LINES.append("odd state {} {}".format(cls.__name__, snapshot(rec) == before))

for thing in (int, collections.abc.Iterable, StructuredRecord, ytk.YTKPart,
              ytk.YTKPart1, ytk.YTKProduct, moclo_kit.MoCloPart, cidar.CIDARPart):
    attempt("isabstract {}".format(thing.__name__), isabstract, thing)

# === 2. every bundled class ================================================


def all_subclasses(cls):
    for sub in cls.__subclasses__():
        yield sub
        for subsub in all_subclasses(sub):
            yield subsub


BUNDLED = sorted(
    {c for base in (AbstractPart, AbstractModule, AbstractVector)
     for c in all_subclasses(base) if c.__module__.startswith("moclo.")},
    key=lambda c: (c.__module__, c.__name__),
)
LINES.append("bundled {}".format(len(BUNDLED)))
for cls in BUNDLED:
    attempt("bundled structure {}".format(cls.__name__), cls.structure)

# === 3. matching, overhangs, targets on generated records ==================


def declare(tag, enzyme, role_cls, signatures):
    generic = type(str(tag + "Generic"), (role_cls,), {"cutter": enzyme})
    base = type(str(tag + "Part"), (AbstractPart,),
                {"cutter": enzyme, "signature": NotImplemented})
    typed = [type(str("{}T{}".format(tag, i)), (base, generic), {"signature": s})
             for i, s in enumerate(signatures)]
    KEEP.extend([generic, base] + typed)
    return generic, base, typed


R = Restriction
KITS = [
    declare("EqBsaI", R.BsaI, Entry, [("ATGC", "ATTC"), ("ATTC", "GGCA"), ("NNNN", "GGCA"), ("RYNN", "WSKM")]),
    declare("EqBsmBI", R.BsmBI, Cassette, [("CCCT", "AACG"), ("AACG", "NNNN")]),
    declare("EqBpiI", R.BpiI, Entry, [("GGAG", "TACT"), ("TACT", "HATG")]),
    declare("EqSapI", R.SapI, Entry, [("ATG", "GGT"), ("GGT", "NNN")]),
    declare("EqHgaI", R.HgaI, Cassette, [("ACGTA", "TTACC")]),
    declare("EqAarI", R.AarI, Entry, [("acgt", "TTAC")]),
    declare("EqVBsaI", R.BsaI, EntryVector, [("CCCT", "AACG"), ("NNNN", "CCGA")]),
    declare("EqVBpiI", R.BpiI, CassetteVector, [("GGGA", "NNNN"), ("TACA", "CCCT")]),
    declare("EqVSapI", R.SapI, DeviceVector, [("ATG", "TAA")]),
    declare("EqBseRI", R.BseRI, Entry, [("AT", "GC")]),
]


def probe(cls, record, label):
    before = snapshot(record)
    entity = attempt(label + " new", cls, record)
    if entity is None:
        return
    attempt(label + " valid", entity.is_valid)
    attempt(label + " match", lambda: entity._match.span(0))
    attempt(label + " spans", lambda: [entity._match.span(i) for i in (1, 2, 3)])
    attempt(label + " groups", lambda: [entity._match.group(i) for i in (0, 1, 2, 3)])
    attempt(label + " start", entity.overhang_start)
    attempt(label + " end", entity.overhang_end)
    attempt(label + " target", entity.target_sequence)
    if hasattr(entity, "placeholder_sequence"):
        attempt(label + " placeholder", entity.placeholder_sequence)
    attempt(label + " valid again", entity.is_valid)
    LINES.append("{} state {}".format(label, snapshot(record) == before))


COUNT = 0
for generic, base, typed in KITS:
    cutter = generic.cutter
    vector = issubclass(generic, AbstractVector)
    site = cutter.site
    n = abs(cutter.ovhg)
    records = []
    for cls in typed:
        upo, downo = (instantiate(s.upper()) for s in cls.signature)
        seq = layout(cutter, vector, upo, downo)
        records.append(annotated(seq, "member" + cls.__name__))
        records.append(annotated(seq, "rot" + cls.__name__) << 3)
        records.append(annotated(seq, "rotr" + cls.__name__) >> RNG.randint(1, len(seq) - 1))
        records.append(annotated(seq.lower(), "lower" + cls.__name__) << RNG.randint(1, len(seq) - 1))
        mixed = "".join(RNG.choice((c, c.lower())) for c in seq)
        records.append(annotated(mixed, "mixed" + cls.__name__) >> 5)
        records.append(annotated(seq, "linear" + cls.__name__, circular=False, topology="linear"))
        records.append(annotated(seq[7:] + seq[:7], "cutlin" + cls.__name__, circular=False, topology="Linear"))
        records.append(annotated(seq[7:] + seq[:7], "plain" + cls.__name__, circular=False))
        records.append(annotated(seq[7:] + seq[:7], "circ" + cls.__name__, circular=False, topology="CIRCULAR"))
        # an extra site in the insert / in the backbone
        extra = layout(cutter, vector, upo, downo, inner=dna(4) + site + dna(9))
        records.append(annotated(extra, "inner" + cls.__name__))
        extra = layout(cutter, vector, upo, downo, outer=dna(8) + site + dna(12))
        records.append(annotated(extra, "outer" + cls.__name__))
        # near miss
        wrong = "".join("ACGT"[("ACGT".index(c) + 1) % 4] if i == 1 else c
                        for i, c in enumerate(upo))
        records.append(annotated(layout(cutter, vector, wrong, downo), "miss" + cls.__name__))
        # empty insert
        records.append(annotated(layout(cutter, vector, upo, downo, inner=""), "tight" + cls.__name__))
    for i in range(3):
        seq = layout(cutter, vector, dna(n), dna(n))
        records.append(annotated(seq, "random{}".format(i)) << RNG.randint(0, len(seq) - 1))
    records.append(annotated(dna(60), "noise"))
    records.append(annotated("ACG", "tiny"))
    records.append(annotated(layout(cutter, vector, "N" * n, "N" * n), "ambiguous"))
    weird = annotated(layout(cutter, vector, dna(n), dna(n)), "weird", circular=False)
    weird.annotations["topology"] = None
    records.append(weird)
    for record in records:
        for cls in [generic] + typed:
            COUNT += 1
            probe(cls, record, "{}({})".format(cls.__name__, record.id))
        for cls in [base] + typed[:1]:
            before = snapshot(record)
            attempt("{}.characterize({})".format(cls.__name__, record.id),
                    cls.characterize, record)
            LINES.append("characterize state {}".format(snapshot(record) == before))
LINES.append("probes {}".format(COUNT))

# === 4. characterisation with the bundled kits =============================

for base in (ytk.YTKPart, moclo_kit.MoCloPart, ecoflex.EcoFlexPart, cidar.CIDARPart,
             ytk.YTKPart1, ytk.YTKPart8, ytk.YTKPart234r, moclo_kit.MoCloPro,
             moclo_kit.MoCloEndLinker, moclo_kit.MoCloLevelMVector, plant.PlantTer,
             AbstractPart):
    candidates = list(base.__subclasses__()) + [base]
    for cls in candidates:
        sig = getattr(cls, "signature", NotImplemented)
        cutter = getattr(cls, "cutter", NotImplemented)
        if sig is NotImplemented or cutter is NotImplemented:
            continue
        if not isinstance(sig, tuple) or len(sig) != 2 or not cutter.is_5overhang():
            continue
        vector = issubclass(cls, AbstractVector)
        upo, downo = instantiate(sig[0]), instantiate(sig[1])
        rec = annotated(layout(cutter, vector, upo, downo), "of" + cls.__name__)
        for r in (rec, rec << 4, rec >> 9):
            before = snapshot(r)
            attempt("{}.characterize({})".format(base.__name__, r.id), base.characterize, r)
            LINES.append("characterize state {}".format(snapshot(r) == before))
        miss = annotated(layout(cutter, vector, upo[::-1] + "A", downo), "miss" + cls.__name__)
        attempt("{}.characterize({})".format(base.__name__, miss.id), base.characterize, miss)
    attempt("{}.characterize(noise)".format(base.__name__), base.characterize,
            annotated(dna(80), "noise"))

# === 5. assemblies (successful and failing) ================================

generic, base, typed = KITS[0]


class EqVector(EntryVector):
    cutter = R.BsaI


def module_record(upo, downo, rid):
    return annotated(layout(R.BsaI, False, upo, downo, inner=dna(12)), rid)


vec = annotated(layout(R.BsaI, True, "GGCA", "ATGC", inner=dna(15)), "vec")
m1 = module_record("ATGC", "ATTC", "m1")
m2 = module_record("ATTC", "GGCA", "m2")
m2b = module_record("ATTC", "GGCA", "m2b")
m3 = module_record("CCCC", "GGCA", "m3")
states = [snapshot(r) for r in (vec, m1, m2, m2b, m3)]
attempt("assemble ok", lambda: EqVector(vec).assemble(typed[0](m1), typed[1](m2)))
attempt("assemble ok generic", lambda: EqVector(vec << 13).assemble(generic(m2 >> 6), generic(m1 << 2), id="x", name="y"))
attempt("assemble missing", lambda: EqVector(vec).assemble(typed[0](m1)))
attempt("assemble duplicate", lambda: EqVector(vec).assemble(generic(m1), generic(m2), generic(m2b)))
attempt("assemble unused", lambda: EqVector(vec).assemble(generic(m1), generic(m2), generic(m3)))
attempt("assemble wrong type", lambda: EqVector(vec).assemble(typed[1](m1), typed[1](m2)))
attempt("assemble bad vector", lambda: EqVector(m1).assemble(generic(m1)))
# (the assembly leaves an empty "references" annotation on its inputs)
LINES.append("assembly state before {}".format(states))
LINES.append("assembly state after {}".format([snapshot(r) for r in (vec, m1, m2, m2b, m3)]))

# === 6. the DNA regex itself ================================================

for pattern in ("ATG(NN)C", "(R)(Y)W*S", "GGTCTCN(NNNN)(NN*N)(NNNN)NGAGACC", "n(AT)", "A[CG]T", "AXB"):
    rx = attempt("regex {}".format(pattern), DNARegex, pattern)
    if rx is None:
        continue
    LINES.append("transcribed {}".format(rx.regex.pattern))
    for i in range(12):
        text = dna(RNG.randint(1, 40)) + instantiate(pattern.replace("(", "").replace(")", "").replace("*", "").replace("[CG]", "C").upper()) + dna(RNG.randint(0, 9))
        if i % 3 == 0:
            text = text.lower()
        k = RNG.randint(0, len(text) - 1)
        text = text[k:] + text[:k]
        for subject in (Seq(text), SeqRecord(Seq(text), id="s"), CircularRecord(Seq(text), id="c"), text):
            for kwargs in ({}, {"linear": False}, {"pos": 3}, {"pos": 2, "endpos": 9}):
                name = "search {} {} {} {}".format(pattern, type(subject).__name__, text, sorted(kwargs.items()))
                m = attempt(name, lambda: rx.search(subject, **kwargs) and "match")
                if m is None:
                    continue
                match = rx.search(subject, **kwargs)
                attempt(name + " span", lambda: (match.start(), match.end(), match.span(), match.shift))
                attempt(name + " groups", lambda: [match.group(g) for g in range(rx.regex.groups + 1)])

# === 7. state of the pattern caches =========================================

seen = set()
for cls in sorted(all_subclasses(StructuredRecord), key=lambda c: (c.__module__, c.__name__)):
    if cls in seen:
        continue
    seen.add(cls)
    own = vars(cls).get("_regex")
    LINES.append("cache {}.{} {}".format(cls.__module__, cls.__name__,
                                         None if own is None else own.pattern))

digest = hashlib.sha256("\n".join(LINES).encode("utf-8")).hexdigest()
if "--dump" in sys.argv:
    print("\n".join(LINES))
raised = sum(1 for line in LINES if " !! " in line)
print("lines={} raised={} probes={} digest={}".format(len(LINES), raised, COUNT, digest))
