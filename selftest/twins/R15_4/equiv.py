# coding: utf-8
"""Differential test for the rewrite of AssemblyManager._deref_citations / _ref_citations."""
import sys

sys.path.insert(0, "/tmp/agentsR4/R15")
import tests  # noqa: E402,F401

import hashlib  # noqa: E402
import random  # noqa: E402
import re  # noqa: E402
import warnings  # noqa: E402

from Bio.Seq import Seq  # noqa: E402
from Bio.SeqRecord import SeqRecord  # noqa: E402
from Bio.SeqFeature import SeqFeature, FeatureLocation, CompoundLocation, Reference  # noqa: E402
from Bio.Restriction import BsaI, BpiI, BsmBI, SapI, BseRI  # noqa: E402

from moclo import errors  # noqa: E402
from moclo.record import CircularRecord  # noqa: E402
from moclo.core.modules import AbstractModule, Entry  # noqa: E402
from moclo.core.vectors import AbstractVector, EntryVector  # noqa: E402
from moclo.core._assembly import AssemblyManager  # noqa: E402

rng = random.Random(150004)
ADDR = re.compile(r"0x[0-9a-fA-F]+")
results = []


def outcome(fn, *args, **kwargs):
    with warnings.catch_warnings(record=True) as caught:
        warnings.simplefilter("always")
        try:
            res = ("ok", fn(*args, **kwargs))
        except Exception as exc:  # noqa
            res = ("exc", type(exc).__name__, ADDR.sub("0x?", str(exc)), show_exc(exc))
    ws = [
        (type(w.message).__name__, str(w.message),
         [m.record.id for m in getattr(w.message, "remaining", ())])
        for w in caught
        if isinstance(w.message, errors.MocloError)
    ]
    return res, ws


def show_exc(exc):
    out = [type(exc).__mro__[1].__name__, repr(exc.__cause__), exc.__suppress_context__]
    if isinstance(exc, errors.DuplicateModules):
        out.append([d.record.id for d in exc.duplicates])
        out.append(exc.details)
    if isinstance(exc, errors.MissingModule):
        out.append((type(exc.start_overhang).__name__, str(exc.start_overhang), exc.details))
    if isinstance(exc, errors.InvalidSequence):
        out.append((getattr(exc.sequence, "id", None), exc.details))
    return out


def show(rec):
    if isinstance(rec, Seq):
        return str(rec)
    if not isinstance(rec, SeqRecord):
        return repr(rec)
    return (
        type(rec).__name__,
        str(rec.seq),
        rec.id,
        rec.name,
        rec.description,
        [
            (f.type, f.id, repr(f.location), sorted((k, repr(v)) for k, v in f.qualifiers.items()))
            for f in rec.features
        ],
        sorted((k, repr(v)) for k, v in rec.annotations.items()),
    )


def randseq(n, alphabet="ACGT"):
    return "".join(rng.choice(alphabet) for _ in range(n))


FORBIDDEN = ["GGTCTC", "GAGACC", "GAAGAC", "GTCTTC", "CGTCTC", "GAGACG", "GCTCTTC", "GAAGAGC",
             "GAGGAG", "CTCCTC"]


def clean(n):
    while True:
        s = randseq(n)
        if not any(site in s + s for site in FORBIDDEN):
            return s


def make_ref(title):
    r = Reference()
    r.title = title
    r.authors = "Author of " + title
    r.journal = "J. Irreproducible Results"
    if rng.random() < 0.3:
        r.pubmed_id = "12345"
    return r


class Kit(object):
    def __init__(self, cutter, three_prime=False):
        self.cutter = cutter
        self.site = cutter.site
        self.rcsite = str(Seq(cutter.site).reverse_complement())
        self.ov = abs(cutter.ovhg)
        el = cutter.elucidate()
        cutter_ = cutter
        if three_prime:
            self.gap = el.index("_") - len(self.site)
            gap, ov, site, rcsite = "N" * self.gap, "N" * self.ov, self.site, self.rcsite

            class Mod(AbstractModule):
                cutter = cutter_

                @classmethod
                def structure(cls):
                    return "{s}{g}({o})(NN*N)({o}){g}{r}".format(s=site, g=gap, o=ov, r=rcsite)

            class Vec(AbstractVector):
                cutter = cutter_

                @classmethod
                def structure(cls):
                    return "({o})({g}{r}N*{s}{g})({o})".format(s=site, g=gap, o=ov, r=rcsite)

        else:
            self.gap = el.index("^") - len(self.site)
            Mod = type(str("Mod"), (AbstractModule,), {"cutter": cutter})
            Vec = type(str("Vec"), (AbstractVector,), {"cutter": cutter})
        self.Mod, self.Vec = Mod, Vec

    def overhangs(self, k):
        out = []
        while len(out) < k:
            o = randseq(self.ov)
            rc = str(Seq(o).reverse_complement())
            if o not in out and rc not in out and o != rc:
                out.append(o)
        return out

    def finish(self, s, rid, circular=True):
        n = len(s)
        feats = []
        mode = rng.choice(["plain", "plain", "plain", "shared", "strings", "none", "noannot", "bad", "weird"])
        nrefs = rng.randint(1, 4)
        if mode == "shared":
            refs = [make_ref(rng.choice(["common A", "common B", "common C"])) for _ in range(nrefs)]
        elif mode == "strings":
            refs = ["Smith {} et al.".format(rng.randint(0, 3)) for _ in range(nrefs)]
        elif mode == "none":
            refs = []
        else:
            refs = [make_ref("ref {} of {}".format(i, rid)) for i in range(nrefs)]
        for _ in range(rng.randint(0, 5)):
            a = rng.randint(0, n - 1)
            b = rng.randint(a + 1, n)
            quals = {"label": ["{}:{}-{}".format(rid, a, b)]}
            r = rng.random()
            if r < 0.7:
                quals["citation"] = ["[{}]".format(rng.randint(1, nrefs)) for _ in range(rng.randint(0, 3))]
            if mode == "bad" and rng.random() < 0.4:
                quals.setdefault("citation", []).append(
                    rng.choice(["1", "[a]", "[]", "[0]", "[99]", "[-1]", " [1]", "[1] and more", "[1][2]", "", None, 3])
                )
            if mode == "weird" and rng.random() < 0.4:
                quals["citation"] = rng.choice(["[1]", ("[1]",), ("[1]", "[1]"), [], "", {"[1]": 0}])
            if rng.random() < 0.2 and b < n:
                loc = CompoundLocation([FeatureLocation(b, n, 1), FeatureLocation(0, a + 1, 1)])
            else:
                loc = FeatureLocation(a, b, rng.choice([1, -1]))
            feats.append(SeqFeature(loc, type=rng.choice(["CDS", "misc_feature", "promoter"]), qualifiers=quals))
        r = rng.random()
        if r < 0.15:
            s = s.lower()
        ants = {"topology": "circular"} if rng.random() < 0.5 else {}
        if mode != "noannot":
            ants["references"] = refs
            if rng.random() < 0.1:
                ants["references"] = tuple(refs)
        rec = CircularRecord(Seq(s), id=rid, name=rid + "_name", features=feats, annotations=ants)
        if circular and rng.random() < 0.5:
            rec = rec >> rng.randint(0, n)
        return rec

    def module(self, o_start, o_end, rid, inner=None):
        inner = clean(rng.randint(2, 30)) if inner is None else inner
        s = (self.site + clean(self.gap) + o_start + inner + o_end + clean(self.gap) + self.rcsite
             + clean(rng.randint(0, 30)))
        return self.Mod(self.finish(s, rid))

    def vector(self, o_end, o_start, rid):
        # group 1 is the vector "end" overhang (where the insert starts)
        s = (clean(rng.randint(1, 20)) + o_end + clean(self.gap) + self.rcsite + clean(rng.randint(0, 20))
             + self.site + clean(self.gap) + o_start + clean(rng.randint(1, 20)))
        return self.Vec(self.finish(s, rid))


KITS = [Kit(BsaI), Kit(BpiI), Kit(BsmBI)]
SCENARIOS = ["ok", "ok", "ok", "ok", "missing", "unused", "dupstart", "same_twice", "shared_refs"]


def snapshot(elements):
    return [show(e.record) for e in elements]


def identities(elements):
    # the citation lists and reference lists must be mutated in place
    return [
        (id(e.record.annotations.get("references")),
         [id(f.qualifiers.get("citation")) for f in e.record.features])
        for e in elements
    ]


for case in range(600):
    kit = rng.choice(KITS)
    scenario = rng.choice(SCENARIOS)
    k = rng.randint(1, 4)
    ovs = kit.overhangs(k + 3)
    chain = ovs[:k + 1]
    spare = ovs[k + 1:]
    vec = kit.vector(chain[0], chain[-1], "vec{}".format(case))
    mods = [kit.module(chain[i], chain[i + 1], "m{}_{}".format(case, i)) for i in range(k)]
    if scenario == "missing":
        del mods[rng.randrange(len(mods))]
    elif scenario == "unused":
        mods.append(kit.module(spare[0], spare[1], "extra{}".format(case)))
    elif scenario == "dupstart":
        mods.append(kit.module(chain[rng.randrange(k)], spare[0], "dup{}".format(case)))
    elif scenario == "same_twice":
        mods.append(rng.choice(mods))
    elif scenario == "shared_refs":
        # every element cites equal-but-distinct or identical reference objects
        pool = [make_ref("pooled {}".format(i)) for i in range(3)]
        for e in mods + [vec]:
            mine = [rng.choice(pool) if rng.random() < 0.5 else make_ref("pooled {}".format(rng.randint(0, 2)))
                    for _ in range(rng.randint(1, 3))]
            e.record.annotations["references"] = mine
            for f in e.record.features:
                f.qualifiers["citation"] = ["[{}]".format(rng.randint(1, len(mine)))
                                            for _ in range(rng.randint(0, 2))]
    if not mods:
        continue
    rng.shuffle(mods)
    elements = mods + [vec]
    before = snapshot(elements)
    ids_before = identities(elements)
    (res, ws) = outcome(vec.assemble, *mods)
    after = snapshot(elements)
    row = ["C", case, scenario, kit.cutter.__name__, [m.record.id for m in mods]]
    if res[0] == "ok":
        row.append(show(res[1]))
        refs = res[1].annotations.get("references")
        row.append((type(refs).__name__, [repr(r) for r in refs]))
        row.append([f.qualifiers.get("citation") for f in res[1].features])
    else:
        row.append(res)
    row.append(ws)
    row.append(before == after)
    row.append(ids_before == identities(elements))
    row.append(after)
    # a second run on the (possibly half-processed) inputs
    (res2, ws2) = outcome(vec.assemble, *mods)
    row.append(show(res2[1]) if res2[0] == "ok" else res2)
    row.append(snapshot(elements))
    results.append(tuple(row))

# direct use of the manager helpers on single records
kit = KITS[0]
for case in range(200):
    ovs = kit.overhangs(2)
    vec = kit.vector(ovs[0], ovs[1], "dv{}".format(case))
    mod = kit.module(ovs[0], ovs[1], "dm{}".format(case))
    mgr = AssemblyManager(vec, [mod])
    rec = mod.record
    row = ["D", case, show(rec)]
    (r1, _) = outcome(mgr._deref_citations, rec)
    row.append(r1 if r1[0] == "exc" else r1[1])
    row.append(show(rec))
    row.append([[type(c).__name__ for c in f.qualifiers.get("citation", [])] for f in rec.features])
    (r2, _) = outcome(mgr._ref_citations, rec)
    row.append(r2 if r2[0] == "exc" else r2[1])
    row.append(show(rec))
    (r3, _) = outcome(mgr._ref_citations, rec)
    row.append(r3 if r3[0] == "exc" else r3[1])
    row.append(show(rec))
    results.append(tuple(row))

digest = hashlib.sha256(ADDR.sub("0x?", repr(results)).encode("utf-8")).hexdigest()
print(len(results), digest)
