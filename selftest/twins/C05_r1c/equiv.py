# coding: utf-8
"""Differential test for the code behind part typing and characterisation.

Exercises, through the API that exists on the pristine tree, the structure
derivation of parts / modules / vectors, the regex matching, ``is_valid``,
the accessors, ``characterize`` and a few assemblies on generated inputs,
and prints a digest of everything observed (results, exception types and
messages, warnings, state of the inputs afterwards).
"""
import hashlib
import random
import re
import sys
import warnings

sys.path.insert(0, "/tmp/agents7/C05")
import tests  # noqa: E402,F401

from Bio.Seq import Seq  # noqa: E402
from Bio.SeqRecord import SeqRecord  # noqa: E402
from Bio.SeqFeature import SeqFeature, FeatureLocation  # noqa: E402
from Bio.Restriction import (  # noqa: E402
    BsaI, BsmBI, BpiI, BbsI, SapI, BtgZI, BfuAI, HgaI, FokI, MlyI, EcoRI,
)

from moclo import errors  # noqa: E402
from moclo._utils import isabstract, classproperty, catch_warnings  # noqa: E402
from moclo.regex import DNARegex  # noqa: E402
from moclo.record import CircularRecord  # noqa: E402
from moclo.core import (  # noqa: E402
    AbstractPart, AbstractModule, AbstractVector, Entry, Product, Cassette,
    Device, EntryVector, CassetteVector, DeviceVector,
)
from moclo.kits import ytk, cidar, ecoflex, moclo as icon, plant  # noqa: E402,F401

IUPAC = {
    "A": "A", "C": "C", "G": "G", "T": "T", "R": "AG", "Y": "CT", "S": "CG",
    "W": "AT", "K": "GT", "M": "AC", "B": "CGT", "D": "AGT", "H": "ACT",
    "V": "ACG", "N": "ACGT",
}
RNG = random.Random(7050501)
LINES = []


def out(*args):
    LINES.append(" | ".join(str(a) for a in args))


def rand_dna(n):
    return "".join(RNG.choice("ACGT") for _ in range(n))


def instantiate(code):
    return "".join(RNG.choice(IUPAC[c]) for c in code.upper())


def fill(pattern, first, last, insert):
    m = re.match(r"^([A-Z]*)\((N+)\)\((.*)\)\((N+)\)([A-Z]*)$", pattern)
    assert m is not None, pattern

    def plain(text):
        res, i = [], 0
        while i < len(text):
            if text[i : i + 2] == "N*":
                res.append(insert)
                i += 2
            else:
                res.append(RNG.choice(IUPAC[text[i]]))
                i += 1
        return "".join(res)

    return "".join(
        [plain(m.group(1)), first, plain(m.group(3)), last, plain(m.group(5))]
    )


def n_sites(cutter, text):
    return len(cutter.search(Seq(text), linear=False))


def make_text(generic, up, down, extra_site=False):
    cutter = generic.cutter
    vector = issubclass(generic, AbstractVector)
    first, last = (down, up) if vector else (up, down)
    for _ in range(2000):
        insert = rand_dna(RNG.randint(6, 30))
        if extra_site:
            insert = insert[:5] + instantiate(cutter.site) + insert[5:]
        core = fill(generic.structure(), first, last, insert)
        text = core + rand_dna(RNG.randint(20, 60))
        if n_sites(cutter, text) == (3 if extra_site else 2):
            return text
    raise AssertionError("could not build a record")


def wrap(text, rid, flavour):
    """Wrap a sequence in one of the record flavours users hand in."""
    if flavour == "lower":
        text = text.lower()
    elif flavour == "mixed":
        text = "".join(c.lower() if RNG.random() < 0.5 else c for c in text)
    feats = [
        SeqFeature(FeatureLocation(2, 9, 1), type="misc_feature",
                   qualifiers={"label": ["thing"]})
    ]
    if flavour == "plain":
        return SeqRecord(Seq(text), id=rid, name=rid, features=feats)
    if flavour == "plain-linear":
        return SeqRecord(Seq(text), id=rid, name=rid, features=feats,
                         annotations={"topology": "linear"})
    if flavour == "plain-circular":
        return SeqRecord(Seq(text), id=rid, name=rid, features=feats,
                         annotations={"topology": "Circular"})
    if flavour == "plain-rotated":
        k = RNG.randrange(len(text))
        return SeqRecord(Seq(text[k:] + text[:k]), id=rid, name=rid)
    rec = CircularRecord(Seq(text), id=rid, name=rid, features=feats)
    if flavour == "origin":
        # put the origin inside the match
        return rec << RNG.randint(3, 12)
    if flavour == "fixed":
        return rec
    return rec >> RNG.randrange(len(text))


FLAVOURS = ["rotated", "rotated", "origin", "fixed", "lower", "mixed", "plain",
            "plain-linear", "plain-circular", "plain-rotated"]


def state(rec):
    return (
        type(rec).__name__, str(rec.seq), rec.id, rec.name,
        sorted(rec.annotations.items()),
        [(f.type, str(f.location), sorted((k, str(v)) for k, v in f.qualifiers.items()))
         for f in rec.features],
    )


def attempt(func, *args, **kwargs):
    """Call and describe: value or exception, with the warnings emitted."""
    with warnings.catch_warnings(record=True) as caught:
        warnings.simplefilter("always")
        try:
            res = ("ok", describe(func(*args, **kwargs)))
        except Exception as err:  # noqa
            res = ("raise", type(err).__name__, str(err))
    return res + tuple(
        (w.category.__name__, str(w.message)) for w in caught
        if not issubclass(w.category, (DeprecationWarning, PendingDeprecationWarning))
    )


def describe(value):
    if isinstance(value, SeqRecord):
        return ("record",) + state(value)
    if isinstance(value, Seq):
        return ("seq", str(value))
    if isinstance(value, (AbstractModule, AbstractVector, AbstractPart)):
        return ("entity", type(value).__name__, value.record.id)
    if isinstance(value, (list, tuple)):
        return [describe(v) for v in value]
    return value


def probe(cls, rec):
    """Everything the existing API tells about ``rec`` seen as a ``cls``."""
    res = [cls.__name__]
    made = attempt(cls, rec)
    if made[0] != "ok":
        return res + [made]
    entity = cls(rec)
    res.append(attempt(entity.is_valid))
    res.append(attempt(entity.is_valid))
    for name in ("overhang_start", "overhang_end", "target_sequence",
                 "placeholder_sequence"):
        if hasattr(entity, name):
            res.append((name, attempt(getattr(entity, name))))
    res.append(("same record", entity.record is rec, entity.seq is rec.seq))
    return res


def derives_structure(cls):
    for klass in cls.__mro__:
        if klass is AbstractPart:
            return True
        if isinstance(vars(klass).get("structure"), staticmethod):
            return False
    return False


def generic_of(cls, _cache={}):
    vector = issubclass(cls, AbstractVector)
    key = (vector, cls.cutter)
    if key not in _cache:
        base = EntryVector if vector else Entry
        name = "Generic{}{}".format("Vector" if vector else "Module", cls.cutter.__name__)
        _cache[key] = type(str(name), (base,), {"cutter": cls.cutter})
    return _cache[key]


def all_classes(module):
    res = []
    for name in sorted(vars(module)):
        obj = getattr(module, name)
        if isinstance(obj, type) and issubclass(
            obj, (AbstractPart, AbstractModule, AbstractVector)
        ) and obj.__module__ == module.__name__:
            res.append(obj)
    return res


def main():
    # ---------------------------------------------------------------- classes
    class SapEntry(Entry):
        cutter = SapI

    class BtgVector(CassetteVector):
        cutter = BtgZI

    class HgaCassette(Cassette):
        cutter = HgaI

    class FokVector(DeviceVector):
        cutter = FokI

    class UserPart(AbstractPart):
        cutter = NotImplemented
        signature = NotImplemented

    class UserCDS(UserPart, SapEntry):
        cutter = SapI
        signature = ("ATG", "GGW")

    class UserAny(UserPart, SapEntry):
        cutter = SapI
        signature = ("NNN", "NNN")

    class UserBackbone(UserPart, BtgVector):
        cutter = BtgZI
        signature = ("GCTT", "NNRY")

    class UserFive(UserPart, HgaCassette):
        cutter = HgaI
        signature = ("ACGTA", "NNNNB")

    class UserFok(UserPart, FokVector):
        cutter = FokI
        signature = ("GGAG", "CGCT")

    class UserLower(UserPart, SapEntry):
        cutter = SapI
        signature = ("atg", "ggn")

    class Lonely(AbstractPart, Cassette):
        cutter = BsmBI
        signature = ("CTAA", "NNNN")

    class LonelyChild(Lonely):
        signature = ("CTAA", "GGGG")

    class Deep(AbstractPart):
        cutter = BfuAI
        signature = NotImplemented

    class DeepEntry(Entry):
        cutter = BfuAI

    class DeepMiddle(Deep):
        pass

    class DeepLeaf(DeepMiddle, DeepEntry):
        signature = ("AAAA", "CCCC")

    class DeepDirect(Deep, DeepEntry):
        signature = ("AAAA", "NNNN")

    class Roleless(AbstractPart):
        cutter = BsaI
        signature = ("AAAA", "CCCC")

    class RolelessKit(AbstractPart):
        cutter = BsaI
        signature = NotImplemented

    class RolelessChild(RolelessKit):
        signature = ("AAAA", "CCCC")

    class Blunt(Entry):
        cutter = MlyI

    class BluntPart(AbstractPart, Entry):
        cutter = MlyI
        signature = ("AAAA", "CCCC")

    class NoCutter(AbstractPart, Entry):
        signature = ("AAAA", "CCCC")

    class NoCutterVector(EntryVector):
        pass

    class Palindromic(Entry):
        cutter = EcoRI

    user = [SapEntry, BtgVector, HgaCassette, FokVector, UserPart, UserCDS, UserAny,
            UserBackbone, UserFive, UserFok, UserLower, Lonely, LonelyChild, Deep,
            DeepEntry, DeepMiddle, DeepLeaf, DeepDirect, Roleless, RolelessKit,
            RolelessChild, Blunt, BluntPart, NoCutter, NoCutterVector, Palindromic]
    kits = [ytk, cidar, ecoflex, icon, plant]
    classes = [c for kit in kits for c in all_classes(kit)] + user
    core = [AbstractPart, AbstractModule, AbstractVector, Entry, Product, Cassette,
            Device, EntryVector, CassetteVector, DeviceVector]

    out("== structures")
    for cls in core + classes:
        out(cls.__name__, attempt(cls.structure), isabstract(cls),
            [b.__name__ for b in cls.__mro__ if b.__module__.startswith("moclo")])

    # ----------------------------------------------------------------- records
    out("== records")
    bases = [ytk.YTKPart, cidar.CIDARPart, ecoflex.EcoFlexPart, icon.MoCloPart,
             UserPart, Lonely, Deep]
    count = 0
    for base in bases:
        kit = [c for c in base.__subclasses__() if derives_structure(c)
               and issubclass(c, (AbstractModule, AbstractVector))]
        if not isabstract(base):
            kit.append(base)
        for part in kit:
            generic = generic_of(part)
            k = len(generic.cutter.ovhgseq)
            up, down = (s.upper() for s in part.signature)
            peers = [c for c in kit if len(c.signature[0]) == k]
            sibling = RNG.choice(peers)
            u, d = instantiate(up), instantiate(down)
            cases = [
                ("member", u, d, False),
                ("sibling", instantiate(sibling.signature[0].upper()),
                 instantiate(sibling.signature[1].upper()), False),
                ("random", rand_dna(k), rand_dna(k), False),
                ("swapped", d, u, False),
                ("illegal", u, d, True),
            ]
            i = RNG.randrange(k)
            cases.append(("near", u[:i] + RNG.choice([b for b in "ACGT" if b != u[i]])
                          + u[i + 1:], d, False))
            for label, ovh_up, ovh_down, extra in cases:
                rid = "{}_{}".format(part.__name__, label)
                text = make_text(generic, ovh_up, ovh_down, extra)
                flavour = RNG.choice(FLAVOURS)
                rec = wrap(text, rid, flavour)
                before = state(rec)
                order = [generic, part] + RNG.sample(peers, min(2, len(peers)))
                kit_generic = [
                    c for c in part.__mro__
                    if not issubclass(c, AbstractPart) and c is not object
                    and getattr(c, "cutter", NotImplemented) is not NotImplemented
                ]
                order += kit_generic[:1]
                if RNG.random() < 0.5:
                    order.reverse()
                out(rid, flavour, [probe(c, rec) for c in order])
                out(rid, "characterize", base.__name__, attempt(base.characterize, rec),
                    part.__name__, attempt(part.characterize, rec),
                    sibling.__name__, attempt(sibling.characterize, rec))
                out(rid, "unchanged", state(rec) == before)
                count += 1

    # records without (enough) sites, tiny records, and odd bases
    out("== degenerate records")
    odd = [
        CircularRecord(Seq("ATG"), id="tiny"),
        CircularRecord(Seq("ATATTTTAAATTAATATAAT" * 3), id="nosite"),
        CircularRecord(Seq("GGTCTCAAACGTTTTTTTTTTTATGATATATAT"), id="onesite"),
        SeqRecord(Seq("GGTCTCAAACGTTTTTTTTTTTATGAGAGACC"), id="short"),
        CircularRecord(Seq("GGTCTCAAACGNNNNNNNNNNTATGAGAGACCTTTTTTT"), id="withN"),
        CircularRecord(Seq("GGTCTCAAACGAAAAAAAAAATATGAGAGACCTTTTTTT"), id="ytk2",
                       annotations={"topology": "circular"}),
        SeqRecord(Seq("TTTGGTCTCAAACGAAAAAAAAAATATGAGAGACCTTT"), id="ytk2lin",
                  annotations={"topology": "linear"}),
        SeqRecord(Seq("AAAAAATATGAGAGACCTTTTTTGGTCTCAAACGAAAA"), id="ytk2linwrap",
                  annotations={"topology": "linear"}),
    ]
    for rec in odd:
        before = state(rec)
        for cls in [ytk.YTKEntry, ytk.YTKPart2, ytk.YTKPart8, ytk.YTKCassetteVector,
                    cidar.CIDARPromoter, icon.MoCloLevelMVector, UserAny, Lonely]:
            out(rec.id, probe(cls, rec))
        for base in bases + [ytk.YTKPart2, ytk.YTKPart8, icon.MoCloLevelMVector]:
            out(rec.id, base.__name__, attempt(base.characterize, rec))
        out(rec.id, "unchanged", state(rec) == before)

    # --------------------------------------------------- class-level failures
    out("== class level failures")
    rec = wrap(make_text(generic_of(ytk.YTKPart2), "AACG", "TATG"), "p2", "rotated")
    for cls in [Roleless, RolelessKit, RolelessChild, Blunt, BluntPart, NoCutter,
                NoCutterVector, Palindromic, Deep, DeepMiddle, DeepLeaf, DeepDirect,
                AbstractPart, LonelyChild]:
        out(cls.__name__, "new", attempt(cls, rec))
        if hasattr(cls, "characterize"):
            out(cls.__name__, "characterize", attempt(cls.characterize, rec))
    deep = wrap(make_text(DeepEntry, "AAAA", "CCCC"), "deep", "rotated")
    for cls in [Deep, DeepMiddle, DeepLeaf, DeepDirect, DeepEntry]:
        out(cls.__name__, probe(cls, deep) if cls is not Deep and cls is not DeepMiddle
            else "-", attempt(cls.characterize, deep) if hasattr(cls, "characterize")
            else "-")

    # -------------------------------------------------------------- assemblies
    out("== assemblies")
    for trial in range(40):
        sigs = ["AACG", "TATG", "ATCC", "GCTG"]
        kinds = [ytk.YTKPart2, ytk.YTKPart3, ytk.YTKPart4]
        mods = []
        for i, kind in enumerate(kinds):
            text = make_text(generic_of(kind), sigs[i], sigs[i + 1])
            mods.append(kind(wrap(text, "mod{}".format(i), RNG.choice(FLAVOURS[:6]))))
        vec_up, vec_down = "GCTG", "AACG"
        if trial % 5 == 1:
            vec_down = "TTTT"  # nothing to start from
        vtext = make_text(generic_of(ytk.YTKCassetteVector), vec_up, vec_down)
        vec = ytk.YTKCassetteVector(wrap(vtext, "vec", RNG.choice(FLAVOURS[:4])))
        if trial % 5 == 2:
            mods.pop(1)  # missing module
        if trial % 5 == 3:
            mods.append(mods[0])  # duplicate
        if trial % 5 == 4:
            text = make_text(generic_of(ytk.YTKPart2), "CCCC", "GGGG")
            mods.append(ytk.YTKEntry(wrap(text, "unused", "rotated")))
        RNG.shuffle(mods)
        before = [state(m.record) for m in mods] + [state(vec.record)]
        out(trial, attempt(vec.assemble, *mods))
        out(trial, attempt(vec.assemble, *mods, id="x", name="y"))
        out(trial, [state(m.record) for m in mods] + [state(vec.record)] == before)

    # ------------------------------------------------------------------- regex
    out("== regex")
    for pattern in ["GGTCTCN(NNNN)(NN*N)(NNNN)NGAGACC", "(AACG)(NGAGACCN*?GGTCTCN)(GCTG)",
                    "ATGNNNTAA", "RYKMSWBDHVN", "N(NNNN)(NNGTCTTCN*GAAGACNN)(NNNN)N"]:
        rx = DNARegex(pattern)
        out(pattern, rx.pattern, rx.regex.pattern, rx.regex.flags)
        for _ in range(12):
            text = make_text(generic_of(ytk.YTKPart2), rand_dna(4), rand_dna(4))
            text = RNG.choice([text, text.lower(), "ATG" + rand_dna(3) + "TAA" + text])
            k = RNG.randrange(len(text))
            text = text[k:] + text[:k]
            for subject in [Seq(text), SeqRecord(Seq(text), id="r"),
                            CircularRecord(Seq(text), id="c")]:
                for kwargs in [{}, {"linear": False}, {"pos": 3}, {"pos": 2, "endpos": 30},
                               {"linear": True}]:
                    with warnings.catch_warnings():
                        warnings.simplefilter("ignore")
                        m = rx.search(subject, **kwargs)
                    if m is None:
                        out(type(subject).__name__, sorted(kwargs.items()), None)
                    else:
                        out(type(subject).__name__, sorted(kwargs.items()), m.start(),
                            m.end(), m.span(), m.shift,
                            [(m.span(i), str(getattr(m.group(i), "seq", m.group(i))))
                             for i in range(rx.regex.groups + 1)])
        out(attempt(rx.search, "ATGC"), attempt(rx.search, None))

    # ------------------------------------------------------------------- utils
    out("== utils")

    class Thing(object):
        @classproperty
        def name(cls):
            return cls.__name__.lower()

    class Half(object):
        attr = NotImplemented

    class HalfChild(Half):
        pass

    class Whole(Half):
        attr = 1

    import collections.abc
    out(Thing.name, Thing().name, [isabstract(c) for c in (
        Thing, Half, HalfChild, Whole, int, collections.abc.Iterable, collections.abc.Sized,
        ytk.YTKPart, ytk.YTKPart1, AbstractPart, Entry, ytk.YTKEntry)])

    @catch_warnings("ignore")
    def quiet(x, y=2):
        """doc"""
        warnings.warn("hidden")
        return x + y

    @catch_warnings("error", category=UserWarning)
    def loud():
        warnings.warn("boom", UserWarning)

    out(attempt(quiet, 1), attempt(quiet, 1, y=5), quiet.__name__, quiet.__doc__,
        attempt(loud))
    exc = errors.InvalidSequence(Seq("ATGC"), details="because")
    out(str(exc), str(errors.IllegalSite(Seq("ATGC"))), exc.sequence, exc.details, exc.exc)

    digest = hashlib.sha256("\n".join(LINES).encode("utf-8")).hexdigest()
    print("{} lines, {} generated records, digest {}".format(len(LINES), count, digest))
    if "--dump" in sys.argv:
        print("\n".join(LINES))


if __name__ == "__main__":
    main()
