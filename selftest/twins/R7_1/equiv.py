# coding: utf-8
"""Differential test: prints a digest that must be identical on the pristine
tree and on the refactored tree.  Run as

    cd /tmp/agentsR/R7 && /venv/bin/python refactor_out/<dir>/equiv.py
"""
import sys
import warnings

warnings.filterwarnings("ignore", category=UserWarning)
warnings.filterwarnings("ignore", category=DeprecationWarning)

sys.path.insert(0, "/tmp/agentsR/R7")
import tests  # noqa: E402,F401  (splices the kit packages into the moclo namespace)

import hashlib  # noqa: E402
import random  # noqa: E402

from Bio.Seq import Seq  # noqa: E402
from Bio.SeqFeature import SeqFeature, FeatureLocation, CompoundLocation  # noqa: E402
from Bio.SeqRecord import SeqRecord  # noqa: E402
from Bio import Restriction  # noqa: E402
from Bio.Restriction import BsaI, BpiI, BsmBI, BseRI, BtsI, SapI, EcoRV  # noqa: E402

from moclo import errors  # noqa: E402
from moclo.record import CircularRecord  # noqa: E402
from moclo.core.vectors import AbstractVector  # noqa: E402
from moclo.core.modules import AbstractModule  # noqa: E402
from moclo.core.parts import AbstractPart  # noqa: E402

RESULTS = []

IUPAC = {
    "A": "A", "C": "C", "G": "G", "T": "T",
    "B": "CGT", "D": "AGT", "H": "ACT", "K": "GT", "M": "AC", "N": "ACGT",
    "R": "AG", "S": "CG", "V": "ACG", "W": "AT", "Y": "CT",
}


# --- canonical description of results ---------------------------------------


def canon_location(loc):
    if loc is None:
        return None
    return repr(loc)


def canon_feature(feat):
    quals = sorted((str(k), repr(v)) for k, v in feat.qualifiers.items())
    return (feat.type, canon_location(feat.location), feat.id, quals)


def canon(obj, depth=0):
    """Return a deterministic, address-free description of `obj`."""
    if depth > 6:
        return "<deep>"
    if isinstance(obj, BaseException):
        extra = []
        for attr in ("details", "start_overhang"):
            if hasattr(obj, attr):
                extra.append((attr, canon(getattr(obj, attr), depth + 1)))
        for attr in ("duplicates", "remaining"):
            if hasattr(obj, attr):
                extra.append((attr, [canon(x, depth + 1) for x in getattr(obj, attr)]))
        try:
            msg = str(obj)
        except Exception as exc:  # the message itself can fail to render
            msg = ("<str failed>", type(exc).__name__, str(exc))
        return ("EXC", type(obj).__name__, msg, extra)
    if isinstance(obj, SeqRecord):
        return (
            "REC",
            type(obj).__name__,
            str(obj.seq),
            obj.id,
            obj.name,
            obj.description,
            sorted((str(k), repr(v)) for k, v in obj.annotations.items()),
            [canon_feature(f) for f in obj.features],
            list(obj.dbxrefs),
        )
    if isinstance(obj, Seq):
        return ("SEQ", str(obj))
    if isinstance(obj, (AbstractVector, AbstractModule, AbstractPart)):
        return ("ENT", type(obj).__name__, canon(obj.record, depth + 1))
    if isinstance(obj, (list, tuple)):
        return [canon(x, depth + 1) for x in obj]
    if isinstance(obj, dict):
        return sorted((repr(k), canon(v, depth + 1)) for k, v in obj.items())
    if isinstance(obj, type):
        return ("CLS", obj.__module__, obj.__name__)
    if obj is None or isinstance(obj, (bool, int, float, str, bytes)):
        return obj
    return ("OBJ", type(obj).__name__)


def attempt(label, func, *args, **kwargs):
    """Call `func`, recording either its result or the raised exception."""
    with warnings.catch_warnings(record=True) as caught:
        warnings.simplefilter("always")
        try:
            out = ("OK", canon(func(*args, **kwargs)))
        except Exception as exc:
            out = ("RAISED", canon(exc))
    warned = [
        (w.category.__name__, canon(w.message))
        for w in caught
        if isinstance(w.message, errors.MocloError)
    ]
    RESULTS.append((label, out, warned))
    return out


def finish():
    import re

    text = re.sub(r" at 0x[0-9a-fA-F]+", " at 0x?", repr(RESULTS))
    blob = text.encode("utf-8")
    print(len(RESULTS), "observations")
    print(hashlib.sha256(blob).hexdigest())


# --- generators ---------------------------------------------------------------


def rand_dna(rng, n, alphabet="ACGT"):
    return "".join(rng.choice(alphabet) for _ in range(n))


def instantiate(pattern, rng, filler=None, overhangs=None):
    """Generate a sequence matching a moclo structure pattern.

    ``N*`` is replaced by `filler` (random when `None`), the capture groups
    are dropped, IUPAC letters are drawn at random.  When `overhangs` is given
    it is a list of strings substituted, in order, for the capture groups that
    are made of 'N' only and have the same length.
    """
    overhangs = list(overhangs or [])
    out = []
    i = 0
    while i < len(pattern):
        c = pattern[i]
        if c == "(" and overhangs:
            j = pattern.find(")", i)
            inner = pattern[i + 1 : j] if j > 0 else ""
            if inner and set(inner) == {"N"} and len(inner) == len(overhangs[0]):
                out.append(overhangs.pop(0))
                i = j + 1
                continue
        if c in "()":
            i += 1
            continue
        if c == "N" and i + 1 < len(pattern) and pattern[i + 1] == "*":
            out.append(rand_dna(rng, rng.randint(0, 40)) if filler is None else filler)
            i += 2
            continue
        out.append(rng.choice(IUPAC.get(c, c)))
        i += 1
    return "".join(out)


def recase(rng, s):
    mode = rng.randint(0, 3)
    if mode == 0:
        return s
    if mode == 1:
        return s.lower()
    if mode == 2:
        return "".join(rng.choice((c.lower(), c.upper())) for c in s)
    return s[: len(s) // 2].lower() + s[len(s) // 2 :]


REFS = ["Lee et al. 2015", "Weber et al. 2011", "Iverson et al. 2016", "Moore 2016"]


def random_features(rng, n, with_citations=True):
    feats = []
    for k in range(rng.randint(0, 4)):
        if n < 2:
            break
        a = rng.randrange(0, n - 1)
        b = rng.randrange(a + 1, n + 1)
        quals = {"label": ["feat{}".format(k)]}
        if with_citations and rng.random() < 0.5:
            quals["citation"] = ["[{}]".format(rng.randint(1, 2))]
        if rng.random() < 0.2 and b < n - 1:
            c = rng.randrange(b, n - 1)
            d = rng.randrange(c + 1, n + 1)
            loc = CompoundLocation(
                [FeatureLocation(a, b, strand=1), FeatureLocation(c, d, strand=1)]
            )
        else:
            loc = FeatureLocation(a, b, strand=rng.choice((1, -1, None)))
        feats.append(SeqFeature(loc, type=rng.choice(("CDS", "misc_feature", "promoter")), qualifiers=quals))
    return feats


def make_record(rng, core, ident, rotate=True, kind=None, backbone=None, case=True):
    """Wrap `core` in a random backbone, rotate it and build a record."""
    if backbone is None:
        backbone = rand_dna(rng, rng.randint(0, 50))
    full = core + backbone
    if rotate and full:
        # rotation amounts may be negative or larger than the length
        k = rng.randint(-2 * len(full), 2 * len(full))
        k %= len(full)
        full = full[k:] + full[:k]
    if case:
        full = recase(rng, full)
    kind = kind or rng.choice(("circ",) * 20 + ("circ-ann",) * 6 + ("Circ-ann",) * 6 + ("linear", "plain-circ", "plain"))
    annotations = {"molecule_type": "DNA", "references": list(REFS[:2])}
    feats = random_features(rng, len(full))
    if kind == "circ":
        return CircularRecord(Seq(full), id=ident, name=ident, features=feats, annotations=annotations)
    if kind == "circ-ann":
        annotations["topology"] = "circular"
        return CircularRecord(Seq(full), id=ident, name=ident, features=feats, annotations=annotations)
    if kind == "Circ-ann":
        annotations["topology"] = "CIRCULAR"
        return CircularRecord(Seq(full), id=ident, name=ident, features=feats, annotations=annotations)
    if kind == "linear":
        annotations["topology"] = "linear"
        return SeqRecord(Seq(full), id=ident, name=ident, features=feats, annotations=annotations)
    if kind == "plain-circ":
        annotations["topology"] = "circular"
        return SeqRecord(Seq(full), id=ident, name=ident, features=feats, annotations=annotations)
    return SeqRecord(Seq(full), id=ident, name=ident, features=feats, annotations=annotations)


def usable_enzymes():
    """All the commercially known enzymes of Biopython, sorted by name."""
    return sorted(Restriction.AllEnzymes, key=str)


# =============================================================================
# Refactoring R7_1: message rendering of moclo.errors.

import pickle  # noqa: E402


class Rec(object):
    def __init__(self, ident):
        self.id = ident


class Ent(object):
    """Anything with a ``record.id`` can be reported by the assembly errors."""

    def __init__(self, ident):
        self.record = Rec(ident)

    def __repr__(self):
        return "Ent({!r})".format(self.record.id)


class Weird(object):
    def __str__(self):
        return "weird {} details"


DETAILS = [
    None, "", "plain", "same start overhang: 'ATGC'", "with {} braces", "idx {0} twice {0}",
    "{1}", "{name}", "{", "}", "{{escaped}}", "unicode αΩ", 5, 0, 2.5, b"bytes",
    ["l"], ("t",), Weird(), True, False, "{0.id}", "{0!r:>12}", "{:>10}", "{:d}",
]
IDS = ["", "mod1", "pYTK{}", "{0}", "id with space", "α", 7, None]


def observe_exception(label, factory):
    def run():
        exc = factory()
        out = [type(exc).__name__, [c.__name__ for c in type(exc).__mro__]]
        for what in (str, repr, lambda e: e.args, lambda e: "{}".format(e), lambda e: "%s" % (e,)):
            try:
                out.append(canon(what(exc)))
            except Exception as err:
                out.append(("RAISED", type(err).__name__, str(err)))
        out.append(sorted((k, canon(v)) for k, v in vars(exc).items()))
        out.append(hasattr(exc, "__unicode__"))
        out.append("__str__" in type(exc).__dict__)
        try:
            clone = pickle.loads(pickle.dumps(exc))
            out.append(("PICKLED", type(clone).__name__, sorted(vars(clone))))
        except Exception as err:
            out.append(("UNPICKLABLE", type(err).__name__))
        return out

    attempt(label, run)


rng = random.Random(7001)

# -- InvalidSequence / IllegalSite
SEQUENCES = [Seq("ATGC"), "ATGC", "{}", "{0}{0}", None, 12, SeqRecord(Seq("ATGCATGC"), id="rec{}"), Ent("e")]
for cls in (errors.InvalidSequence, errors.IllegalSite):
    for seq in SEQUENCES:
        for det in DETAILS:
            observe_exception(("inv", cls.__name__), lambda: cls(seq, details=det))
            observe_exception(("inv-exc", cls.__name__), lambda: cls(seq, ValueError("x"), det))
        observe_exception(("inv-nodetails", cls.__name__), lambda: cls(seq))
    attempt(("inv-noargs", cls.__name__), cls)


class CustomInvalid(errors.InvalidSequence):
    _msg = "custom {0} and again {0}"


class TwoFields(errors.IllegalSite):
    _msg = "needs two: {} {}"


for det in DETAILS:
    observe_exception("custom", lambda: CustomInvalid("SEQ", details=det))
    observe_exception("twofields", lambda: TwoFields("SEQ", details=det))

# -- DuplicateModules / UnusedModules
for cls in (errors.DuplicateModules, errors.UnusedModules):
    for n in range(0, 4):
        for det in DETAILS:
            ents = [Ent(rng.choice(IDS)) for _ in range(n)]
            observe_exception(("multi", cls.__name__, n), lambda: cls(*ents, details=det))
        ents = [Ent("m{}".format(i)) for i in range(n)]
        observe_exception(("multi-nodetails", cls.__name__, n), lambda: cls(*ents))
        observe_exception(("multi-extra-option", cls.__name__, n), lambda: cls(*ents, details="d", other=1))
        observe_exception(("multi-only-extra", cls.__name__, n), lambda: cls(*ents, other=1))
    # entities without a record, with and without (bad) details: which error wins?
    for det in DETAILS:
        observe_exception(("multi-norecord", cls.__name__), lambda: cls("a", Ent("b"), details=det))
        observe_exception(("multi-noid", cls.__name__), lambda: cls(Ent("b"), type("X", (), {"record": None})(), details=det))

# -- MissingModule
for ovhg in [Seq("ATGC"), "ATGC", "atgc", "{}", "{0}", None, 4, Seq(""), ("A", "B")]:
    for det in DETAILS:
        observe_exception("missing", lambda: errors.MissingModule(ovhg, details=det))
    observe_exception("missing-nodetails", lambda: errors.MissingModule(ovhg))
    observe_exception("missing-extra", lambda: errors.MissingModule(ovhg, foo=1))
attempt("missing-noargs", errors.MissingModule)
attempt("missing-toomany", errors.MissingModule, "A", "B")

# -- class level facts
for name in sorted(vars(errors)):
    obj = getattr(errors, name)
    if isinstance(obj, type) and issubclass(obj, BaseException):
        RESULTS.append(("class", name, [c.__name__ for c in obj.__mro__], sorted(k for k in vars(obj) if not k.startswith("__") or k in ("__str__", "__init__"))))

# -- warnings machinery with UnusedModules
for det in (None, "d", 3):
    def warn_it():
        warnings.warn(errors.UnusedModules(Ent("m1"), Ent("m2"), details=det))
    attempt("warn", warn_it)

    def warn_as_error():
        with warnings.catch_warnings():
            warnings.simplefilter("error")
            warnings.warn(errors.UnusedModules(Ent("m1"), details=det))
    attempt("warn-error", warn_as_error)


# -- real assemblies producing the errors (BpiI mock kit)
class MockVector(AbstractVector):
    cutter = BpiI


class MockModule(AbstractModule):
    cutter = BpiI


def bpi_module(rng, up, down, ident):
    core = "GAAGACTT" + up + rand_dna(rng, rng.randint(1, 25), "ACT") + down + "TTGTCTTC"
    return MockModule(make_record(rng, core, ident, backbone=rand_dna(rng, rng.randint(0, 20), "ACT")))


def bpi_vector(rng, start, end, ident):
    core = "CC" + start + "TTGTCTTC" + rand_dna(rng, rng.randint(1, 25), "ACT") + "GAAGACTT" + end + "GG"
    return MockVector(make_record(rng, core, ident, backbone=rand_dna(rng, rng.randint(0, 20), "ACT")))


OVHGS = ["ATGC", "CGTA", "AAAA", "CCCC", "GGAT", "TTTT", "GCAT", "ACTG"]
for i in range(400):
    n = rng.randint(1, 4)
    chain = rng.sample(OVHGS, n + 1)
    vec = bpi_vector(rng, chain[0], chain[-1] if rng.random() < 0.9 else chain[0], "vec{}".format(i))
    mods = [bpi_module(rng, chain[k], chain[k + 1], "mod{}_{}".format(i, k)) for k in range(n)]
    roll = rng.random()
    if roll < 0.2 and mods:
        mods.append(bpi_module(rng, mods[0].record and chain[0], rng.choice(OVHGS), "dup{}".format(i)))
    elif roll < 0.4 and len(mods) > 1:
        mods.pop(rng.randrange(len(mods)))
    elif roll < 0.6:
        a, b = rng.sample(OVHGS, 2)
        mods.append(bpi_module(rng, a, b, "extra{}".format(i)))
    elif roll < 0.65:
        mods.append(mods[0])
    rng.shuffle(mods)
    if mods:
        attempt(("assemble", i), vec.assemble, *mods)
    attempt(("valid", i), lambda: [vec.is_valid()] + [m.is_valid() for m in mods])

finish()
