# coding: utf-8
"""Differential test for the C17 refactorings.

Runs the structure matching / validation / assembly code on generated inputs
and prints a digest of every observable: results, exception types and messages,
warnings, and the state of the inputs afterwards.  The digest has to be the
same on the pristine tree and with clean.diff applied.
"""
import sys

sys.path.insert(0, "/tmp/agents5/C17")
import tests  # noqa: F401,E402

import copy  # noqa: E402
import hashlib  # noqa: E402
import importlib  # noqa: E402
import inspect  # noqa: E402
import random  # noqa: E402
import re  # noqa: E402
import warnings  # noqa: E402

from Bio.Restriction import AarI, BbsI, BpiI, BsaI, BsmBI, SapI  # noqa: E402
from Bio.Seq import Seq  # noqa: E402
from Bio.SeqFeature import FeatureLocation, Reference, SeqFeature  # noqa: E402
from Bio.SeqRecord import SeqRecord  # noqa: E402

from moclo import errors  # noqa: E402
from moclo._utils import isabstract  # noqa: E402
from moclo.core import modules, vectors  # noqa: E402
from moclo.core._structured import StructuredRecord  # noqa: E402
from moclo.record import CircularRecord  # noqa: E402
from moclo.regex import DNARegex  # noqa: E402

rng = random.Random(20260927)
IUPAC = "ACGTRYSWKMBDHVN"
lines = []
_ADDRESS = re.compile(r" at 0x[0-9a-fA-F]+")


def emit(*parts):
    lines.append(_ADDRESS.sub("", " | ".join(str(p) for p in parts)))


# --- describing values ------------------------------------------------------------


def describe_feature(feature):
    quals = sorted((k, repr(v)) for k, v in feature.qualifiers.items())
    return "{}@{}#{}{}".format(feature.type, feature.location, feature.id, quals)


def describe_record(rec):
    if rec is None:
        return "None"
    annotations = sorted((k, repr(v)) for k, v in rec.annotations.items())
    return "{}<{} id={} name={} desc={} dbx={} ann={} feats={} letters={}>".format(
        type(rec).__name__,
        str(rec.seq),
        rec.id,
        rec.name,
        rec.description,
        rec.dbxrefs,
        annotations,
        [describe_feature(f) for f in rec.features],
        sorted(rec.letter_annotations.items()),
    )


def describe(value):
    if isinstance(value, SeqRecord):
        return describe_record(value)
    if isinstance(value, Seq):
        return "Seq({})".format(str(value))
    return repr(value)


def outcome(func, *args, **kwargs):
    """Call and describe: result or exception, plus the warnings raised."""
    with warnings.catch_warnings(record=True) as caught:
        warnings.simplefilter("always")
        try:
            text = "-> " + describe(func(*args, **kwargs))
        except Exception as err:  # noqa
            attrs = sorted(
                (k, describe(v)) for k, v in vars(err).items() if k in ("details", "exc")
            )
            text = "!! {}.{}: {} {} cause={!r} suppress={}".format(
                type(err).__module__,
                type(err).__name__,
                err,
                attrs,
                err.__cause__,
                err.__suppress_context__,
            )
    seen = ["{}: {}".format(w.category.__name__, w.message) for w in caught]
    return "{} warnings={}".format(text, seen)


# --- generating inputs --------------------------------------------------------------


def kit_classes():
    found = []
    for kit in ["ytk", "cidar", "ecoflex", "moclo", "plant"]:
        mod = importlib.import_module("moclo.kits." + kit)
        for _, obj in sorted(vars(mod).items()):
            if (
                inspect.isclass(obj)
                and issubclass(obj, StructuredRecord)
                and obj.__module__ == mod.__name__
                and not isabstract(obj)
            ):
                found.append(obj)
    return found


def generic_classes():
    found = []
    for enzyme in (AarI, BbsI, BpiI, BsaI, BsmBI, SapI):
        for base in (modules.AbstractModule, vectors.AbstractVector):
            name = str("Generic{}{}".format(base.__name__[8:], enzyme.__name__))
            found.append(type(name, (base,), {"cutter": enzyme}))
    return found


def instance_of(structure):
    out = []
    for token in re.findall(r"N\*\??|[A-Z]", structure.replace("(", "").replace(")", "")):
        if token.startswith("N*"):
            out.append("".join(rng.choice("AT") for _ in range(rng.randint(4, 12))))
        elif token == "N":
            out.append(rng.choice("ACGT"))
        else:
            out.append(token)
    return "".join(out)


def random_text(length, alphabet=IUPAC):
    return "".join(rng.choice(alphabet) for _ in range(length))


def mixed_case(text):
    return "".join(c.lower() if rng.random() < 0.5 else c for c in text)


def corrupt(text):
    i = rng.randrange(len(text))
    other = rng.choice([c for c in IUPAC if c != text[i].upper()])
    return text[:i] + other + text[i + 1 :]


def rotate(text, by=None):
    by = rng.randrange(len(text)) if by is None else by % len(text)
    return text[by:] + text[:by]


def references(n):
    refs = []
    for i in range(n):
        ref = Reference()
        ref.title = "Reference number {}".format(i + 1)
        ref.authors = "Doe J."
        refs.append(ref)
    return refs


def annotated(text, name, kind=CircularRecord, n_refs=0, citations=(), topology=None):
    rec = kind(Seq(text), id=name, name=name + "_name", description=name + " description")
    rec.annotations["molecule_type"] = "DNA"
    if topology is not None:
        rec.annotations["topology"] = topology
    if n_refs:
        rec.annotations["references"] = references(n_refs)
    size = len(text)
    rec.features.append(
        SeqFeature(FeatureLocation(0, size), type="source", qualifiers={"organism": [name]})
    )
    for k, cited in enumerate(citations):
        lo = (3 + 5 * k) % max(size - 4, 1)
        rec.features.append(
            SeqFeature(
                FeatureLocation(lo, min(lo + 9, size), strand=1 if k % 2 else -1),
                type="misc_feature",
                id="f{}".format(k),
                qualifiers={"label": ["feat{}".format(k)], "citation": list(cited)},
            )
        )
    rec.letter_annotations["phred_quality"] = [(7 * i) % 41 for i in range(size)]
    return rec


# --- 1. DNARegex / SeqMatch -------------------------------------------------------

patterns = ["AA(NN)", "GGTCTCN(NNNN)(NN*N)(NNNN)NGAGACC", "(RY)(N*?)(SW)", "N(NNNN)(NNGTCTTCN*GAAGACNN)(NNNN)N"]
for pattern in patterns:
    rx = DNARegex(pattern)
    emit("regex", pattern, rx.pattern, rx.regex.pattern, rx.regex.flags)
    for trial in range(24):
        if trial % 3 == 0:
            text = rotate(instance_of(pattern.replace("R", "A").replace("Y", "C").replace("S", "G").replace("W", "T")) + random_text(rng.randint(0, 9), "AT"))
        else:
            text = random_text(rng.randint(1, 40), "ACGT" if trial % 3 == 1 else IUPAC)
        if trial % 4 == 0:
            text = mixed_case(text)
        subjects = [
            ("Seq", Seq(text), {}),
            ("Seq circular", Seq(text), {"linear": False}),
            ("SeqRecord", SeqRecord(Seq(text), id="s"), {}),
            ("SeqRecord circular", SeqRecord(Seq(text), id="s"), {"linear": False}),
            ("CircularRecord", CircularRecord(Seq(text), id="c"), {}),
            ("windowed", Seq(text), {"pos": rng.randint(0, 5), "endpos": rng.randint(3, 30)}),
            ("windowed circular", CircularRecord(Seq(text), id="c"), {"pos": rng.randint(0, 5)}),
        ]
        for label, subject, kwargs in subjects:
            match = rx.search(subject, **kwargs)
            if match is None:
                emit("search", pattern, label, text, sorted(kwargs.items()), None)
                continue
            groups = [
                (match.span(i), describe(match.group(i)))
                for i in range(match.match.re.groups + 1)
            ]
            emit("search", pattern, label, text, sorted(kwargs.items()), match.start(), match.end(), match.shift, match.rec is subject, groups)
    for bad in ("ATGC", b"ATGC", None, 12, ["A"]):
        emit("search bad", pattern, outcome(rx.search, bad))

# --- 2. error classes ---------------------------------------------------------------


class _Named(object):
    def __init__(self, name):
        self.record = SeqRecord(Seq("A"), id=name)


for details in (None, "some details", "", "curly {} details"):
    for cls in (errors.InvalidSequence, errors.IllegalSite):
        err = cls(Seq("ATGC"), details=details)
        emit("error", cls.__name__, details, outcome(str, err), cls.__mro__)
        emit("error", cls.__name__, details, outcome(str, cls(SeqRecord(Seq("AT"), id="x"), None, details)))
    emit("error", outcome(str, errors.DuplicateModules(_Named("a"), _Named("b"), details=details)))
    emit("error", outcome(str, errors.MissingModule(Seq("ATGC"), details=details)))
    emit("error", outcome(str, errors.UnusedModules(_Named("a"), _Named("b"), details=details)))
emit("error", outcome(str, errors.UnusedModules(_Named("a"), details=12)))
emit("error", outcome(str, errors.DuplicateModules(_Named("a"), details=12)))
emit("error", outcome(str, errors.MissingModule("ATGC", details=12)))
emit("error", outcome(str, errors.InvalidSequence("ATGC", details=12)))
emit("error", outcome(str, errors.DuplicateModules("a", "b")))

# --- 3. every class on valid / invalid / illegal records -------------------------------

ACCESSORS = ("is_valid", "overhang_start", "overhang_end", "target_sequence", "placeholder_sequence", "is_valid")
classes = kit_classes() + generic_classes()
emit("classes", [c.__name__ for c in classes])
for cls in classes:
    structure = cls.structure()
    emit("structure", cls.__name__, structure)
    good = instance_of(structure) + random_text(rng.randint(0, 15), "AT")
    site = cls.cutter.site
    texts = [
        ("instance", good),
        ("rotated", rotate(good)),
        ("rotated by one", rotate(good, 1)),
        ("rotated mixed case", mixed_case(rotate(good))),
        ("lower", good.lower()),
        ("corrupted", corrupt(good)),
        ("corrupted rotated", rotate(corrupt(good))),
        ("extra site", good + "AATT" + site + "TTAATT"),
        ("extra site rotated", rotate(good + "AATT" + site + "TTAATT")),
        ("random", random_text(rng.randint(1, 70))),
        ("random lower", random_text(rng.randint(1, 30)).lower()),
        ("short", random_text(rng.randint(1, 4), "ACGT")),
        ("truncated", good[: len(good) // 2]),
    ]
    for what, text in texts:
        rec = annotated(text, "r", citations=[["[1]"]], n_refs=1)
        before = describe_record(rec)
        entity = cls(rec)
        results = []
        for accessor in ACCESSORS:
            method = getattr(entity, accessor, None)
            if method is not None:
                results.append((accessor, outcome(method)))
        emit("entity", cls.__name__, what, text, results, before == describe_record(rec))
    # other record kinds / topologies
    for what, rec in [
        ("plain SeqRecord", annotated(good, "p", kind=SeqRecord)),
        ("plain SeqRecord rotated", annotated(rotate(good), "p", kind=SeqRecord)),
        ("plain SeqRecord linear", annotated(rotate(good), "p", kind=SeqRecord, topology="linear")),
        ("plain SeqRecord LINEAR", annotated(good, "p", kind=SeqRecord, topology="LINEAR")),
        ("plain SeqRecord Circular", annotated(rotate(good), "p", kind=SeqRecord, topology="Circular")),
        ("circular annotated", annotated(rotate(good), "p", topology="circular")),
    ]:
        before = describe_record(rec)
        entity = cls(rec)
        results = [(a, outcome(getattr(entity, a))) for a in ACCESSORS if hasattr(entity, a)]
        emit("entity", cls.__name__, what, results, before == describe_record(rec))

# --- 4. assemblies -------------------------------------------------------------------


class Vec(vectors.AbstractVector):
    cutter = BpiI


class Mod(modules.AbstractModule):
    cutter = BpiI


class SapVec(vectors.AbstractVector):
    cutter = SapI


class SapMod(modules.AbstractModule):
    cutter = SapI


def module_text(start, end, body="CACA", tail="AATTAATT"):
    return "GAAGACTT" + start + body + end + "TTGTCTTC" + tail


def vector_text(takes_from, gives_to):
    # a vector whose overhang_end is ``takes_from`` and overhang_start ``gives_to``
    return "CC" + takes_from + "TTGTCTTCCACAGAAGACTT" + gives_to + "GG"


MODULES = {
    "ok": module_text("ATGC", "CGTA"),
    "first": module_text("ATGC", "GGAA", "CATTAC"),
    "second": module_text("GGAA", "TTCA", "TATA"),
    "third": module_text("TTCA", "CGTA", "GAGA"),
    "twin": module_text("ATGC", "CGTA", "GTGT"),
    "revcomp": module_text("GCAT", "CCCC"),
    "palindrome": module_text("ACGT", "CGTA"),
    "dangling": module_text("ATGC", "TTTT"),
    "spare": module_text("AAAA", "CCCC"),
    "lower": module_text("ATGC", "CGTA").lower(),
    "mixed": mixed_case(module_text("GGAA", "CGTA", "TATATA")),
    "rotated": rotate(module_text("ATGC", "CGTA", "CATCAT"), 11),
    "illegal": module_text("ATGC", "CGTA", "CAGAAGACTTCA"),
    "random": random_text(40),
    "short": "ATG",
    "near": module_text("ATGC", "CGTA").replace("GAAGAC", "GAAGAR"),
    "ambiguous": module_text("ANGC", "CGTA"),
}
VECTORS = {
    "v": vector_text("ATGC", "CGTA"),
    "v lower": vector_text("ATGC", "CGTA").lower(),
    "v rotated": rotate(vector_text("ATGC", "CGTA"), 13),
    "v same": vector_text("ATGC", "ATGC"),
    "v same mixed": vector_text("ATGC", "atgc"),
    "v random": random_text(33),
    "v short": "A",
    "v near": vector_text("ATGC", "CGTA").replace("GTCTTC", "GTCTTN"),
    "v illegal": vector_text("ATGC", "CGTA") + "TTGAAGACTT",
}
COMBOS = [
    ["ok"], ["lower"], ["rotated"], ["first", "second", "third"], ["third", "first", "second"],
    ["first", "mixed"], ["first", "second"], ["first"], ["second", "third"], ["ok", "twin"],
    ["ok", "ok"], ["ok", "revcomp"], ["revcomp", "ok"], ["palindrome"], ["ok", "palindrome"],
    ["ok", "spare"], ["first", "second", "third", "spare", "dangling"], ["dangling"],
    ["ok", "illegal"], ["illegal"], ["ok", "random"], ["random", "ok"], ["short"], ["near"],
    ["ambiguous"], ["first", "second", "third", "short"], ["ok", "lower"], ["spare"],
]
names = sorted(MODULES)
for _ in range(40):
    COMBOS.append(rng.sample(names, rng.randint(1, 4)))

case_no = 0
for vname in sorted(VECTORS):
    usable = vname in ("v", "v lower", "v rotated")
    for chosen in COMBOS if usable else COMBOS[:3] + COMBOS[-6:]:
        case_no += 1
        flavour = case_no % 4
        # flavour 1: citations everywhere; 2: plain SeqRecord modules; 3: a broken citation
        mods = []
        for k, name in enumerate(chosen):
            kind = SeqRecord if flavour == 2 and k == 0 else CircularRecord
            if flavour == 1:
                rec = annotated(MODULES[name], name, kind, n_refs=2, citations=[["[2]"], ["[1]", "[2]"]])
            elif flavour == 3 and k == len(chosen) - 1:
                cited = [["[1]"], ["[x]"]] if case_no % 8 == 3 else [["[1]"], ["[5]"]]
                rec = annotated(MODULES[name], name, kind, n_refs=1, citations=cited)
            else:
                rec = annotated(MODULES[name], name, kind, n_refs=1, citations=[["[1]"]])
            mods.append(Mod(rec))
        vrec = annotated(VECTORS[vname], vname.replace(" ", "_"), n_refs=2, citations=[["[1]"], ["[2]"]], topology="circular" if case_no % 3 else None)
        vector = Vec(vrec)
        before = [describe_record(m.record) for m in mods] + [describe_record(vrec)]
        kwargs = {} if case_no % 5 else {"id": "construct{}".format(case_no), "name": "made"}
        result = outcome(vector.assemble, *mods, **kwargs)
        after = [describe_record(m.record) for m in mods] + [describe_record(vrec)]
        emit("assembly", vname, chosen, flavour, sorted(kwargs.items()), result)
        emit("inputs untouched", before == after, hashlib.sha256(repr(after).encode()).hexdigest()[:16])
        # a second run on the very same objects
        emit("again", outcome(vector.assemble, *mods, **kwargs))

# the same module object given twice, and entities reused across assemblies
shared = Mod(annotated(MODULES["ok"], "shared", n_refs=1, citations=[["[1]"]]))
for vname in ("v", "v rotated", "v same", "v short"):
    vector = Vec(annotated(VECTORS[vname], "vec", n_refs=1, citations=[["[1]"]]))
    emit("shared", vname, outcome(vector.assemble, shared, shared), describe_record(shared.record))
    emit("shared", vname, outcome(vector.assemble, shared, Mod(shared.record)))

# a 3-nt overhang enzyme
sap_vector = instance_of(SapVec.structure()) + "ATAT"
sap_probe = SapVec(CircularRecord(Seq(sap_vector), id="probe"))
sap_from, sap_to = str(sap_probe.overhang_end()), str(sap_probe.overhang_start())
sap_module = "GCTCTTCA" + sap_from + "CACACAGG" + sap_to + "TGAAGAGCAATT"
sap_other = "GCTCTTCA" + sap_from + "CACACAGG" + "ACG" + "TGAAGAGCAATT"
emit("sap setup", sap_vector, sap_from, sap_to, SapVec.structure(), SapMod.structure())
for text_v in (sap_vector, rotate(sap_vector, 7), sap_vector.lower()):
    for text_m in (sap_module, rotate(sap_module, 20), mixed_case(sap_module), sap_other, random_text(30)):
        vector = SapVec(annotated(text_v, "sapv"))
        module = SapMod(annotated(text_m, "sapm"))
        emit("sap", text_v, text_m, outcome(vector.is_valid), outcome(module.is_valid),
             outcome(vector.overhang_start), outcome(vector.overhang_end),
             outcome(module.overhang_start), outcome(module.overhang_end),
             outcome(vector.assemble, module))

digest = hashlib.sha256("\n".join(lines).encode("utf-8")).hexdigest()
kinds = {}
for line in lines:
    key = line.split(" | ", 1)[0]
    kinds[key] = kinds.get(key, 0) + 1
raised = sum(1 for line in lines if "!! " in line)
print("observations: {} ({} with an exception) {}".format(len(lines), raised, sorted(kinds.items())))
print("digest: {}".format(digest))
if "--dump" in sys.argv:
    with open(sys.argv[sys.argv.index("--dump") + 1], "w") as handle:
        handle.write("\n".join(lines))
