# coding: utf-8
"""Differential test for the rewrite of ``moclo.core.modules`` / ``vectors``.

Digests ``structure()``, ``is_valid()``, the overhangs, ``target_sequence()``
and ``placeholder_sequence()`` of generated modules and vectors for every
usable restriction enzyme (5' and 3' overhangs), on records that are rotated,
lower/mixed case, linear or circular, valid or not; then the same on the
records of the official kits and on a few hundred small assemblies.
"""
import hashlib
import random
import re
import sys
import warnings

sys.path.insert(0, "/tmp/agentsR4/R18")
warnings.simplefilter("ignore")
import tests  # noqa: E402,F401

from Bio import Restriction  # noqa: E402
from Bio.Seq import Seq  # noqa: E402
from Bio.SeqFeature import SeqFeature, FeatureLocation  # noqa: E402
from Bio.SeqRecord import SeqRecord  # noqa: E402

from moclo import errors  # noqa: E402
from moclo.record import CircularRecord  # noqa: E402
from moclo.core import (  # noqa: E402
    AbstractModule, AbstractVector, Product, Entry, Cassette, Device,
    EntryVector, CassetteVector, DeviceVector,
)
from moclo.core._structured import StructuredRecord  # noqa: E402

rng = random.Random(1806)
KEEP = []

IUPAC = {
    "A": "A", "C": "C", "G": "G", "T": "T", "N": "ACGT", "R": "AG", "Y": "CT", "K": "GT",
    "M": "AC", "S": "CG", "W": "AT", "B": "CGT", "D": "AGT", "H": "ACT", "V": "ACG",
}


def attempt(fn):
    try:
        return ("ok", fn())
    except Exception as exc:  # noqa: B902
        return ("err", type(exc).__name__, str(exc))


def dna(n, alphabet="ACGT"):
    return "".join(rng.choice(alphabet) for _ in range(n))


def dump_record(rec):
    if not isinstance(rec, SeqRecord):
        return repr(rec)
    return (
        type(rec).__name__,
        str(rec.seq),
        rec.id,
        sorted((k, repr(v)) for k, v in rec.annotations.items()),
        [(f.type, repr(f.location), sorted((k, repr(v)) for k, v in f.qualifiers.items())) for f in rec.features],
    )


def probe(entity):
    """Everything observable on a module or a vector, twice (cached match)."""
    out = []
    for _ in range(2):
        out.append(attempt(entity.is_valid))
        out.append(attempt(lambda: str(entity.overhang_start())))
        out.append(attempt(lambda: str(entity.overhang_end())))
        out.append(attempt(lambda: dump_record(entity.target_sequence())))
        if hasattr(entity, "placeholder_sequence"):
            out.append(attempt(lambda: dump_record(entity.placeholder_sequence())))
        out.append(attempt(lambda: entity._match.span(0)))
    out.append(dump_record(entity.record))
    return out


def instantiate(structure, body):
    """Write a sequence matching the structure pattern."""
    text = structure.replace("N*", "*").replace("(", "").replace(")", "")
    return "".join(body if c == "*" else rng.choice(IUPAC.get(c, "A")) for c in text)


def variants(text, idx):
    """Records around the same sequence: rotated, recased, linear, annotated."""
    n = len(text)
    feats = [SeqFeature(FeatureLocation(0, n), type="source", qualifiers={"plasmid": "p"})]
    if n > 6:
        feats.append(SeqFeature(FeatureLocation(2, n - 2, 1), type="CDS", qualifiers={"label": ["x"]}))
    yield CircularRecord(Seq(text), id="c{}".format(idx), features=feats)
    k = rng.randint(1, max(n - 1, 1))
    yield CircularRecord(Seq(text[k:] + text[:k]), id="r{}".format(idx), features=feats[:1])
    yield CircularRecord(Seq(text.lower()), id="l{}".format(idx)) >> rng.randint(0, 2 * n)
    mixed = "".join(c.lower() if rng.random() < 0.5 else c for c in text)
    yield SeqRecord(Seq(mixed), id="s{}".format(idx))
    yield SeqRecord(Seq(text), id="lin{}".format(idx), annotations={"topology": "linear"})
    yield SeqRecord(Seq(text[k:] + text[:k]), id="linrot{}".format(idx), annotations={"topology": "Linear"})
    yield CircularRecord(Seq(text), id="topo{}".format(idx), annotations={"topology": "CIRCULAR"})


results = []

# 1. every enzyme of the Biopython collection ------------------------------------------------
enzymes = [getattr(Restriction, name) for name in sorted(Restriction.AllEnzymes.elements())]
usable = []
for enz in enzymes:
    res = attempt(lambda: (enz.is_blunt(), enz.is_unknown(), enz.is_3overhang(), enz.is_5overhang()))
    mod_cls = type(str("M" + enz.__name__), (AbstractModule,), {"cutter": enz})
    vec_cls = type(str("V" + enz.__name__), (AbstractVector,), {"cutter": enz})
    KEEP.extend([mod_cls, vec_cls])
    results.append((enz.__name__, res, attempt(mod_cls.structure), attempt(vec_cls.structure),
                    attempt(lambda: type(mod_cls(None)).__name__)))
    if res[0] == "ok" and not res[1][0] and not res[1][1]:
        usable.append((enz, mod_cls, vec_cls))

# a sample of usable enzymes: all Type IIS-like ones plus some palindromic ones
typeIIS = [u for u in usable if u[0].fst5 > u[0].size or u[0].fst5 < 0]
others = [u for u in usable if u not in typeIIS]
sample = typeIIS[::2] + rng.sample(others, 25)
idx = 0
count3 = 0
for enz, mod_cls, vec_cls in sample:
    count3 += bool(enz.is_3overhang())
    for cls in (mod_cls, vec_cls):
        structure = attempt(cls.structure)
        if structure[0] != "ok":
            continue
        for _ in range(2):
            idx += 1
            body = dna(rng.randint(0, 12), "AT")
            text = instantiate(structure[1], body) + dna(rng.randint(0, 8), "AT")
            for rec in variants(text, idx):
                results.append((enz.__name__, cls.__name__, rec.id, attempt(lambda: probe(cls(rec)))))
        # an unrelated sequence
        idx += 1
        rec = CircularRecord(Seq(dna(rng.randint(1, 40), "AT")), id="none{}".format(idx))
        results.append((enz.__name__, cls.__name__, rec.id, attempt(lambda: probe(cls(rec)))))

# 2. the concrete level classes, custom structures, illegal sites ---------------------------------
for base in (Product, Entry, Cassette, Device, EntryVector, CassetteVector, DeviceVector):
    for enz in (Restriction.BsaI, Restriction.BsmBI, Restriction.BpiI, Restriction.SapI):
        cls = type(str(base.__name__ + enz.__name__), (base,), {"cutter": enz})
        KEEP.append(cls)
        results.append((cls.__name__, cls._level, cls.structure()))
        body = dna(rng.randint(2, 10), "AT")
        text = instantiate(cls.structure(), body) + dna(5, "AT")
        idx += 1
        for rec in variants(text, idx):
            results.append((cls.__name__, rec.id, attempt(lambda: probe(cls(rec)))))
        # a second site inside of the body makes the sequence illegal
        illegal = instantiate(cls.structure(), "AA" + enz.site + "AA") + "TT"
        results.append((cls.__name__, "illegal", attempt(lambda: probe(cls(CircularRecord(Seq(illegal), id="ill"))))))
        results.append(attempt(lambda: cls(CircularRecord(Seq(illegal), id="ill"))._match))
    results.append(attempt(lambda: base(None)))
    results.append(attempt(lambda: base.structure()))


class CustomModule(AbstractModule):
    cutter = Restriction.BsaI

    @classmethod
    def structure(cls):
        return "GGTCTCN(AATG)(NN*N)(GCTT)NGAGACC"


class CustomVector(AbstractVector):
    cutter = Restriction.BsaI

    @classmethod
    def structure(cls):
        return "(AATG)(NGAGACCN*?GGTCTCN)(GCTT)"


class Undecided(StructuredRecord):
    @classmethod
    def structure(cls):
        return "(ATG)(N*)(TAA)"


for cls in (CustomModule, CustomVector, Undecided):
    for _ in range(15):
        idx += 1
        body = dna(rng.randint(0, 9), "AT")
        text = instantiate(cls.structure().replace("N*?", "N*"), body) + dna(rng.randint(0, 6), "AT")
        if rng.random() < 0.3:
            text = text.replace("AATG", "AATC", 1)
        for rec in variants(text, idx):
            if cls is Undecided:
                results.append((cls.__name__, rec.id, attempt(lambda: cls(rec).is_valid()),
                                attempt(lambda: cls(rec)._match.span())))
            else:
                results.append((cls.__name__, rec.id, attempt(lambda: probe(cls(rec)))))

# records with unusual annotations
for topo in (None, 1, "", "circular ", b"circular"):
    rec = SeqRecord(Seq("GGTCTCAAATGTTTTGCTTTGAGACC"), id="odd", annotations={"topology": topo})
    results.append((repr(topo), attempt(lambda: probe(CustomModule(rec)))))

# 3. official kits ---------------------------------------------------------------------------------
import moclo.registry.ytk  # noqa: E402
import moclo.registry.cidar  # noqa: E402
import moclo.registry.ecoflex  # noqa: E402

for registry_cls in (moclo.registry.ytk.YTKRegistry, moclo.registry.cidar.CIDARRegistry,
                     moclo.registry.ecoflex.EcoFlexRegistry):
    registry = registry_cls()
    for key in sorted(registry):
        entity = registry[key].entity
        fresh = type(entity)(entity.record)
        out = [type(entity).__name__, attempt(fresh.is_valid), attempt(lambda: str(fresh.overhang_start())),
               attempt(lambda: str(fresh.overhang_end())),
               attempt(lambda: hashlib.md5(repr(dump_record(fresh.target_sequence())).encode()).hexdigest())]
        if hasattr(fresh, "placeholder_sequence"):
            out.append(attempt(lambda: hashlib.md5(repr(dump_record(fresh.placeholder_sequence())).encode()).hexdigest()))
        results.append((key, out))

# 4. assemblies --------------------------------------------------------------------------------------
for enz in (Restriction.BsaI, Restriction.BpiI, Restriction.BsmBI, Restriction.SapI):
    mod_cls = type(str("AM" + enz.__name__), (AbstractModule,), {"cutter": enz})
    vec_cls = type(str("AV" + enz.__name__), (AbstractVector,), {"cutter": enz})
    KEEP.extend([mod_cls, vec_cls])
    n = abs(enz.ovhg)
    for it in range(40):
        k = rng.randint(1, 3)
        ovs = []
        while len(ovs) < k + 1:
            o = dna(n)
            rc = str(Seq(o).reverse_complement())
            if o != rc and o not in ovs and rc not in ovs:
                ovs.append(o)

        def fill(cls, first, last):
            text = instantiate(cls.structure(), dna(rng.randint(2, 9), "AT"))
            m = re.match("(?i)" + cls.structure().replace("N", "[ACGT]"), text)
            text = text[: m.start(1)] + first + text[m.end(1): m.start(3)] + last + text[m.end(3):]
            text += dna(rng.randint(0, 7), "AT")
            j = rng.randint(0, len(text))
            return text[j:] + text[:j]

        modules = [
            mod_cls(CircularRecord(Seq(fill(mod_cls, ovs[j], ovs[j + 1])), id="m{}_{}".format(it, j)))
            for j in range(k)
        ]
        vector = vec_cls(CircularRecord(Seq(fill(vec_cls, ovs[0], ovs[k])), id="v{}".format(it)))
        if it % 5 == 4:
            modules.pop()
        rng.shuffle(modules)
        with warnings.catch_warnings(record=True) as caught:
            warnings.simplefilter("always")
            res = attempt(lambda: dump_record(vector.assemble(*modules))) if modules else None
            results.append((enz.__name__, it, res, [(w.category.__name__, str(w.message)) for w in caught]))

blob = re.sub(r" at 0x[0-9a-fA-F]+", " at 0x?", repr(results)).encode("utf-8")
print(len(results), len(sample), count3, hashlib.sha256(blob).hexdigest())
