# coding: utf-8
"""Differential test for the code behind property C19.

Exercises DNARegex / SeqMatch, StructuredRecord matching, the module and
vector segment extraction, CircularRecord rotation and AssemblyManager on a
few hundred generated inputs and prints a digest of every result, exception
(type and message), warning and of the state of the inputs afterwards.
The digest has to be the same before and after a behaviour-preserving
refactoring.
"""
import sys

sys.path.insert(0, "/tmp/agents5/C19")
import tests  # noqa: F401,E402

import copy  # noqa: E402
import hashlib  # noqa: E402
import random  # noqa: E402
import re  # noqa: E402
import warnings  # noqa: E402

from Bio.Restriction import BsaI, BpiI, BsmBI, SapI, BtsI, BseRI  # noqa: E402
from Bio.Seq import Seq  # noqa: E402
from Bio.SeqFeature import (  # noqa: E402
    SeqFeature,
    FeatureLocation,
    CompoundLocation,
    Reference,
)
from Bio.SeqRecord import SeqRecord  # noqa: E402

from moclo.core import AbstractModule, AbstractVector, AbstractPart  # noqa: E402
from moclo.core import Entry, EntryVector  # noqa: E402
from moclo.record import CircularRecord  # noqa: E402
from moclo.regex import DNARegex, SeqMatch  # noqa: E402

RNG = random.Random(190019)
LINES = []


def emit(*items):
    LINES.append(" | ".join(str(i) for i in items))


# --- digests ----------------------------------------------------------------


def dig_ref(ref):
    if isinstance(ref, Reference):
        return "Ref<{}>".format(ref.title)
    return repr(ref)


def dig_quals(quals):
    out = []
    for key in sorted(quals):
        val = quals[key]
        if isinstance(val, list):
            val = [dig_ref(v) for v in val]
        else:
            val = dig_ref(val)
        out.append((key, val))
    return out


def dig_feature(feat):
    return (feat.type, str(feat.location), feat.id, dig_quals(feat.qualifiers))


def dig_annotations(ants):
    out = []
    for key in sorted(ants):
        val = ants[key]
        if key == "references":
            val = [dig_ref(v) for v in val]
        out.append((key, val))
    return out


def dig_record(rec):
    if rec is None:
        return "None"
    if isinstance(rec, Seq):
        return ("Seq", str(rec))
    if not isinstance(rec, SeqRecord):
        return (type(rec).__name__, repr(rec))
    return (
        type(rec).__name__,
        str(rec.seq),
        rec.id,
        rec.name,
        rec.description,
        list(rec.dbxrefs),
        [dig_feature(f) for f in rec.features],
        dig_annotations(rec.annotations),
        sorted((k, list(v)) for k, v in rec.letter_annotations.items()),
    )


def attempt(label, func, *inputs):
    """Run ``func``, record outcome, warnings and the inputs' state."""
    with warnings.catch_warnings(record=True) as caught:
        warnings.simplefilter("always")
        try:
            result = ("ok", func())
        except Exception as exc:  # noqa: B902
            text = re.sub(r" at 0x[0-9a-fA-F]+", " at 0x?", str(exc))
            result = ("raise", type(exc).__name__, text)
    warned = [(type(w.message).__name__, str(w.message)) for w in caught]
    emit(label, result, warned, [dig_record(i) for i in inputs])
    return result


# --- generators -------------------------------------------------------------

SITES = ["GGTCTC", "GAGACC", "GAAGAC", "GTCTTC", "CGTCTC", "GAGACG",
         "GCTCTTC", "GAAGAGC", "GCAGTG", "CACTGC", "GAGGAG", "CTCCTC"]


def randseq(n, alphabet="ACGT"):
    while True:
        s = "".join(RNG.choice(alphabet) for _ in range(n))
        if not any(site in (s + s).upper() for site in SITES):
            return s


def mixcase(s, p=0.5):
    return "".join(c.lower() if RNG.random() < p else c for c in s)


def rc(s):
    return str(Seq(s).reverse_complement())


def overhangs(k, size):
    """k distinct overhangs, no palindromes, no two reverse complements."""
    out = []
    while len(out) < k:
        o = randseq(size)
        if o == rc(o) or o in out or rc(o) in out:
            continue
        out.append(o)
    return out


def features_for(n, tag):
    feats = []
    for j in range(RNG.randint(0, 3)):
        a = RNG.randrange(0, n)
        b = RNG.randrange(a, n) + 1
        feats.append(
            SeqFeature(
                FeatureLocation(a, b, RNG.choice([1, -1, None])),
                type=RNG.choice(["CDS", "misc_feature", "promoter", "source"]),
                qualifiers={"label": ["{}-{}".format(tag, j)]},
            )
        )
    if n > 12 and RNG.random() < 0.3:
        feats.append(
            SeqFeature(
                CompoundLocation(
                    [FeatureLocation(n - 5, n, 1), FeatureLocation(0, 4, 1)]
                ),
                type="misc_feature",
                qualifiers={"label": ["{}-wrap".format(tag)]},
            )
        )
    if RNG.random() < 0.2:
        feats.append(
            SeqFeature(FeatureLocation(0, n), type="source", qualifiers={"label": [tag]})
        )
    return feats


def make_record(seq, rid, kind="circular", annotate=True):
    feats = features_for(len(seq), rid) if annotate else []
    if kind == "circular":
        rec = CircularRecord(Seq(seq), id=rid, name=rid, features=feats)
    elif kind == "circular-topo":
        rec = CircularRecord(
            Seq(seq), id=rid, name=rid, features=feats,
            annotations={"topology": RNG.choice(["circular", "Circular"])},
        )
    elif kind == "plain":
        rec = SeqRecord(Seq(seq), id=rid, name=rid, features=feats)
    elif kind == "plain-linear":
        rec = SeqRecord(
            Seq(seq), id=rid, name=rid, features=feats,
            annotations={"topology": "linear"},
        )
    elif kind == "circular-linear":
        rec = CircularRecord(Seq(seq), id=rid, name=rid, features=feats)
        rec.annotations["topology"] = "linear"
    else:
        raise AssertionError(kind)
    return rec


def rotate_text(s, r):
    r %= len(s)
    return s[r:] + s[:r]


class Kit(object):
    """Generic module / vector classes and text builders for one enzyme."""

    def __init__(self, cutter):
        self.cutter = cutter
        site = cutter.site
        self.site, self.rsite = site, rc(site)
        elu = cutter.elucidate()
        self.gap = elu.index("^") - len(site) if cutter.is_5overhang() else None
        self.ovsize = len(cutter.ovhgseq)
        self.Module = type(str("M" + cutter.__name__), (AbstractModule,), {"cutter": cutter})
        self.Vector = type(str("V" + cutter.__name__), (AbstractVector,), {"cutter": cutter})

    def module_text(self, up, target, down, backbone):
        g = self.gap
        return "".join(
            [self.site, randseq(g), up, target, down, randseq(g), self.rsite, backbone]
        )

    def vector_text(self, up, down, placeholder, backbone):
        # a vector receives a chain that starts with `down`... ends with `up`
        g = self.gap
        return "".join(
            [randseq(1), down, randseq(g), self.rsite, placeholder,
             self.site, randseq(g), up, randseq(1), backbone]
        )


KITS = [Kit(BsaI), Kit(BpiI), Kit(BsmBI), Kit(SapI)]


# --- 1. regex ---------------------------------------------------------------


def section_regex():
    patterns = ["AA(NN)", "(A)(N*)(T)", "GG(N)(NN*N)(N)CC", "(R)(Y)(S)(W)", "A(C)?(G)",
                "(NNNN)", "T(N*)A(N*)"]
    for n in range(120):
        pat = RNG.choice(patterns)
        size = RNG.randint(1, 14)
        text = mixcase("".join(RNG.choice("ACGT") for _ in range(size)), 0.3)
        kind = RNG.choice(["seq", "plain", "circular"])
        if kind == "seq":
            subject = Seq(text)
        elif kind == "plain":
            subject = SeqRecord(Seq(text), id="s{}".format(n))
        else:
            subject = CircularRecord(Seq(text), id="s{}".format(n))
        kwargs = {}
        if RNG.random() < 0.7:
            kwargs["linear"] = RNG.choice([True, False])
        if RNG.random() < 0.3:
            kwargs["pos"] = RNG.randint(0, size)
        if RNG.random() < 0.3:
            kwargs["endpos"] = RNG.randint(0, size + 2)

        def run():
            m = DNARegex(pat).search(subject, **kwargs)
            if m is None:
                return None
            out = [m.start(), m.end()]
            for g in range(m.match.re.groups + 1):
                out.append((m.span(g), dig_record(m.group(g))))
            return out

        attempt("regex", lambda: (pat, text, kind, sorted(kwargs.items()), run()))
    for bad in ["ACGT", 12, None, b"ACGT", ["A"]]:
        attempt("regex-type", lambda: DNARegex("NN").search(bad))
    # every placement of a group relative to the end of the record
    import re as _re

    for size in (4, 7):
        text = "".join(RNG.choice("ACGT") for _ in range(size))
        for kind in ("seq", "circular"):
            rec = Seq(text) if kind == "seq" else CircularRecord(Seq(text), id="w")
            for a in range(0, 2 * size + 1):
                for b in range(a, 2 * size + 1):
                    rx = _re.compile("(?s).{%d}(.{%d})" % (a, b - a))
                    m = rx.match(text * 2)
                    sm = SeqMatch(m, rec)
                    attempt("group", lambda: (kind, text, a, b, dig_record(sm.group(1)),
                                              dig_record(sm.group(0))))


# --- 2. structured records ---------------------------------------------------


def describe(entity):
    out = []
    for name in ("is_valid", "overhang_start", "overhang_end", "target_sequence",
                 "placeholder_sequence"):
        meth = getattr(entity, name, None)
        if meth is None:
            continue
        try:
            val = meth()
            out.append((name, dig_record(val) if not isinstance(val, bool) else val))
        except Exception as exc:  # noqa: B902
            out.append((name, "raise", type(exc).__name__, str(exc)))
    return out


def section_structured():
    kinds = ["circular", "circular", "circular-topo", "plain", "plain-linear",
             "circular-linear"]
    for n in range(90):
        kit = RNG.choice(KITS)
        up, down = overhangs(2, kit.ovsize)
        target = randseq(RNG.choice([0, 1, 2, 5, 17, 40]))
        backbone = randseq(RNG.randint(0, 30))
        flavour = RNG.random()
        if RNG.random() < 0.5:
            text = kit.module_text(up, target, down, backbone)
            cls = kit.Module
        else:
            text = kit.vector_text(up, down, target, backbone)
            cls = kit.Vector
        if flavour < 0.15:
            # a third site inside the region
            text = text.replace(target, target + kit.site + randseq(3), 1) if target else text
        elif flavour < 0.25:
            text = randseq(len(text))  # no structure at all
        if RNG.random() < 0.4:
            text = mixcase(text, RNG.choice([0.2, 0.5, 1.0]))
        rot = RNG.choice([0, 0, 1, len(text) - 1, RNG.randrange(len(text)),
                          RNG.randrange(len(text))])
        text = rotate_text(text, rot)
        rec = make_record(text, "r{}".format(n), RNG.choice(kinds))
        attempt("structured", lambda: (cls.__name__, cls.structure(), describe(cls(rec))), rec)

    # every rotation of one module and one vector per enzyme
    for kit in KITS:
        up, down = overhangs(2, kit.ovsize)
        mtext = kit.module_text(up, randseq(9), down, randseq(11))
        vtext = kit.vector_text(up, down, randseq(6), randseq(13))
        for cls, text in ((kit.Module, mtext), (kit.Vector, vtext)):
            for rot in range(len(text)):
                rec = make_record(rotate_text(text, rot), "rot", "circular", annotate=(rot % 5 == 0))
                attempt("rotation", lambda: (cls.__name__, rot, describe(cls(rec))), rec)

    # parts with a signature, including enzymes leaving 3' overhangs
    for cutter, gap in ((BsaI, 1), (BpiI, 2), (BtsI, 0), (BseRI, 8)):
        size = len(cutter.ovhgseq)
        for n in range(6):
            up, down = overhangs(2, size)

            class APart(AbstractPart, Entry):
                pass

            APart.cutter = cutter
            APart.signature = (up, down)

            class AVec(AbstractPart, EntryVector):
                pass

            AVec.cutter = cutter
            AVec.signature = (up, down)

            site, rsite = cutter.site, rc(cutter.site)
            inner = randseq(RNG.choice([2, 7, 20]))
            if cutter.is_3overhang():
                mtext = site + randseq(gap) + up + inner + down + randseq(gap) + rsite
                vtext = (down + randseq(gap) + rsite + inner + site + randseq(gap) + up)
            else:
                mtext = site + randseq(gap) + up + inner + down + randseq(gap) + rsite
                vtext = (down + randseq(gap) + rsite + inner + site + randseq(gap) + up)
            mtext += randseq(RNG.randint(3, 15))
            vtext = randseq(1) + vtext + randseq(RNG.randint(3, 15))
            if n % 3 == 2:
                mtext, vtext = mixcase(mtext), mixcase(vtext)
            for cls, text in ((APart, mtext), (AVec, vtext)):
                text = rotate_text(text, RNG.choice([0, 3, len(text) - 2]))
                rec = make_record(text, "p{}".format(n), "circular")
                attempt("part", lambda: (cutter.__name__, cls.__name__, cls.structure(),
                                         describe(cls(rec))), rec)
            # and an assembly of the part into the vector with swapped signature
            class BVec(AbstractPart, EntryVector):
                pass

            BVec.cutter = cutter
            BVec.signature = (down, up)
            g = gap
            btext = (randseq(1) + up + randseq(g) + rsite + randseq(5) + site + randseq(g)
                     + down + randseq(9)) if not cutter.is_3overhang() else (
                     up + randseq(g) + rsite + randseq(5) + site + randseq(g) + down + randseq(9))
            mrec = make_record(mtext, "pm{}".format(n), "circular")
            vrec = make_record(btext, "pv{}".format(n), "circular")
            attempt("part-assembly",
                    lambda: dig_record(BVec(vrec).assemble(APart(mrec))), mrec, vrec)


# --- 3. assemblies -----------------------------------------------------------


def with_citations(rec, mode):
    refs = []
    for j in range(RNG.randint(1, 3)):
        r = Reference()
        r.title = "{}-paper-{}".format(rec.id, j)
        refs.append(r)
    if mode == "shared":
        r = Reference()
        r.title = "shared-paper"
        refs.append(r)
    rec.annotations["references"] = refs
    for j, feat in enumerate(rec.features):
        if mode == "bad" and j == 0:
            feat.qualifiers["citation"] = ["see text"]
        elif mode == "range" and j == 0:
            feat.qualifiers["citation"] = ["[{}]".format(len(refs) + 2)]
        else:
            k = RNG.randint(1, len(refs))
            feat.qualifiers["citation"] = ["[{}]".format(k), "[{}]".format(len(refs))]
    return rec


def section_assembly():
    scenarios = ["ok"] * 8 + ["missing", "duplicate", "complementary", "unused",
                              "same-vector-overhangs", "plain-module", "linear-module",
                              "bad-citation", "range-citation", "illegal-site",
                              "no-structure", "lower-module", "lower-vector"]
    for n in range(140):
        kit = RNG.choice(KITS)
        scenario = RNG.choice(scenarios)
        k = RNG.randint(1, 4)
        ohs = overhangs(k + 3, kit.ovsize)
        chain = ohs[: k + 1]
        texts = []
        for j in range(k):
            texts.append(kit.module_text(chain[j], randseq(RNG.choice([2, 3, 5, 12, 30])),
                                         chain[j + 1], randseq(RNG.randint(0, 25))))
        vup, vdown = chain[k], chain[0]
        if scenario == "same-vector-overhangs":
            vup = vdown
        vtext = kit.vector_text(vup, vdown, randseq(RNG.randint(0, 12)),
                                randseq(RNG.randint(4, 30)))
        kinds = ["circular"] * (k + 1)
        if scenario == "missing":
            texts.pop(RNG.randrange(k))
            kinds.pop()
        elif scenario == "duplicate":
            j = RNG.randrange(k)
            texts.append(kit.module_text(chain[j], randseq(5), ohs[k + 1], randseq(6)))
            kinds.append("circular")
        elif scenario == "complementary":
            texts.append(kit.module_text(rc(chain[RNG.randrange(k)]), randseq(5),
                                         ohs[k + 1], randseq(6)))
            kinds.append("circular")
        elif scenario == "unused":
            texts.append(kit.module_text(ohs[k + 1], randseq(5), ohs[k + 2], randseq(6)))
            kinds.append("circular")
        elif scenario == "plain-module":
            kinds[RNG.randrange(k)] = "plain"
        elif scenario == "linear-module":
            kinds[RNG.randrange(k)] = RNG.choice(["plain-linear", "circular-linear"])
        elif scenario == "illegal-site":
            j = RNG.randrange(k)
            texts[j] = kit.module_text(chain[j], randseq(4) + kit.site + randseq(4),
                                       chain[j + 1], randseq(8))
        elif scenario == "no-structure":
            texts[RNG.randrange(k)] = randseq(40)
        elif scenario == "lower-module":
            j = RNG.randrange(k)
            texts[j] = RNG.choice([texts[j].lower(), mixcase(texts[j])])
        elif scenario == "lower-vector":
            vtext = RNG.choice([vtext.lower(), mixcase(vtext)])
        if RNG.random() < 0.25:
            texts = [mixcase(t, 0.3) for t in texts]
        # rotations, including those that put the origin inside the match
        texts = [rotate_text(t, RNG.choice([0, 1, 7, len(t) - 1, RNG.randrange(len(t))]))
                 for t in texts]
        vtext = rotate_text(vtext, RNG.choice([0, 2, len(vtext) - 3, RNG.randrange(len(vtext))]))
        order = list(range(len(texts)))
        RNG.shuffle(order)
        mrecs = [make_record(texts[j], "m{}_{}".format(n, j), kinds[j] if j < len(kinds) else "circular")
                 for j in order]
        vrec = make_record(vtext, "v{}".format(n), "circular")
        cite = RNG.random()
        if scenario == "bad-citation":
            for r in mrecs:
                if not r.features:
                    r.features.append(SeqFeature(FeatureLocation(0, 1), type="misc_feature"))
            with_citations(RNG.choice(mrecs), "bad")
        elif scenario == "range-citation":
            for r in mrecs:
                if not r.features:
                    r.features.append(SeqFeature(FeatureLocation(0, 1), type="misc_feature"))
            with_citations(RNG.choice(mrecs), "range")
        elif cite < 0.4:
            for r in mrecs + [vrec]:
                with_citations(r, RNG.choice(["own", "shared"]))
        mods = [kit.Module(r) for r in mrecs]
        vec = kit.Vector(vrec)
        kwargs = RNG.choice([{}, {}, {"id": "x{}".format(n)}, {"name": "nm", "id": "idd"}])
        attempt("assembly " + scenario, lambda: (scenario, kit.cutter.__name__, k,
                                     dig_record(vec.assemble(*mods, **kwargs))),
                vrec, *mrecs)
        if n % 10 == 0:
            # the same objects assemble again, to the same product
            attempt("assembly-again", lambda: dig_record(vec.assemble(*mods, **kwargs)),
                    vrec, *mrecs)


# --- 4. rotation of records --------------------------------------------------


def section_rotation():
    for n in range(60):
        size = RNG.randint(1, 30)
        rec = make_record(mixcase(randseq(size), 0.2), "c{}".format(n), "circular")
        if RNG.random() < 0.3:
            rec.letter_annotations["q"] = [RNG.randint(0, 40) for _ in range(size)]
        if RNG.random() < 0.2:
            rec.features.append(SeqFeature(None, type="gap"))
        shift = RNG.choice([0, 1, -1, size, -size, size + 3, RNG.randint(-70, 70)])
        before = copy.deepcopy(rec)
        attempt("rshift", lambda: (shift, dig_record(rec >> shift)), rec, before)
        attempt("lshift", lambda: (shift, dig_record(rec << shift)), rec, before)
        attempt("slice", lambda: dig_record((rec << shift)[: size // 2]), rec)


def main():
    section_regex()
    section_structured()
    section_assembly()
    section_rotation()
    blob = "\n".join(LINES).encode("utf-8")
    if "--dump" in sys.argv:
        sys.stdout.write(blob.decode("utf-8") + "\n")
    kinds = {}
    for line in LINES:
        key = line.split(" | ", 1)[0].split(" ")[0]
        ok = "('ok'" in line.split(" | ", 2)[1][:8]
        kinds.setdefault(key, [0, 0])[0 if ok else 1] += 1
    for key in sorted(kinds):
        print("{:16s} ok={:4d} raised={:4d}".format(key, *kinds[key]))
    print("cases: {}".format(len(LINES)))
    print("digest: {}".format(hashlib.sha256(blob).hexdigest()))


if __name__ == "__main__":
    main()
