# coding: utf-8
"""Differential test for the code touched by the pull request (C02).

Exercises, through the API that existed before the pull request only:
DNARegex.search / SeqMatch, CircularRecord (rotation, slicing, ...),
module / vector / part classes on every kind of record (rotations that wrap
the origin, mixed case, several enzymes, plain SeqRecord, invalid records,
illegal sites) and assemblies (successful, with citations, failing).

Prints the number of observations and a digest of all of them; pass a file
name as first argument to also dump the observations (for diffing).

Run as:  cd /tmp/agents7/C02 && /venv/bin/python pairs_out/C02_r2/equiv.py
"""
import hashlib
import random
import re
import sys
import warnings

sys.path.insert(0, "/tmp/agents7/C02")
with warnings.catch_warnings():
    warnings.simplefilter("ignore")
    import tests  # noqa: F401  (splices the kits into the moclo namespace)

    from Bio.Seq import Seq
    from Bio.SeqRecord import SeqRecord
    from Bio.SeqFeature import SeqFeature, FeatureLocation, CompoundLocation
    from Bio.Restriction import BsaI, BpiI, SapI, BsmBI, EcoRV

    from moclo import errors
    from moclo.regex import DNARegex
    from moclo.record import CircularRecord
    from moclo.core import (
        AbstractPart, Product, Entry, EntryVector, CassetteVector,
    )
    from moclo.kits import ytk

SITES = ["GGTCTC", "GAGACC", "GAAGAC", "GTCTTC", "GCTCTTC", "GAAGAGC", "CGTCTC", "GAGACG"]
LINES = []


def emit(*fields):
    line = " | ".join(str(f) for f in fields)
    LINES.append(re.sub(r" at 0x[0-9a-fA-F]+", " at 0x?", line))


# --------------------------------------------------------------------------
# describing results


def d_loc(loc):
    if loc is None:
        return "None"
    return "%s:%s" % (type(loc).__name__, loc)


def d_feat(f):
    quals = sorted((k, repr(v)) for k, v in f.qualifiers.items())
    return "%s@%s#%s%s" % (f.type, d_loc(f.location), f.id, quals)


def d_rec(r):
    if r is None:
        return "None"
    if isinstance(r, Seq):
        return "Seq(%s)" % str(r)
    return "%s(%s; id=%s name=%s desc=%s dbx=%s ann=%s la=%s feats=%s)" % (
        type(r).__name__, str(r.seq), r.id, r.name, r.description, r.dbxrefs,
        sorted((k, repr(v)) for k, v in r.annotations.items()),
        sorted((k, repr(v)) for k, v in r.letter_annotations.items()),
        [d_feat(f) for f in r.features],
    )


def attempt(label, func, show=repr):
    """Run func, record its result or exception and the warnings it gave."""
    with warnings.catch_warnings(record=True) as caught:
        warnings.simplefilter("always")
        try:
            out = "-> " + show(func())
        except Exception as exc:  # noqa
            out = "!! %s: %s" % (type(exc).__name__, exc)
    ws = ["%s: %s" % (w.category.__name__, w.message) for w in caught
          if "pkg_resources" not in str(w.message)]
    emit(label, out, ws)


# --------------------------------------------------------------------------
# building inputs


def rc(s):
    return str(Seq(s).reverse_complement())


def dna(rng, n):
    while True:
        s = "".join(rng.choice("ACGT") for _ in range(n))
        if not any(site in s + s for site in SITES):
            return s


def joined_ok(s, expected=2):
    s = s.upper()
    return sum((s + s).count(site, 0, len(s) + len(site) - 1) for site in SITES) == expected


def make_module(rng, cutter, up, down, tlen=12, blen=18):
    site = cutter.site
    gap = cutter.elucidate().split("^")[0][len(site):]
    while True:
        s = "".join([
            site, dna(rng, len(gap)), up, dna(rng, tlen), down,
            dna(rng, len(gap)), rc(site), dna(rng, blen),
        ])
        if joined_ok(s):
            return s


def make_vector(rng, cutter, up, down, dlen=10, blen=20):
    site = cutter.site
    gap = cutter.elucidate().split("^")[0][len(site):]
    while True:
        s = "".join([
            dna(rng, 1), up, dna(rng, len(gap)), rc(site), dna(rng, dlen),
            site, dna(rng, len(gap)), down, dna(rng, 1), dna(rng, blen),
        ])
        if joined_ok(s):
            return s


def mixed(rng, s):
    return "".join(c.lower() if rng.random() < 0.3 else c for c in s)


def decorate(rng, rec, refs=False):
    """Add features (simple, compound, source) and annotations to a record."""
    n = len(rec)
    a, b = sorted(rng.sample(range(n), 2))
    rec.features.append(SeqFeature(FeatureLocation(a, b, strand=1), type="misc_feature",
                                   id="f1", qualifiers={"label": ["one"]}))
    c, d = sorted(rng.sample(range(n), 2))
    if c > 0 and d < n and d > c:
        rec.features.append(SeqFeature(
            CompoundLocation([FeatureLocation(d, n, strand=-1), FeatureLocation(0, c, strand=-1)])
            if c > 0 else FeatureLocation(d, n, strand=-1),
            type="CDS", id="f2", qualifiers={"label": ["two"]}))
    rec.features.append(SeqFeature(FeatureLocation(0, n), type="source",
                                   qualifiers={"organism": ["x"]}))
    rec.annotations["topology"] = "circular"
    rec.annotations["molecule_type"] = "DNA"
    if refs:
        rec.annotations["references"] = ["ref-A-" + rec.id, "ref-B-" + rec.id]
        rec.features[0].qualifiers["citation"] = ["[2]", "[1]"]
    return rec


def circ(seq, ident, **kw):
    return CircularRecord(Seq(seq), id=ident, name=ident, **kw)


class MBsaI(Entry):
    cutter = BsaI


class VBsaI(CassetteVector):
    cutter = BsaI


class MBpiI(Product):
    cutter = BpiI


class VBpiI(EntryVector):
    cutter = BpiI


class MSapI(Product):
    cutter = SapI


class VSapI(EntryVector):
    cutter = SapI


class MBsmBI(Product):
    cutter = BsmBI


class VBsmBI(EntryVector):
    cutter = BsmBI


class NoCutter(Product):
    pass


class Blunt(EntryVector):
    cutter = EcoRV


# --------------------------------------------------------------------------
# 1. DNARegex / SeqMatch


def d_match(m):
    if m is None:
        return "None"
    groups = m.match.re.groups
    out = [str((m.start(), m.end(), m.shift, type(m.rec).__name__))]
    for g in range(groups + 1):
        out.append("%s=%s" % (m.span(g), d_rec(m.group(g))))
    return "; ".join(out)


def section_regex(rng):
    patterns = ["AA(NN)", "(GG)N*(TC)", "R(YN)K", "GGTCTCN(NNNN)(NN*N)(NNNN)NGAGACC",
                "(A)(C)?(G)", "N(NNN)(NGAAGAGCN*GCTCTTCN)(NNN)N", "BDHV(S*W)M"]
    for p in patterns:
        rx = DNARegex(p)
        emit("pattern", p, rx.pattern, rx.regex.pattern, rx.regex.flags)
    for case in range(60):
        p = rng.choice(patterns)
        rx = DNARegex(p)
        n = rng.randint(8, 40)
        s = "".join(rng.choice("ACGT") for _ in range(n))
        if rng.random() < 0.5:
            core = rng.choice(["AACG", "GGTTTC", "GGTCTCAACGTTTTTTTTGCATTGAGACC",
                               "ACAAATGAAGAGCTTTGCTCTTCAGGTA", "AGG", "ACG"])
            s = s + core
            k = rng.randrange(len(s))
            s = s[k:] + s[:k]  # the core often crosses the origin
        if rng.random() < 0.3:
            s = mixed(rng, s)
        for kind in ("seq", "seq-circular", "record", "record-circular", "circular",
                     "circular-linear-flag"):
            if kind.startswith("seq"):
                target = Seq(s)
            elif kind.startswith("record"):
                target = SeqRecord(Seq(s), id="r%d" % case)
            else:
                target = decorate(rng, circ(s, "c%d" % case))
            kwargs = {}
            if kind.endswith("-circular"):
                kwargs["linear"] = False
            if kind == "circular-linear-flag":
                kwargs["linear"] = True
            pos = rng.choice([0, 0, 0, 3, len(s) - 2, len(s) + 5])
            endpos = rng.choice([None, None, 5, len(s) - 1, len(s) * 2])
            args = [target]
            if pos or endpos is not None:
                args.append(pos)
            if endpos is not None:
                args.append(endpos)
            attempt("search %s %s %s pos=%s endpos=%s" % (p, kind, s, pos, endpos),
                    lambda: rx.search(*args, **kwargs), d_match)
    rx = DNARegex("NN")
    for bad in ("ATGC", b"ATGC", None, 12, ["A"]):
        attempt("search bad %r" % (bad,), lambda: rx.search(bad))
        attempt("search bad circ %r" % (bad,), lambda: rx.search(bad, linear=False))


# --------------------------------------------------------------------------
# 2. CircularRecord


def section_record(rng):
    for case in range(25):
        n = rng.randint(6, 30)
        s = mixed(rng, "".join(rng.choice("ACGT") for _ in range(n)))
        rec = decorate(rng, circ(s, "rec%d" % case, description="d", dbxrefs=["x:1"]), refs=case % 2)
        rec.letter_annotations["q"] = list(range(n))
        emit("record", d_rec(rec))
        for k in [0, 1, 2, n - 1, n, n + 3, -1, -n, -n - 2, 3 * n + 1, rng.randrange(n)]:
            attempt("rshift %d" % k, lambda: rec >> k, d_rec)
            attempt("lshift %d" % k, lambda: rec << k, d_rec)
            attempt("rshift twice %d" % k, lambda: (rec >> k) >> k, d_rec)
            attempt("same object %d" % k, lambda: (rec >> k) is rec)
        a, b = sorted(rng.sample(range(n + 1), 2))
        attempt("slice %d:%d" % (a, b), lambda: rec[a:b], d_rec)
        attempt("slice %d:" % a, lambda: rec[a:], d_rec)
        attempt("index %d" % a, lambda: rec[a % n])
        attempt("revcomp", lambda: rec.reverse_complement(), d_rec)
        attempt("revcomp id", lambda: rec.reverse_complement(id=True, annotations=True), d_rec)
        probe = (s + s)[n - 2:n + 2]
        attempt("contains", lambda: (probe in rec, probe.upper() in rec, s + s[:1] in rec, "" in rec))
        attempt("add", lambda: rec + rec)
        attempt("radd", lambda: "ACGT" + rec)
        attempt("add seq", lambda: rec + Seq("A"))
        emit("record after", d_rec(rec))
    lin = SeqRecord(Seq("ATGC"), id="lin", annotations={"topology": "linear"})
    attempt("from linear", lambda: CircularRecord(lin), d_rec)
    cir = SeqRecord(Seq("ATGC"), id="cir", annotations={"topology": "Circular"},
                    features=[SeqFeature(FeatureLocation(1, 3), type="x")])
    attempt("from circular", lambda: CircularRecord(cir), d_rec)
    attempt("from circular twice", lambda: CircularRecord(CircularRecord(cir)), d_rec)
    attempt("features copied", lambda: CircularRecord(cir).features[0] is cir.features[0])
    attempt("plain", lambda: CircularRecord(Seq("ATGC")), d_rec)
    attempt("none location", lambda: CircularRecord(
        Seq("ATGCAT"), features=[SeqFeature(None, type="odd")]) >> 2, d_rec)


# --------------------------------------------------------------------------
# 3. typing of records


def d_structured(obj):
    out = []
    for _ in range(2):  # twice: the second call goes through the caches
        out.append(obj.is_valid())
    for name in ("overhang_start", "overhang_end", "target_sequence", "placeholder_sequence"):
        if not hasattr(obj, name):
            continue
        with warnings.catch_warnings(record=True) as caught:
            warnings.simplefilter("always")
            try:
                val = getattr(obj, name)()
                out.append("%s=%s" % (name, d_rec(val)))
            except Exception as exc:  # noqa
                out.append("%s!! %s: %s" % (name, type(exc).__name__, exc))
            out.extend("%s: %s" % (w.category.__name__, w.message) for w in caught)
    out.append(obj.is_valid())
    out.append("seq=%s" % obj.seq)
    return "; ".join(str(o) for o in out)


def rotations(rng, n, flank=24):
    """All the rotations around the origin plus a sample of the others."""
    ks = set(range(0, flank)) | set(range(n - flank, n)) | set(rng.sample(range(n), 12))
    return sorted(k % n for k in ks)


def section_typing(rng):
    kits = [(MBsaI, VBsaI, BsaI), (MBpiI, VBpiI, BpiI), (MSapI, VSapI, SapI), (MBsmBI, VBsmBI, BsmBI)]
    for mcls, vcls, cutter in kits:
        emit("structure", mcls.__name__, mcls.structure(), vcls.structure())
        w = len(cutter.ovhgseq)
        o1, o2 = "ACGG"[:w], "TTCA"[:w]
        for case in ("upper", "mixed"):
            m = make_module(rng, cutter, o1, o2)
            v = make_vector(rng, cutter, o1, o2)
            if case == "mixed":
                m, v = mixed(rng, m), mixed(rng, v)
            rm = decorate(rng, circ(m, "m-" + case), refs=True)
            rv = decorate(rng, circ(v, "v-" + case))
            for cls, rec in ((mcls, rm), (vcls, rv), (vcls, rm), (mcls, rv)):
                # the structure starts at 0: rotate so that the origin runs
                # through all of it (and through some of the backbone)
                for k in rotations(rng, len(rec)):
                    rot = rec >> k
                    emit("typing", cls.__name__, rec.id, k, d_structured(cls(rot)))
                emit("typing input after", d_rec(rec))
            # plain SeqRecord, with / without / with linear topology
            for k in (0, 5, len(m) - 9):
                s = m[-k:] + m[:-k] if k else m
                for ann in (None, {"topology": "circular"}, {"topology": "linear"},
                            {"topology": "CIRCULAR"}):
                    plain = SeqRecord(Seq(s), id="plain", annotations=ann)
                    emit("typing plain", mcls.__name__, k, ann, d_structured(mcls(plain)))
                s = v[-k:] + v[:-k] if k else v
                for ann in (None, {"topology": "linear"}):
                    plain = SeqRecord(Seq(s), id="plain", annotations=ann)
                    emit("typing plain", vcls.__name__, k, ann, d_structured(vcls(plain)))
            # an additional site in the target / in the backbone
            extra = m[:len(cutter.site) + 8] + cutter.site + m[len(cutter.site) + 8:]
            for k in (0, 3, len(extra) - 4):
                emit("typing illegal", mcls.__name__, k, d_structured(mcls(circ(extra, "ill") >> k)))
            twice = m + m
            for k in (0, 7):
                emit("typing twice", mcls.__name__, k, d_structured(mcls(circ(twice, "twice") >> k)))
            short = circ("ATG", "short")
            emit("typing short", d_structured(mcls(short)), d_structured(vcls(short)))
            attempt("match error", lambda: mcls(short)._match)
            attempt("match error vec", lambda: vcls(short)._match)
    attempt("no cutter", lambda: NoCutter(circ("ATGC", "x")))
    attempt("blunt cutter", lambda: Blunt(circ("ATGC", "x")))
    attempt("abstract", lambda: AbstractPart(circ("ATGC", "x")))

    # kit parts
    p2 = decorate(rng, circ(make_module(rng, BsaI, "AACG", "TATG"), "p2"))
    p3 = decorate(rng, circ(mixed(rng, make_module(rng, BsaI, "TATG", "ATCC")), "p3"))
    vec = decorate(rng, circ(make_vector(rng, BsaI, "AACG", "ATCC"), "vec"))
    for rec in (p2, p3, vec):
        for k in rotations(rng, len(rec), flank=8):
            rot = rec >> k
            attempt("characterize %s %d" % (rec.id, k),
                    lambda: type(ytk.YTKPart.characterize(rot)).__name__)
            for cls in (ytk.YTKPart2, ytk.YTKPart3, ytk.YTKEntry, ytk.YTKCassetteVector, ytk.YTKPart8):
                emit("kit typing", cls.__name__, rec.id, k, d_structured(cls(rot)))


# --------------------------------------------------------------------------
# 4. assemblies


def section_assembly(rng):
    kits = [(MBsaI, VBsaI, BsaI), (MBpiI, VBpiI, BpiI), (MSapI, VSapI, SapI)]
    for mcls, vcls, cutter in kits:
        w = len(cutter.ovhgseq)
        o1, o2, o3, o4 = "ACGG"[:w], "TTCA"[:w], "GGAT"[:w], "CATC"[:w]
        for case in ("upper", "mixed"):
            seqs = [make_module(rng, cutter, o1, o2), make_module(rng, cutter, o2, o3),
                    make_module(rng, cutter, o3, o4), make_vector(rng, cutter, o1, o3),
                    make_module(rng, cutter, o1, o3)]
            if case == "mixed":
                seqs = [mixed(rng, s) for s in seqs]
            m1, m2, m3, v, m13 = [
                decorate(rng, circ(s, "%s%d" % (case, i)), refs=(i != 1)) for i, s in enumerate(seqs)]
            inputs = [m1, m2, m3, v, m13]

            def run(label, vrec, mrecs, **kw):
                attempt("assemble %s %s %s" % (mcls.__name__, case, label),
                        lambda: vcls(vrec).assemble(*[mcls(r) for r in mrecs], **kw), d_rec)
                for r in inputs:
                    emit("  input after", r.id, d_rec(r))

            run("plain", v, [m1, m2])
            run("reordered + names", v, [m2, m1], id="my-id", name="my-name", other=1)
            for k in rotations(rng, len(v), flank=10):
                run("vector >> %d" % k, v >> k, [m1, m2])
            for k in rotations(rng, len(m1), flank=10):
                run("module >> %d" % k, v, [m1 >> k, m2 >> (k * 3)])
            run("unused", v, [m1, m2, m3])
            run("missing", v, [m1])
            run("missing rotated", v >> 7, [m1 >> 5])
            run("duplicate", v, [m1, m1 >> 4, m2])
            run("same object twice", v, [m1, m2, m1])
            run("single", v, [m13])
            run("single rotated", v >> (len(v) - 3), [m13 >> 2])
            run("vector as module", v, [v])
            run("invalid module", v, [circ("ATGCATGC", "junk")])
            attempt("invalid vector", lambda: vcls(m1).assemble(mcls(m2)), d_rec)
            same = make_vector(rng, cutter, o1, o1)
            run("unsuitable vector", circ(same, "same"), [m1])
            bad = decorate(rng, circ(seqs[0], "badcit"))
            bad.features[0].qualifiers["citation"] = ["nope"]
            run("bad citation", v, [bad, m2])
            emit("  bad after", d_rec(bad))

    # kit assembly
    p2 = decorate(rng, circ(make_module(rng, BsaI, "AACG", "TATG"), "p2"), refs=True)
    p3 = decorate(rng, circ(make_module(rng, BsaI, "TATG", "ATCC"), "p3"), refs=True)
    p4 = decorate(rng, circ(make_module(rng, BsaI, "ATCC", "GCTG"), "p4"))
    vec = decorate(rng, circ(make_vector(rng, BsaI, "AACG", "GCTG"), "vec"), refs=True)
    for k in (0, 1, 4, 9, 15, len(vec) - 6, len(vec) - 1):
        attempt("ytk assemble %d" % k, lambda: ytk.YTKCassetteVector(vec >> k).assemble(
            ytk.YTKPart2(p2 >> (2 * k)), ytk.YTKPart3(p3 << k), ytk.YTKPart4(p4 >> (k + 3))), d_rec)
    for r in (p2, p3, p4, vec):
        emit("  ytk input after", d_rec(r))


# --------------------------------------------------------------------------
# 5. errors


def section_errors(rng):
    m = MBsaI(circ(make_module(rng, BsaI, "ACGG", "TTCA"), "em"))
    for exc in (errors.InvalidSequence("ATGC"), errors.InvalidSequence(m.record.seq, details="d"),
                errors.IllegalSite(Seq("AT")), errors.DuplicateModules(m, m),
                errors.DuplicateModules(m, details="x"), errors.MissingModule("ACGT"),
                errors.MissingModule(Seq("ACGT"), details="y"), errors.UnusedModules(m, m),
                errors.UnusedModules(details=3)):
        emit("error", type(exc).__name__, str(exc), repr(exc), type(exc).__mro__)


def main():
    rng = random.Random(7)
    section_regex(rng)
    section_record(rng)
    section_typing(rng)
    section_assembly(rng)
    section_errors(rng)
    if len(sys.argv) > 1:
        with open(sys.argv[1], "w") as handle:
            handle.write("\n".join(LINES) + "\n")
    digest = hashlib.sha256("\n".join(LINES).encode("utf-8")).hexdigest()
    print("observations: %d" % len(LINES))
    print("digest: %s" % digest)


if __name__ == "__main__":
    main()
