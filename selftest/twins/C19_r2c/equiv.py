# coding: utf-8
"""Differential test: prints a digest of everything observable through the
EXISTING API of the code the pull request touches (assembly manager, modules,
vectors, structured records, circular records, DNA regex, errors).

Run as:  cd /tmp/agents7/C19 && /venv/bin/python pairs_out/C19_r?/equiv.py
The printed digest must be identical on the pristine tree and with clean.diff.
"""
import sys

sys.path.insert(0, "/tmp/agents7/C19")
import tests  # noqa: F401,E402  (splices the kits into the moclo namespace)

import copy  # noqa: E402
import hashlib  # noqa: E402
import random  # noqa: E402
import re  # noqa: E402
import warnings  # noqa: E402

from Bio.Restriction import BsaI, BpiI, BsmBI  # noqa: E402
from Bio.Seq import Seq  # noqa: E402
from Bio.SeqFeature import (  # noqa: E402
    SeqFeature,
    FeatureLocation,
    CompoundLocation,
    Reference,
)
from Bio.SeqRecord import SeqRecord  # noqa: E402

from moclo import errors  # noqa: E402
from moclo.core import (  # noqa: E402
    AbstractModule,
    AbstractVector,
    AbstractPart,
    Entry,
    EntryVector,
    Product,
    Cassette,
    CassetteVector,
)
from moclo.core._assembly import AssemblyManager  # noqa: E402
from moclo.record import CircularRecord  # noqa: E402
from moclo.regex import DNARegex  # noqa: E402

warnings.simplefilter("ignore", DeprecationWarning)

LINES = []


def emit(*args):
    line = " | ".join(str(a) for a in args)
    LINES.append(re.sub(r"0x[0-9a-fA-F]+", "0x?", line))


# --- serialisation -----------------------------------------------------------


def ser_ref(ref):
    if isinstance(ref, Reference):
        return "Ref(%r,%r,%r)" % (ref.title, ref.authors, ref.journal)
    return repr(ref)


def ser_quals(quals):
    out = []
    for k in sorted(quals):
        v = quals[k]
        if isinstance(v, list):
            v = [ser_ref(x) for x in v]
        out.append((k, v))
    return repr(out)


def ser_feature(f):
    return "F(%s;%s;%r;%s)" % (f.type, f.id, f.location, ser_quals(f.qualifiers))


def ser_annotations(ants):
    out = []
    for k in sorted(ants):
        v = ants[k]
        if k == "references":
            v = [ser_ref(x) for x in v]
        out.append((k, v))
    return repr(out)


def ser_record(rec):
    if rec is None:
        return "None"
    return "%s{%s;%s;%s;%s;%r;%s;[%s];%r}" % (
        type(rec).__name__,
        str(rec.seq),
        rec.id,
        rec.name,
        rec.description,
        rec.dbxrefs,
        ser_annotations(rec.annotations),
        ",".join(ser_feature(f) for f in rec.features),
        dict(rec.letter_annotations),
    )


def ser_exc(exc):
    extra = []
    for attr in ("details", "start_overhang"):
        if hasattr(exc, attr):
            v = getattr(exc, attr)
            extra.append("%s=%s:%s" % (attr, type(v).__name__, v))
    for attr in ("duplicates", "remaining"):
        if hasattr(exc, attr):
            extra.append("%s=%s" % (attr, [e.record.id for e in getattr(exc, attr)]))
    return "%s(%s)[%s] cause=%r ctx_suppressed=%r" % (
        type(exc).__name__,
        exc,
        ";".join(extra),
        exc.__cause__,
        exc.__suppress_context__,
    )


def observe(label, func, *inputs):
    """Call func, record result / exception / warnings / input state."""
    with warnings.catch_warnings(record=True) as caught:
        warnings.simplefilter("always")
        warnings.simplefilter("ignore", DeprecationWarning)
        try:
            res = func()
        except Exception as exc:  # noqa
            out = "EXC " + ser_exc(exc)
        else:
            if isinstance(res, SeqRecord):
                out = "REC " + ser_record(res)
            else:
                out = "VAL %s:%r" % (type(res).__name__, res)
    warns = [
        "%s:%s" % (w.category.__name__, w.message)
        for w in caught
        if not issubclass(w.category, DeprecationWarning)
    ]
    emit(label, out, "WARN", warns, "INPUTS", [ser_record(r) for r in inputs])


# --- generators --------------------------------------------------------------

FORBIDDEN = ["GGTCTC", "GAGACC", "GAAGAC", "GTCTTC", "CGTCTC", "GAGACG"]


def rc(s):
    return str(Seq(s).reverse_complement())


def rand_dna(rng, n):
    while True:
        s = "".join(rng.choice("ACGT") for _ in range(n))
        # no site, also not across a junction with the flanks we use
        if not any(x in ("AA" + s + "AA") for x in FORBIDDEN):
            return s


def rand_overhangs(rng, k):
    """k distinct 4-mers, none palindromic, no two reverse complements."""
    out = []
    while len(out) < k:
        o = "".join(rng.choice("ACGT") for _ in range(4))
        if o == rc(o) or o in out or rc(o) in out:
            continue
        if any(x in ("AA" + o + "AA") for x in FORBIDDEN):
            continue
        out.append(o)
    return out


def spacer(cutter):
    e = cutter.elucidate()
    return "A" * (e.index("^") - len(cutter.site))


def module_seq(cutter, up, target, down, left, right):
    site = cutter.site
    sp = spacer(cutter)
    core = site + sp + up + target + down + sp + rc(site)
    return left + core + right


def vector_seq(cutter, up, down, dropout, left, right):
    """Vector receiving a chain that starts with `up` and ends with `down`."""
    site = cutter.site
    sp = spacer(cutter)
    core = "A" + up + sp + rc(site) + dropout + site + sp + down + "A"
    return left + core + right


def rotate(s, r):
    r %= len(s)
    return s[r:] + s[:r]


def mixcase(rng, s, mode):
    if mode == "upper":
        return s
    if mode == "lower":
        return s.lower()
    return "".join(c.lower() if rng.random() < 0.5 else c for c in s)


def decorate(rng, rec, with_citation=False, bad_citation=False, topo=None, letters=False):
    """Add features / annotations to a record (in place), return it."""
    n = len(rec.seq)
    for i in range(rng.randint(1, 4)):
        a = rng.randrange(0, n - 1)
        b = rng.randrange(a + 1, min(n, a + 40) + 1)
        quals = {"label": ["feat%d" % i], "note": ["n%d" % rng.randrange(100)]}
        rec.features.append(
            SeqFeature(
                FeatureLocation(a, b, strand=rng.choice([1, -1, None])),
                type=rng.choice(["CDS", "misc_feature", "promoter"]),
                qualifiers=quals,
            )
        )
    if rng.random() < 0.4:
        rec.features.append(
            SeqFeature(FeatureLocation(0, n, strand=1), type="source", qualifiers={"organism": ["x"]})
        )
    if rng.random() < 0.3 and n > 30:
        rec.features.append(
            SeqFeature(
                CompoundLocation(
                    [FeatureLocation(n - 10, n, strand=1), FeatureLocation(0, 8, strand=1)]
                ),
                type="misc_feature",
                qualifiers={"label": ["wrap"]},
            )
        )
    if with_citation:
        refs = []
        for j in range(rng.randint(1, 3)):
            r = Reference()
            r.title = "title %s %d" % (rec.id, j)
            r.authors = "auth%d" % j
            r.journal = "J%d" % rng.randrange(5)
            refs.append(r)
        rec.annotations["references"] = refs
        for f in rec.features[: rng.randint(1, 2)]:
            f.qualifiers["citation"] = ["[%d]" % rng.randint(1, len(refs))]
    if bad_citation and rec.features:
        rec.features[0].qualifiers["citation"] = ["(1)"]
    if topo is not None:
        rec.annotations["topology"] = topo
    if rng.random() < 0.5:
        rec.annotations["molecule_type"] = "DNA"
    if rng.random() < 0.3:
        rec.annotations["organism"] = "thing"
    if letters:
        rec.letter_annotations["phred_quality"] = [rng.randrange(60) for _ in range(n)]
    return rec


def make_classes(cutter):
    class Mod(Entry):
        pass

    class Vec(EntryVector):
        pass

    Mod.cutter = cutter
    Vec.cutter = cutter
    Mod.__name__ = str("Mod" + cutter.__name__)
    Vec.__name__ = str("Vec" + cutter.__name__)
    return Mod, Vec


CLASSES = {c: make_classes(c) for c in (BsaI, BpiI, BsmBI)}


class PartA(AbstractPart, Entry):
    cutter = BsaI
    signature = ("GGAG", "TACT")


class PartB(AbstractPart, Entry):
    cutter = BsaI
    signature = ("TACT", "AATG")


class PartVec(AbstractPart, CassetteVector):
    cutter = BsaI
    signature = ("GGAG", "AATG")


def build_case(rng, cutter, k, case_mode="upper", wrap_mode=None):
    """Return (vector_record_str, [module strs]) description."""
    ovh = rand_overhangs(rng, k + 1)
    vec = vector_seq(
        cutter, ovh[0], ovh[-1], rand_dna(rng, rng.randint(5, 30)),
        rand_dna(rng, rng.randint(10, 60)), rand_dna(rng, rng.randint(10, 60)),
    )
    mods = []
    for i in range(k):
        m = module_seq(
            cutter, ovh[i], rand_dna(rng, rng.randint(2, 60)), ovh[i + 1],
            rand_dna(rng, rng.randint(5, 50)), rand_dna(rng, rng.randint(5, 50)),
        )
        mods.append(m)
    return ovh, vec, mods


def to_record(rng, s, rid, cls=CircularRecord, **deco):
    rec = cls(Seq(s), id=rid, name=rid + "_name", description="desc of " + rid)
    if deco:
        decorate(rng, rec, **deco)
    return rec


# --- 1. assemblies -----------------------------------------------------------


def run_assemblies():
    rng = random.Random(190019)
    count = 0
    for trial in range(150):
        cutter = rng.choice([BsaI, BsaI, BpiI, BsmBI])
        Mod, Vec = CLASSES[cutter]
        k = rng.randint(1, 4)
        ovh, vec, mods = build_case(rng, cutter, k)
        case_mode = rng.choice(["upper", "upper", "lower", "mixed"])
        scenario = rng.choice(
            ["ok", "ok", "ok", "wrap", "wrap", "missing", "duplicate", "unused", "rcdup",
             "badvector", "illegal", "plainrec", "plainvec", "citations", "badcitation",
             "letters", "linear_topo", "invalidmod"]
        )
        deco = {}
        if rng.random() < 0.6 or scenario in ("citations", "badcitation"):
            deco = {"topo": rng.choice([None, "circular", "Circular"])}
        mrecs = []
        for i, m in enumerate(mods):
            r = rng.randrange(len(m)) if scenario == "wrap" or rng.random() < 0.3 else 0
            s = mixcase(rng, rotate(m, r), case_mode if rng.random() < 0.8 else "upper")
            d = dict(deco)
            if scenario == "citations":
                d["with_citation"] = True
            if scenario == "badcitation" and i == 0:
                d["bad_citation"] = True
            if scenario == "letters":
                d["letters"] = True
                d.setdefault("topo", None)
            cls = CircularRecord
            if scenario == "plainrec" and i == k - 1:
                cls = SeqRecord
                if rng.random() < 0.5:
                    d["topo"] = rng.choice(["linear", "circular"])
            mrecs.append(to_record(rng, s, "mod%d_%d" % (trial, i), cls, **d))
        rv = rng.randrange(len(vec)) if rng.random() < 0.5 else 0
        vs = mixcase(rng, rotate(vec, rv), case_mode)
        vd = dict(deco)
        if scenario == "citations":
            vd["with_citation"] = True
        vcls = SeqRecord if scenario == "plainvec" else CircularRecord
        vrec = to_record(rng, vs, "vec%d" % trial, vcls, **vd)

        if scenario == "missing" and k > 1:
            del mrecs[rng.randrange(len(mrecs))]
        elif scenario == "duplicate":
            j = rng.randrange(k)
            dup = module_seq(cutter, ovh[j], rand_dna(rng, 12), ovh[j + 1], "TTTTT", "CCCCC")
            mrecs.insert(rng.randrange(len(mrecs) + 1), to_record(rng, dup, "dup%d" % trial))
        elif scenario == "unused":
            extra = rand_overhangs(rng, 2)
            if not (set(extra) | {rc(x) for x in extra}) & (set(ovh) | {rc(x) for x in ovh}):
                un = module_seq(cutter, extra[0], rand_dna(rng, 9), extra[1], "TTTTT", "CCCCC")
                mrecs.insert(rng.randrange(len(mrecs) + 1), to_record(rng, un, "unused%d" % trial))
        elif scenario == "rcdup":
            un = module_seq(cutter, rc(ovh[0]), rand_dna(rng, 9), "ACAA", "TTTTT", "CCCCC")
            mrecs.append(to_record(rng, un, "rc%d" % trial))
        elif scenario == "badvector":
            bad = vector_seq(cutter, ovh[0], ovh[0], rand_dna(rng, 9), "TTTTT", "CCCCC")
            vrec = to_record(rng, bad, "badvec%d" % trial)
        elif scenario == "illegal":
            ill = module_seq(
                cutter, ovh[0], rand_dna(rng, 5) + cutter.site + rand_dna(rng, 5), ovh[1], "TTTTT", "CCCCC"
            )
            mrecs[0] = to_record(rng, ill, "illegal%d" % trial)
        elif scenario == "invalidmod":
            mrecs[0] = to_record(rng, rand_dna(rng, 40), "invalid%d" % trial)
        elif scenario == "linear_topo":
            mrecs[0].annotations["topology"] = "linear"

        rng.shuffle(mrecs)
        modules = [Mod(r) for r in mrecs]
        vector = Vec(vrec)
        inputs = mrecs + [vrec]
        kwargs = {}
        if rng.random() < 0.3:
            kwargs = {"id": "asm%d" % trial, "name": "n%d" % trial}
        if rng.random() < 0.1:
            kwargs["whatever"] = 1

        label = "ASM %d %s %s k=%d case=%s" % (trial, cutter.__name__, scenario, k, case_mode)
        observe(label, lambda: vector.assemble(*modules, **kwargs), *inputs)
        # a second run on the same objects (cached matches, re-referenced citations)
        observe(label + " again", lambda: vector.assemble(*modules, **kwargs), *inputs)
        # element accessors
        for el in modules + [vector]:
            observe(label + " valid " + el.record.id, el.is_valid)
            observe(label + " ostart " + el.record.id, el.overhang_start)
            observe(label + " oend " + el.record.id, el.overhang_end)
            observe(label + " target " + el.record.id, el.target_sequence, el.record)
        observe(label + " placeholder", vector.placeholder_sequence, vrec)
        observe(label + " structure", lambda: (Mod.structure(), Vec.structure()))
        # direct manager use
        if trial % 5 == 0:
            def direct():
                mgr = AssemblyManager(vector, modules, id_="direct", name="dname")
                keep = (mgr.modules is modules, [e.record.id for e in mgr.elements], mgr.id, mgr.name)
                return keep, ser_record(mgr.assemble())
            observe(label + " direct", direct, *inputs)
        # warnings turned into errors
        if scenario == "unused":
            def strict():
                with warnings.catch_warnings():
                    warnings.simplefilter("error", errors.UnusedModules)
                    return vector.assemble(*modules)
            observe(label + " strict", strict, *inputs)
        count += 1
    return count


# --- 2. typed parts ------------------------------------------------------------


def run_parts():
    rng = random.Random(42)
    n = 0
    for trial in range(40):
        a = module_seq(BsaI, "GGAG", rand_dna(rng, rng.randint(2, 40)), "TACT", rand_dna(rng, 20), rand_dna(rng, 20))
        b = module_seq(BsaI, "TACT", rand_dna(rng, rng.randint(2, 40)), "AATG", rand_dna(rng, 20), rand_dna(rng, 20))
        v = vector_seq(BsaI, "GGAG", "AATG", rand_dna(rng, 20), rand_dna(rng, 30), rand_dna(rng, 30))
        mode = rng.choice(["upper", "lower", "mixed"])
        ra = to_record(rng, mixcase(rng, rotate(a, rng.randrange(len(a))), mode), "pa%d" % trial, topo="circular")
        rb = to_record(rng, mixcase(rng, rotate(b, rng.randrange(len(b))), mode), "pb%d" % trial)
        rv = to_record(rng, mixcase(rng, rotate(v, rng.randrange(len(v))), mode), "pv%d" % trial, topo="circular")
        pa, pb, pv = PartA(ra), PartB(rb), PartVec(rv)
        label = "PART %d %s" % (trial, mode)
        observe(label + " asm", lambda: pv.assemble(pb, pa), ra, rb, rv)
        observe(label + " cross", lambda: (PartA(rb).is_valid(), PartB(ra).is_valid(), PartVec(ra).is_valid()))
        observe(label + " char", lambda: type(PartA.characterize(ra)).__name__)
        observe(label + " badchar", lambda: PartA.characterize(rb))
        observe(label + " structures", lambda: (PartA.structure(), PartVec.structure()))
        n += 1

    class NoCutter(AbstractModule):
        pass

    class NoSig(AbstractPart, Entry):
        cutter = BsaI

    observe("PART nocutter", lambda: NoCutter(SeqRecord(Seq("ACGT"))))
    observe("PART nosig", lambda: NoSig(CircularRecord(Seq("ACGT"))).is_valid())
    return n


# --- 3. records and regex ------------------------------------------------------


def run_records():
    rng = random.Random(7)
    n = 0
    for trial in range(60):
        s = mixcase(rng, rand_dna(rng, rng.randint(30, 90)), rng.choice(["upper", "lower", "mixed"]))
        rec = to_record(
            rng, s, "rec%d" % trial, with_citation=rng.random() < 0.3,
            topo=rng.choice([None, "circular"]), letters=rng.random() < 0.4,
        )
        k = rng.randrange(-2 * len(s), 2 * len(s))
        label = "REC %d k=%d" % (trial, k)
        observe(label + " >>", lambda: rec >> k, rec)
        observe(label + " <<", lambda: rec << k, rec)
        a = rng.randrange(len(s))
        b = rng.randrange(a, len(s) + 5)
        observe(label + " slice", lambda: rec[a:b], rec)
        observe(label + " item", lambda: rec[a], rec)
        observe(label + " rc", lambda: rec.reverse_complement(), rec)
        observe(label + " rc2", lambda: rec.reverse_complement(id=True, name=True, annotations=True), rec)
        observe(label + " in", lambda: (s[-3:] + s[:3] in rec, Seq(s[2:9]) in rec, "ACGTACGTACGTAAAA" in rec))
        observe(label + " add", lambda: rec + rec)
        observe(label + " radd", lambda: "AC" + rec)
        observe(label + " copy", lambda: CircularRecord(rec), rec)
        plain = SeqRecord(Seq(s), id="p", annotations={"topology": rng.choice(["linear", "circular"])})
        observe(label + " fromplain", lambda: CircularRecord(plain), plain)
        # regex
        pat = rng.choice(["GG(NN)(N*)TC", "A(N)N(NN)T", "(RY)N*(KM)", "CC(N*)GG"])
        rx = DNARegex(pat)

        def search(target, **kw):
            m = rx.search(target, **kw)
            if m is None:
                return None
            groups = []
            for g in range(m.match.re.groups + 1):
                grp = m.group(g)
                groups.append((m.span(g), type(grp).__name__, str(grp.seq if hasattr(grp, "seq") else grp)))
            return (m.start(), m.end(), m.shift, groups)

        observe(label + " rx circ", lambda: search(rec))
        observe(label + " rx seq lin", lambda: search(rec.seq))
        observe(label + " rx seq circ", lambda: search(rec.seq, linear=False))
        observe(label + " rx plain", lambda: search(plain, linear=False))
        observe(label + " rx pos", lambda: search(rec, pos=a, endpos=b))
        observe(label + " rx str", lambda: search(s))
        n += 1
    return n


# --- 4. errors ------------------------------------------------------------------


def run_errors():
    class E(object):
        def __init__(self, rid):
            self.record = SeqRecord(Seq("A"), id=rid)

    a, b = E("a"), E("b")
    for exc in [
        errors.InvalidSequence("ACGT"),
        errors.InvalidSequence("ACGT", details="some details"),
        errors.InvalidSequence(Seq("ACGT"), exc=ValueError("x"), details="d"),
        errors.IllegalSite("ACGT"),
        errors.IllegalSite(Seq("ACGT"), details="why"),
        errors.DuplicateModules(a, b),
        errors.DuplicateModules(a, b, details="same start overhang: 'ACGT'"),
        errors.DuplicateModules(a, b, details="d", other=1),
        errors.MissingModule("ACGT"),
        errors.MissingModule(Seq("ACGT"), details="x"),
        errors.UnusedModules(a, b),
        errors.UnusedModules(a, details=3),
    ]:
        emit("ERR", type(exc).__mro__[1].__name__, ser_exc(exc), repr(exc.args))
    return 12


def main():
    counts = (run_assemblies(), run_parts(), run_records(), run_errors())
    blob = "\n".join(LINES).encode("utf-8")
    print("cases:", counts, "observations:", len(LINES))
    kinds = {}
    for line in LINES:
        parts = line.split(" | ")
        key = parts[1].split(" ", 1)[0] if len(parts) > 1 else "?"
        if key == "EXC":
            key = "EXC " + parts[1].split(" ", 2)[1].split("(")[0]
        kinds[key] = kinds.get(key, 0) + 1
    for k in sorted(kinds):
        print("  %-40s %d" % (k, kinds[k]))
    print("digest:", hashlib.sha256(blob).hexdigest())
    if "--dump" in sys.argv:
        with open(sys.argv[sys.argv.index("--dump") + 1], "w") as f:
            f.write("\n".join(LINES))


if __name__ == "__main__":
    main()
