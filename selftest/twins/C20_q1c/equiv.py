# coding: utf-8
"""Differential test for the registry code (property C20).

Prints a digest of everything observable: results, exception types and
messages, warnings, state of the inputs afterwards.  The digest must be the
same on the pristine tree and with clean.diff applied.

Set C20_DUMP=<path> to write every observation line to a file.
"""
import sys

sys.path.insert(0, "/tmp/agents6/C20")
import tests  # noqa: F401,E402

import copy  # noqa: E402
import gc  # noqa: E402
import hashlib  # noqa: E402
import io  # noqa: E402
import os  # noqa: E402
import random  # noqa: E402
import re  # noqa: E402
import shutil  # noqa: E402
import tarfile  # noqa: E402
import tempfile  # noqa: E402
import warnings  # noqa: E402

import fs  # noqa: E402
import fs.memoryfs  # noqa: E402
import Bio.SeqIO  # noqa: E402
from Bio.Seq import Seq  # noqa: E402
from Bio.SeqFeature import SeqFeature, FeatureLocation  # noqa: E402
from Bio.SeqRecord import SeqRecord  # noqa: E402

from moclo.kits import ytk, cidar, ecoflex  # noqa: E402
from moclo.core import AbstractPart, AbstractModule, AbstractVector  # noqa: E402
from moclo.record import CircularRecord  # noqa: E402
from moclo.registry import base  # noqa: E402
from moclo.registry._utils import find_resistance  # noqa: E402
from moclo.registry.ytk import YTKRegistry, PTKRegistry  # noqa: E402
from moclo.registry.cidar import CIDARRegistry  # noqa: E402
from moclo.registry.ecoflex import EcoFlexRegistry  # noqa: E402
from moclo.registry.plant import PlantRegistry  # noqa: E402

LINES = []
WORK = [None]
_ADDR = re.compile(r"0x[0-9a-fA-F]+")


def note(*parts):
    line = _ADDR.sub("0x?", " | ".join(str(p) for p in parts))
    if WORK[0]:
        line = line.replace(WORK[0], "<work>")
    LINES.append(line)


def observe(label, func, show=repr):
    """Run func, note its result or exception and the warnings it issued."""
    with warnings.catch_warnings(record=True) as caught:
        warnings.simplefilter("always")
        try:
            out = func()
        except BaseException as err:  # noqa
            note(label, "RAISES", type(err).__name__, str(err))
            out = None
        else:
            note(label, "OK", show(out))
    for w in caught:
        note(label, "WARNS", w.category.__name__, str(w.message))
    return out


def show_item(item):
    rec = item.entity.record
    return repr(
        (
            type(item).__name__,
            item.id,
            item.name,
            item.resistance,
            type(item.entity).__name__,
            type(rec).__name__,
            rec.id,
            rec.name,
            rec.description,
            len(rec.seq),
            hashlib.md5(str(rec.seq).encode()).hexdigest()[:8],
            rec.annotations.get("comment"),
            rec.annotations.get("topology"),
            item.record is rec,
            len(rec.features),
        )
    )


def probe_mapping(label, reg, extra_keys=()):
    """Everything the Mapping protocol lets one see of a registry."""
    observe(label + " len", lambda: len(reg))
    keys = observe(label + " iter", lambda: list(reg)) or []
    observe(label + " iter again", lambda: list(iter(reg)))
    observe(label + " len again", lambda: len(reg))
    observe(label + " keys()", lambda: sorted(reg.keys()))
    for k in list(keys) + list(extra_keys):
        observe("%s [%r]" % (label, k), lambda: reg[k], show_item)
        observe("%s %r in" % (label, k), lambda: k in reg)
        observe("%s get(%r)" % (label, k), lambda: reg.get(k), lambda i: repr(i and i.id))
    observe(label + " values ids", lambda: [i.id for i in reg.values()])
    observe(label + " items", lambda: [(k, i.id) for k, i in reg.items()])
    observe(label + " [] in", lambda: [] in reg)
    observe(label + " [[]]", lambda: reg[[]])
    observe(label + " None in", lambda: None in reg)
    observe(label + " 3 in", lambda: 3 in reg)


# --- 1. the five embedded registries -----------------------------------------

EMBEDDED = [YTKRegistry, PTKRegistry, CIDARRegistry, EcoFlexRegistry, PlantRegistry]


def section_embedded():
    for cls in EMBEDDED:
        reg = cls()
        name = cls.__name__
        # len / iter before anything is loaded, then the lot
        observe(name + " cold len", lambda: len(reg))
        observe(name + " cold first", lambda: next(iter(reg)))
        probe_mapping(name, reg, ["pYTK200", "nope", "", "PYTK001", "pytk001"])
        other = cls()
        observe(name + " eq", lambda: (reg == other, hash(reg) == hash(other), reg != 3))
        observe(name + " fresh len", lambda: len(cls()))
        observe(name + " fresh iter", lambda: list(cls()))
        observe(name + " fresh in", lambda: (next(iter(cls())) in cls(), "zz" in cls()))
    observe("abstract embedded", lambda: base.EmbeddedRegistry())
    observe("abstract registry", lambda: base.AbstractRegistry())
    observe("ytk ne ptk", lambda: YTKRegistry() == PTKRegistry())
    observe(
        "class attrs",
        lambda: [
            (c.__name__, c._module, c._file, sorted(getattr(c, "_types", None) or ()))
            for c in EMBEDDED
        ],
    )
    observe("item", lambda: base.Item("a", "b", None, "c"))
    observe("item fields", lambda: base.Item._fields)


# --- 2. home-made embedded archives ------------------------------------------


def genbank_text(record):
    buf = io.StringIO()
    Bio.SeqIO.write([record], buf, "genbank")
    return buf.getvalue()


def variant(record, id_=None, strip_resistance=False, two_cassettes=False, lower=False):
    rec = copy.deepcopy(record)
    if id_ is not None:
        rec.id = rec.name = id_
    if lower:
        rec.seq = Seq(str(rec.seq).lower())
    if strip_resistance:
        rec.features = [
            f
            for f in rec.features
            if not set(f.qualifiers.get("label", []))
            & {"KanR", "CamR", "CmR", "KnR", "AmpR", "SmR", "SpecR"}
        ]
    if two_cassettes:
        for f in rec.features:
            if "CmR" in f.qualifiers.get("label", []):
                f.qualifiers["label"] = list(f.qualifiers["label"]) + ["KanR"]
    return rec


def make_archive(path, members):
    with tarfile.open(path, "w:gz") as tar:
        for name, text in members:
            data = text.encode("utf-8")
            info = tarfile.TarInfo(name)
            info.size = len(data)
            tar.addfile(info, io.BytesIO(data))


def section_custom_embedded(workdir):
    src = YTKRegistry()
    recs = {k: src[k].entity.record for k in ("pYTK002", "pYTK003", "pYTK038", "pYTK047", "pYTK095")}
    pkg = os.path.join(workdir, "c20pkg")
    os.mkdir(pkg)
    with open(os.path.join(pkg, "__init__.py"), "w") as f:
        f.write("")
    sys.path.insert(0, workdir)

    gb = {k: genbank_text(r) for k, r in recs.items()}
    archives = {
        "good.tar.gz": [(k, gb[k]) for k in sorted(gb)],
        "suffixed.tar.gz": [(k + ".gb", gb[k]) for k in sorted(gb)],
        "nested.tar.gz": [("plasmids/" + k, gb[k]) for k in sorted(gb)],
        "dup.tar.gz": [
            ("pYTK002", gb["pYTK002"]),
            ("pYTK003", gb["pYTK003"]),
            ("pYTK002", genbank_text(variant(recs["pYTK038"], id_="pYTK002"))),
        ],
        "renamed.tar.gz": [
            ("alpha", genbank_text(variant(recs["pYTK002"], id_="alpha"))),
            ("beta", genbank_text(variant(recs["pYTK003"], id_="Beta"))),
        ],
        "nores.tar.gz": [
            ("pYTK002", gb["pYTK002"]),
            ("pYTK003", genbank_text(variant(recs["pYTK003"], strip_resistance=True))),
            ("pYTK038", gb["pYTK038"]),
        ],
        "twores.tar.gz": [
            ("pYTK002", genbank_text(variant(recs["pYTK002"], two_cassettes=True))),
        ],
        "lower.tar.gz": [("pYTK002", genbank_text(variant(recs["pYTK002"], lower=True)))],
        "empty.tar.gz": [],
        "garbage.tar.gz": [("pYTK002", gb["pYTK002"]), ("junk", "this is not genbank\n")],
        "untyped.tar.gz": [("pYTK095", gb["pYTK095"]), ("pYTK002", gb["pYTK002"])],
    }
    for fname, members in archives.items():
        make_archive(os.path.join(pkg, fname), members)

    calls = []

    for fname in sorted(archives):

        class Custom(base.EmbeddedRegistry):
            _module = "c20pkg"
            _file = fname

            def _load_entity(self, record):
                calls.append(("entity", record.id))
                return ytk.YTKPart.characterize(record)

        class Hooked(Custom):
            _file = fname  # same archive, other hooks

            def _load_name(self, record):
                calls.append(("name", record.id))
                return record.description.upper()

            def _load_resistance(self, record):
                calls.append(("resistance", record.id))
                try:
                    return base.EmbeddedRegistry._load_resistance(self, record)
                except RuntimeError as err:
                    calls.append(("resistance failed", str(err)))
                    return "none"

        for kind in (Custom, Hooked):
            label = "%s(%s)" % (kind.__name__, fname)
            del calls[:]
            reg = kind()
            observe(label + " cold len", lambda: len(reg))
            probe_mapping(label, reg, ["pYTK002", "pYTK003.gb", "beta", "Beta", "zz"])
            observe(label + " hook calls", lambda: list(calls))
            del reg
            gc.collect()

    class Missing(base.EmbeddedRegistry):
        _module = "c20pkg"
        _file = "missing.tar.gz"

        def _load_entity(self, record):
            return None

    reg = Missing()
    observe("missing len", lambda: len(reg))
    observe("missing iter", lambda: list(reg))
    observe("missing get", lambda: reg["a"])
    observe("missing in", lambda: "a" in reg)
    sys.path.remove(workdir)


# --- 2b. the kit registries' own lookup logic, on home-made archives ----------


def section_kit_subclasses(workdir):
    from moclo.kits import moclo as moclo_kit

    src = YTKRegistry()
    recs = {k: src[k].entity.record for k in ("pYTK002", "pYTK003", "pYTK038", "pYTK047", "pYTK095")}
    pkg = os.path.join(workdir, "c20kits")
    os.mkdir(pkg)
    with open(os.path.join(pkg, "__init__.py"), "w") as f:
        f.write("")
    sys.path.insert(0, workdir)

    def rec(key, id_=None, description=None, comment=None):
        r = variant(recs[key], id_=id_)
        if description is not None:
            r.description = description
        if comment is not None:
            r.annotations["comment"] = comment
        return genbank_text(r)

    archives = {
        "k_ytk.tar.gz": [
            ("pYTK002", rec("pYTK002", comment="first line\nYTK:1\nlast line")),
            ("pYTK003", rec("pYTK003", comment="YTK:234r")),
            ("pYTK038", rec("pYTK038", comment="YTK: 3a")),
        ],
        "k_ytk_nohint.tar.gz": [("pYTK002", rec("pYTK002", comment="nothing here"))],
        "k_ytk_badhint.tar.gz": [("pYTK002", rec("pYTK002", comment="YTK:9z\nYTK:1"))],
        "k_ytk_nocomment.tar.gz": [("pYTK002", rec("pYTK002"))],
        "k_cidar.tar.gz": [
            ("C1_CD", rec("pYTK002", "C1_CD", "MoClo Basic Part: CDS - some thing [x]")),
            ("R1_BC", rec("pYTK003", "R1_BC", "MoClo Basic Part:  RBS (weak)")),
            ("P1_AB", rec("pYTK038", "P1_AB", "MoClo Basic Part: Constitutive promoter")),
            ("DVA_XY", rec("pYTK095", "DVA_XY", "MoClo Destination Vector: whatever")),
            ("DVK_XY", rec("pYTK095", "DVK_XY", "MoClo Destination Vector: whatever - k")),
            ("TU1", rec("pYTK047", "TU1", "MoClo Transcriptional Unit: j-b-c-b")),
            ("DEV1", rec("pYTK047", "DEV1", "MoClo Device: abc")),
        ],
        "k_cidar_dv.tar.gz": [("DVX_XY", rec("pYTK095", "DVX_XY", "MoClo Destination Vector: whatever"))],
        "k_cidar_dv2.tar.gz": [("DV", rec("pYTK095", "DV", "MoClo Destination Vector: whatever"))],
        "k_cidar_type.tar.gz": [("U1", rec("pYTK002", "U1", "MoClo Basic Part: Unknown thing"))],
        "k_cidar_class.tar.gz": [("U2", rec("pYTK002", "U2", "MoClo Strange Thing: CDS"))],
        "k_cidar_nomatch.tar.gz": [("U3", rec("pYTK002", "U3", "nothing to see"))],
        "k_ecoflex.tar.gz": [
            ("pTU1-x", rec("pYTK095", "pTU1-x")),
            ("pTU2-x", rec("pYTK095", "pTU2-x")),
            ("pTU3", rec("pYTK095", "pTU3")),
            ("pTU", rec("pYTK002", "pTU")),
        ],
        "k_plant.tar.gz": [
            ("pYTK002", rec("pYTK002")),
            ("special", rec("pYTK003", "special")),
        ],
    }
    for fname, members in archives.items():
        make_archive(os.path.join(pkg, fname), members)

    def kit(parent, fname, **attrs):
        body = dict(_module="c20kits", _file=fname)
        body.update(attrs)
        return type(str("My" + parent.__name__), (parent,), body)

    def own_entity(self, record):
        return ytk.YTKPart8(record)

    cases = []
    for fname in sorted(archives):
        if fname.startswith("k_ytk"):
            cases.append((fname, kit(YTKRegistry, fname)))
            cases.append((fname + "/ptk", kit(PTKRegistry, fname)))
        elif fname.startswith("k_cidar"):
            cases.append((fname, kit(CIDARRegistry, fname)))
        elif fname.startswith("k_ecoflex"):
            cases.append((fname, kit(EcoFlexRegistry, fname)))
        else:
            cases.append((fname, kit(PlantRegistry, fname)))
            cases.append((fname + "/typed", kit(PlantRegistry, fname, _types={"special": ytk.YTKPart1, "other": None})))
        cases.append((fname + "/overridden", kit(cases[-1][1].__mro__[1], fname, _load_entity=own_entity)))

    for label, cls in cases:
        reg = cls()
        observe("kit %s mro" % label, lambda: [c.__name__ for c in cls.__mro__ if not c.__name__.startswith("_")][:4])
        probe_mapping("kit " + label, reg, ["zz"])
        observe("kit %s comments" % label, lambda: [i.record.annotations.get("comment") for i in reg.values()])
        del reg
        gc.collect()
    sys.path.remove(workdir)


# --- 3. find_resistance -------------------------------------------------------

LABELS = ["KanR", "CamR", "CmR", "KnR", "AmpR", "SmR", "SpecR", "kanr", "CMR", "ori", "GFP", "AmpR promoter", "", "KanR "]


def section_find_resistance():
    rng = random.Random(20)
    for n in range(400):
        features = []
        for _ in range(rng.randrange(0, 6)):
            quals = {}
            roll = rng.random()
            if roll < 0.55:
                quals["label"] = [rng.choice(LABELS) for _ in range(rng.randrange(0, 4))]
            elif roll < 0.62:
                quals["label"] = rng.choice(LABELS)  # a bare string
            elif roll < 0.66:
                quals["label"] = tuple(rng.choice(LABELS) for _ in range(2))
            elif roll < 0.70:
                quals["note"] = [rng.choice(LABELS)]
            elif roll < 0.72:
                quals["label"] = None
            elif roll < 0.74:
                quals["label"] = [["CmR"]]
            start = rng.randrange(0, 50)
            features.append(SeqFeature(FeatureLocation(start, start + 10), type="misc_feature", qualifiers=quals))
        rec = SeqRecord(Seq("ATGC" * 20), id="rec%d" % n, name="r", features=features)
        if n % 3 == 0:
            rec = CircularRecord(rec)
        before = repr([sorted(f.qualifiers.items(), key=repr) for f in rec.features])
        observe("find_resistance %d" % n, lambda: find_resistance(rec))
        after = repr([sorted(f.qualifiers.items(), key=repr) for f in rec.features])
        note("find_resistance %d untouched" % n, before == after, after)


# --- 4. filesystem registries ------------------------------------------------


class CaseInsensitiveMemoryFS(fs.memoryfs.MemoryFS):
    _meta = dict(fs.memoryfs.MemoryFS._meta, case_insensitive=True)


def tree(filesystem):
    return sorted(
        [(p, filesystem.getsize(p)) for p in filesystem.walk.files()]
        + [(p, -1) for p in filesystem.walk.dirs()]
    )


def populate(filesystem, rng, recs):
    keys = sorted(recs)
    gbs = {k: genbank_text(recs[k]) for k in keys}
    layout = [
        ("pYTK002.gb", gbs["pYTK002"]),
        ("pYTK038.gbk", gbs["pYTK038"]),
        ("mine.gb", gbs["pYTK003"]),  # stem differs from the LOCUS
        ("my.plasmid.v2.gbk", gbs["pYTK047"]),
        ("UPPER.GB", gbs["pYTK002"]),
        ("Mixed.Gbk", gbs["pYTK003"]),
        ("flat.gbff", gbs["pYTK002"]),
        ("long.genbank", gbs["pYTK002"]),
        ("notes.txt", "hello\n"),
        ("seq.fasta", ">x\nATGC\n"),
        ("backup.gb.bak", gbs["pYTK002"]),
        ("archive.tar.gb", gbs["pYTK038"]),
        (".gb", gbs["pYTK002"]),
        ("noext", gbs["pYTK002"]),
        ("xgb", gbs["pYTK002"]),
        ("junk.gb", "this is not genbank\n"),
        ("nores.gb", genbank_text(variant(recs["pYTK003"], strip_resistance=True))),
        ("twores.gbk", genbank_text(variant(recs["pYTK002"], two_cassettes=True))),
        ("two.gb", gbs["pYTK002"] + gbs["pYTK003"]),
        ("lower.gb", genbank_text(variant(recs["pYTK002"], lower=True))),
        ("vector.gb", gbs["pYTK095"]),
        ("both.gb", gbs["pYTK002"]),
        ("both.gbk", gbs["pYTK038"]),
        ("odd.xgb", gbs["pYTK002"]),
    ]
    rng.shuffle(layout)
    for name, text in layout:
        filesystem.writetext(name, text)
    filesystem.makedirs("sub.gb")
    filesystem.writetext("sub.gb/inner.gb", gbs["pYTK002"])
    filesystem.makedirs("plain")
    filesystem.writetext("plain/deep.gbk", gbs["pYTK038"])
    filesystem.makedirs("dir.gbk/more")


PROBE_KEYS = [
    "pYTK002", "pYTK038", "mine", "my.plasmid.v2", "my.plasmid", "UPPER", "upper", "Mixed",
    "flat", "long", "notes", "backup", "backup.gb", "archive.tar", "archive", "", "noext", "xgb",
    "junk", "nores", "twores", "two", "lower", "vector", "both", "odd", "sub", "sub.gb/inner",
    "plain/deep", "/pYTK002", "absent", "pYTK002.gb", "dir",
]


def section_filesystem(workdir):
    rng = random.Random(7)
    src = YTKRegistry()
    recs = {k: src[k].entity.record for k in ("pYTK002", "pYTK003", "pYTK038", "pYTK047", "pYTK095")}

    osdir = os.path.join(workdir, "osfs")
    os.mkdir(osdir)
    filesystems = [
        ("mem", fs.open_fs("mem://")),
        ("cimem", CaseInsensitiveMemoryFS()),
        ("os", fs.open_fs(osdir)),
    ]
    for _, filesystem in filesystems:
        populate(filesystem, rng, recs)

    bases = [ytk.YTKPart, ytk.YTKPart1, ytk.YTKPart8, ytk.YTKEntryVector, ytk.YTKCassetteVector, AbstractPart, cidar.CIDARPart]
    extension_sets = [None, ("gb",), ("gbk", "gb"), ("genbank", "gbff", "gb"), (), "gb", ("GB",), ("g*",), ["gb", "gb"], ("gb.bak", "tar.gb"), ("txt",)]

    for fsname, filesystem in filesystems:
        before = tree(filesystem)
        for b in bases:
            for exts in extension_sets:
                if b is not ytk.YTKPart and exts not in (None, ("gbk", "gb")):
                    continue
                label = "fs[%s,%s,%r]" % (fsname, b.__name__, exts)
                if exts is None:
                    reg = observe(label + " new", lambda: base.FilesystemRegistry(filesystem, b), lambda r: type(r).__name__)
                else:
                    reg = observe(label + " new", lambda: base.FilesystemRegistry(filesystem, b, exts), lambda r: type(r).__name__)
                if reg is None:
                    continue
                observe(label + " attrs", lambda: (reg.base.__name__, reg._recurse, reg._extensions, reg._files))
                probe_mapping(label, reg, PROBE_KEYS if (b is ytk.YTKPart and exts in (None, ("gbk", "gb"), (), ("GB",))) else PROBE_KEYS[:6])
                observe(label + " write", lambda: reg.fs.writetext("new.gb", "x"))
        note("fs %s untouched" % fsname, before == tree(filesystem))

    mem = filesystems[0][1]
    for bad in (int, "YTKPart", ytk.YTKPart1(recs["pYTK002"]), None, object, AbstractModule, AbstractVector, ytk.YTKProduct, base.Item):
        observe("fs bad base %r" % (bad,), lambda: base.FilesystemRegistry(mem, bad), lambda r: r.base.__name__)
    observe("fs by url", lambda: sorted(base.FilesystemRegistry(osdir, ytk.YTKPart)))
    observe("fs by bad url", lambda: base.FilesystemRegistry(os.path.join(workdir, "nowhere"), ytk.YTKPart))

    # a registry sees the directory as it is now, not as it was
    live = fs.open_fs("mem://")
    reg = base.FilesystemRegistry(live, ytk.YTKPart)
    observe("live empty", lambda: (len(reg), list(reg), "a" in reg))
    live.writetext("a.gb", genbank_text(recs["pYTK002"]))
    observe("live one", lambda: (len(reg), list(reg), "a" in reg, reg["a"].id))
    live.writetext("b.gbk", genbank_text(recs["pYTK038"]))
    observe("live two", lambda: (len(reg), sorted(reg), reg["b"].id))
    reg._extensions = ("gbk",)
    observe("live ext changed", lambda: (len(reg), sorted(reg), "a" in reg))
    live.remove("b.gbk")
    observe("live removed", lambda: (len(reg), sorted(reg), "b" in reg))
    live.close()
    observe("closed len", lambda: len(reg))
    observe("closed iter", lambda: list(reg))
    observe("closed get", lambda: reg["a"])

    for _, filesystem in filesystems:
        filesystem.close()


# --- 5. combined registries ---------------------------------------------------


def section_combined():
    rng = random.Random(1234)
    src = YTKRegistry()
    recs = {k: src[k].entity.record for k in ("pYTK002", "pYTK003", "pYTK038", "pYTK047")}

    def memreg(files, b=ytk.YTKPart):
        m = fs.open_fs("mem://")
        for name, text in files:
            m.writetext(name, text)
        return base.FilesystemRegistry(m, b)

    gb = {k: genbank_text(r) for k, r in recs.items()}
    pool = {
        "ytk": YTKRegistry(),
        "ytk2": YTKRegistry(),
        "ptk": PTKRegistry(),
        "cidar": CIDARRegistry(),
        "ecoflex": EcoFlexRegistry(),
        "plant": PlantRegistry(),
        # overlaps ytk on two ids, with other content
        "fs_overlap": memreg([("pYTK002.gb", gb["pYTK038"]), ("pYTK003.gbk", gb["pYTK047"]), ("own.gb", gb["pYTK002"])]),
        "fs_small": memreg([("x1.gb", gb["pYTK002"]), ("x2.gb", gb["pYTK003"])]),
        # fails half way through
        "fs_broken": memreg([("a1.gb", gb["pYTK002"]), ("a2.gb", "junk\n"), ("a3.gb", gb["pYTK003"])]),
        "fs_empty": memreg([]),
        "c_empty": base.CombinedRegistry(),
    }
    names = sorted(pool)

    def snapshot(label):
        for n in sorted(pool):
            reg = pool[n]
            if n == "fs_broken":
                observe("%s state %s" % (label, n), lambda: (len(reg), sorted(reg)))
            else:
                observe(
                    "%s state %s" % (label, n),
                    lambda: (len(reg), list(reg) if isinstance(reg, base.CombinedRegistry) else sorted(reg), [reg[k].id for k in reg][:400]),
                )

    def owner(item):
        # which pool member holds this very Item object
        found = []
        for n in sorted(pool):
            reg = pool[n]
            if isinstance(reg, base.EmbeddedRegistry) or isinstance(reg, base.CombinedRegistry):
                if item.id in reg and reg[item.id] is item:
                    found.append(n)
        return found

    for round_ in range(60):
        c = base.CombinedRegistry()
        cname = "c%d" % round_
        steps = rng.randrange(1, 6)
        for step in range(steps):
            pick = rng.choice(names + sorted(k for k in pool if k.startswith("c") and k[1:].isdigit()))
            member = pool[pick]
            label = "%s step%d << %s" % (cname, step, pick)
            if rng.random() < 0.5:
                observe(label, lambda: (c << member) is c)
            else:
                observe(label, lambda: c.add_registry(member))
            observe(label + " keys", lambda: (len(c), list(c)))
            observe(label + " member keys", lambda: (len(member), list(member) if isinstance(member, base.CombinedRegistry) else None))
        if rng.random() < 0.3:
            observe(cname + " self", lambda: (c << c) is c)
        observe(cname + " ids", lambda: [(k, c[k].id, c[k].resistance, type(c[k].entity).__name__) for k in c])
        observe(cname + " owners", lambda: [(k, owner(c[k])) for k in list(c)[::7]])
        for k in ("pYTK002", "pPTK001", "own", "x1", "a1", "a3", "B0015_DE", "zz", ""):
            observe("%s [%r]" % (cname, k), lambda: c[k], show_item)
            observe("%s %r in" % (cname, k), lambda: k in c)
        observe(cname + " [] in", lambda: [] in c)
        observe(cname + " values", lambda: [i.id for i in c.values()])
        pool[cname] = c
        if round_ % 10 == 9:
            snapshot("after %s" % cname)

    # first one wins, whatever the order
    a, b = pool["ytk"], pool["fs_overlap"]
    ab = base.CombinedRegistry() << a << b
    ba = base.CombinedRegistry() << b << a
    observe("first wins ab", lambda: (ab["pYTK002"] is a["pYTK002"], ab["pYTK002"].entity.record.seq == a["pYTK002"].entity.record.seq, len(ab), "own" in ab))
    observe("first wins ba", lambda: (ba["pYTK002"] is a["pYTK002"], str(ba["pYTK002"].entity.record.seq) == str(recs["pYTK038"].seq), len(ba), list(ba)[:4]))
    nested = base.CombinedRegistry() << ba << ab
    observe("first wins nested", lambda: (nested["pYTK002"] is ba["pYTK002"], len(nested), list(nested) == list(ba)))
    nested << pool["ptk"]
    observe("nested grew, members did not", lambda: (len(nested), len(ba), len(ab), "pPTK001" in ba, "pPTK001" in ab))
    snapshot("final")


def main():
    workdir = tempfile.mkdtemp(prefix="equiv_", dir=os.path.dirname(os.path.abspath(__file__)))
    WORK[0] = workdir
    # NB: the loaded table of an embedded registry is shared by all the live
    # instances of the same archive and dropped with the first of them, so
    # make sure no instance of a previous section lingers in a cycle.
    try:
        for section in (
            section_embedded,
            lambda: section_custom_embedded(workdir),
            lambda: section_kit_subclasses(workdir),
            section_find_resistance,
            lambda: section_filesystem(workdir),
            section_combined,
        ):
            gc.collect()
            section()
    finally:
        shutil.rmtree(workdir, ignore_errors=True)
    dump = os.environ.get("C20_DUMP")
    if dump:
        with open(dump, "w") as f:
            f.write("\n".join(LINES) + "\n")
    digest = hashlib.sha256("\n".join(LINES).encode("utf-8")).hexdigest()
    print("observations:", len(LINES))
    print("digest:", digest)


if __name__ == "__main__":
    main()
