# coding: utf-8
"""Differential test for the refactored validation / assembly code.

Run as ``cd /tmp/agents6/C17 && /venv/bin/python pairs_out/C17_q2/equiv.py``.
Prints a digest of every result, exception (type and message), warning and
input state; the digest must be identical before and after the refactoring.
"""
import sys

sys.path.insert(0, "/tmp/agents6/C17")
import tests  # noqa: F401,E402  (splices the kits into the moclo namespace)

import copy  # noqa: E402
import hashlib  # noqa: E402
import importlib  # noqa: E402
import inspect  # noqa: E402
import random  # noqa: E402
import re  # noqa: E402
import warnings  # noqa: E402

warnings.simplefilter("ignore", DeprecationWarning)

from Bio import Restriction  # noqa: E402
from Bio.Seq import Seq  # noqa: E402
from Bio.SeqFeature import SeqFeature, FeatureLocation, Reference  # noqa: E402
from Bio.SeqRecord import SeqRecord  # noqa: E402

from moclo import errors  # noqa: E402
from moclo._utils import isabstract  # noqa: E402
from moclo.core import AbstractModule, AbstractVector, AbstractPart  # noqa: E402
from moclo.core import Entry, EntryVector, Product, Cassette  # noqa: E402
from moclo.core._structured import StructuredRecord  # noqa: E402
from moclo.record import CircularRecord  # noqa: E402
from moclo.regex import DNARegex  # noqa: E402

RNG = random.Random(1717)
IUPAC = "ACGTRYSWKMBDHVN"
CHOICES = {
    "A": "A", "C": "C", "G": "G", "T": "T", "N": "ACGT",
}
LINES = []
COUNTS = {}


ADDRESS = re.compile(r" at 0x[0-9a-fA-F]+")


def log(*fields):
    LINES.append(ADDRESS.sub(" at 0x?", " | ".join(str(f) for f in fields)))


def count(key):
    COUNTS[key] = COUNTS.get(key, 0) + 1


# --- describing things ------------------------------------------------------


def describe_feature(feat):
    quals = sorted((k, repr(v)) for k, v in feat.qualifiers.items())
    return "{}@{}:{}".format(feat.type, feat.location, quals)


def describe_record(rec):
    if rec is None:
        return "None"
    ants = sorted((k, repr(v)) for k, v in rec.annotations.items())
    return "<{} {} id={} name={} feats=[{}] ants={}>".format(
        type(rec).__name__,
        str(rec.seq),
        rec.id,
        rec.name,
        "; ".join(describe_feature(f) for f in rec.features),
        ants,
    )


def describe(value):
    if isinstance(value, SeqRecord):
        return describe_record(value)
    if isinstance(value, Seq):
        return "Seq({})".format(str(value))
    return repr(value)


def attempt(label, func, *args, **kwargs):
    """Call func, log its result or its exception and the warnings it emits."""
    with warnings.catch_warnings(record=True) as caught:
        warnings.simplefilter("always")
        warnings.simplefilter("ignore", DeprecationWarning)
        try:
            result = func(*args, **kwargs)
        except Exception as exc:  # noqa
            outcome = "raise {}: {}".format(type(exc).__name__, exc)
            count(type(exc).__name__)
            result = None
        else:
            outcome = "return {}".format(describe(result))
            count("ok")
    for w in caught:
        outcome += " ~warn {}: {}".format(w.category.__name__, w.message)
        count("warning")
    log(label, outcome)
    return result


# --- building inputs --------------------------------------------------------


def rand_dna(n, alphabet="ACGT"):
    return "".join(RNG.choice(alphabet) for _ in range(n))


def instantiate(structure, lo=0, hi=14):
    """Write a random sequence that follows a structure pattern."""
    out = []
    i = 0
    while i < len(structure):
        c = structure[i]
        if c in "()":
            i += 1
            continue
        nxt = structure[i + 1 : i + 3]
        if nxt.startswith("*"):
            out.append(rand_dna(RNG.randint(lo, hi), CHOICES[c]))
            i += 3 if nxt == "*?" else 2
            continue
        out.append(RNG.choice(CHOICES[c]))
        i += 1
    return "".join(out)


def recase(s):
    mode = RNG.randint(0, 5)
    if mode == 0:
        return s.lower()
    if mode == 1:
        return "".join(c.lower() if RNG.random() < 0.5 else c for c in s)
    return s


def rotate(s):
    k = RNG.randrange(len(s))
    return s[k:] + s[:k]


def corrupt(s):
    k = RNG.randrange(len(s))
    return s[:k] + RNG.choice(IUPAC + IUPAC.lower()) + s[k + 1 :]


def wrap(s, kind, name="rec"):
    if kind == 0:
        return CircularRecord(Seq(s), id=name, name=name)
    if kind == 1:
        return SeqRecord(Seq(s), id=name, name=name, annotations={"topology": "linear"})
    if kind == 2:
        return SeqRecord(Seq(s), id=name, name=name, annotations={"topology": "Circular"})
    if kind == 3:
        return SeqRecord(Seq(s), id=name, name=name)
    return CircularRecord(Seq(s), id=name, name=name, annotations={"topology": "circular"})


def annotate(rec, refs=2):
    """Give a record a couple of features citing numbered references."""
    references = []
    for i in range(refs):
        ref = Reference()
        ref.title = "{}-ref{}".format(rec.id, i)
        ref.authors = "Someone"
        references.append(ref)
    rec.annotations["references"] = references
    n = len(rec)
    for i in range(3):
        a = RNG.randrange(n)
        b = RNG.randint(a, n)
        quals = {"label": ["f{}".format(i)]}
        if refs and i != 1:
            quals["citation"] = ["[{}]".format(RNG.randint(1, refs))]
        rec.features.append(SeqFeature(FeatureLocation(a, b, 1), type="misc_feature", qualifiers=quals))
    return rec


# --- the classes under test -------------------------------------------------


def kit_classes():
    found = []
    for kit in ["ytk", "cidar", "ecoflex", "moclo", "plant"]:
        mod = importlib.import_module("moclo.kits." + kit)
        for name, cls in sorted(vars(mod).items()):
            if (
                inspect.isclass(cls)
                and issubclass(cls, StructuredRecord)
                and cls.__module__ == mod.__name__
                and not isabstract(cls)
            ):
                found.append(cls)
    return found


def generic_classes():
    found = []
    for enz in ["BpiI", "BsaI", "BsmBI", "SapI", "AarI", "BsrDI", "BtsIMutI"]:
        cutter = getattr(Restriction, enz)
        found.append(type(str("Mod" + enz), (AbstractModule,), {"cutter": cutter}))
        found.append(type(str("Vec" + enz), (AbstractVector,), {"cutter": cutter}))
    found.append(type(str("PartM"), (AbstractPart, Entry), {"cutter": Restriction.BsaI, "signature": ("ATGC", "GGTA")}))
    found.append(type(str("PartV"), (AbstractPart, EntryVector), {"cutter": Restriction.BsaI, "signature": ("ATGC", "GGTA")}))
    found.append(type(str("PartM3"), (AbstractPart, Cassette), {"cutter": Restriction.BsrDI, "signature": ("AT", "GG")}))
    return found


def probe(cls, rec, tag):
    """Everything one can ask a structured record, twice, and the state after."""
    before = describe_record(rec)
    obj = attempt(tag + " new", cls, rec)
    if obj is None:
        return
    attempt(tag + " is_valid", obj.is_valid)
    order = ["overhang_start", "overhang_end", "target_sequence"]
    if isinstance(obj, AbstractVector):
        order.append("placeholder_sequence")
    RNG.shuffle(order)
    for meth in order:
        attempt(tag + " " + meth, getattr(obj, meth))
    attempt(tag + " is_valid again", obj.is_valid)
    attempt(tag + " " + order[0] + " again", getattr(obj, order[0]))
    log(tag + " untouched", describe_record(rec) == before)
    # a fresh wrapper asked for data first, validity afterwards
    other = cls(rec)
    attempt(tag + " fresh " + order[-1], getattr(other, order[-1]))
    attempt(tag + " fresh is_valid", other.is_valid)


def run_validation():
    classes = kit_classes() + generic_classes()
    log("classes", len(classes))
    for cls in classes:
        attempt(cls.__name__ + " structure", cls.structure)
        structure = cls.structure()
        for round_ in range(3):
            base = instantiate(structure)
            variants = [
                ("plain", base),
                ("cased", recase(base)),
                ("rotated", rotate(base)),
                ("padded-rotated", rotate(rand_dna(RNG.randint(0, 9)) + recase(base))),
                ("corrupted", corrupt(base)),
                ("corrupted2", rotate(corrupt(base))),
                ("extra-site", rotate(base[: len(base) // 2] + str(cls.cutter.site) + base[len(base) // 2 :])),
                ("extra-site-pad", base + rand_dna(3) + str(cls.cutter.site).lower() + rand_dna(3)),
                ("truncated", base[: RNG.randint(1, max(1, len(base) - 1))]),
                ("noise", rand_dna(RNG.randint(1, 40), IUPAC + IUPAC.lower())),
                ("tiny", rand_dna(RNG.randint(1, 3), IUPAC)),
            ]
            for label, text in variants:
                kind = RNG.choice([0, 0, 0, 4, 1, 2]) if label != "plain" else round_
                rec = wrap(text, kind)
                if RNG.random() < 0.2:
                    annotate(rec)
                probe(cls, rec, "{} {}#{} k{}".format(cls.__name__, label, round_, kind))
    # characterize goes through is_valid of every subclass
    from moclo.kits import ytk

    for i in range(12):
        cls = RNG.choice([ytk.YTKPart1, ytk.YTKPart3a, ytk.YTKPart8])
        text = instantiate(cls.structure())
        if i % 3 == 2:
            text = corrupt(text)
        attempt("characterize {}".format(i), lambda: type(ytk.YTKPart.characterize(wrap(rotate(text), 0))).__name__)


# --- regex ------------------------------------------------------------------


def describe_match(m):
    if m is None:
        return None
    groups = m.match.re.groups
    return [(m.start(), m.end())] + [(m.span(i), describe(m.group(i))) for i in range(groups + 1)]


def run_regex():
    patterns = ["GGTCTCN(NNNN)(NN*N)(NNNN)NGAGACC", "(AT)(N*?)(GC)", "RYSWKM(BDHV)N", "A(C)", "N(NNNN)(NNGTCTTCN*GAAGACNN)(NNNN)N"]
    for p in patterns:
        rx = attempt("regex " + p, DNARegex, p)
        log("regex pattern", rx.pattern, rx.regex.pattern, rx.regex.flags)
        for i in range(14):
            text = recase(rotate(instantiate(p.replace("R", "A").replace("Y", "C").replace("S", "G").replace("W", "T").replace("K", "G").replace("M", "A").replace("B", "C").replace("D", "G").replace("H", "T").replace("V", "A")) + rand_dna(RNG.randint(0, 6))))
            for target in (Seq(text), SeqRecord(Seq(text), id="s"), CircularRecord(Seq(text), id="c"), annotate(CircularRecord(Seq(text), id="ca"))):
                for kwargs in ({}, {"linear": False}, {"pos": 2}, {"pos": 1, "endpos": 5, "linear": False}):
                    attempt("search {} {} {}".format(p, type(target).__name__, sorted(kwargs.items())), lambda: describe_match(rx.search(target, **kwargs)))
        attempt("search str", rx.search, "ACGT")
        attempt("search none", rx.search, None)
    attempt("transcribe", DNARegex._transcribe, "ACGTNRYKMSWBDHV()*?xyz[]")


# --- assemblies -------------------------------------------------------------


def make_module(cutter, start, end, name, extra="", body=None):
    site = str(cutter.site)
    rc = str(Seq(site).reverse_complement())
    gap = cutter.elucidate().index("^") - len(site) if cutter.is_5overhang() else None
    body = body if body is not None else rand_dna(RNG.randint(6, 20), "AC")
    return site + rand_dna(gap, "A") + start + body + extra + end + rand_dna(gap, "A") + rc


def make_vector(cutter, start, end, name, extra=""):
    site = str(cutter.site)
    rc = str(Seq(site).reverse_complement())
    gap = cutter.elucidate().index("^") - len(site)
    # N (first module start) gap rc-site placeholder site gap (last module end) N ...
    return "A" + start + rand_dna(gap, "A") + rc + "CACA" + extra + site + rand_dna(gap, "A") + end + "A" + rand_dna(RNG.randint(4, 12), "AC")


def run_assemblies():
    for enz in ["BpiI", "BsaI", "BsmBI"]:
        cutter = getattr(Restriction, enz)
        Mod = type(str("AMod" + enz), (AbstractModule,), {"cutter": cutter})
        Vec = type(str("AVec" + enz), (AbstractVector,), {"cutter": cutter})
        site = str(cutter.site)
        ovs = ["ATGC", "CGTA", "GGCT", "TTAC", "CAAG", "ACGT", "AGCT"]
        scenarios = []
        for n in range(24):
            scenarios.append(RNG.choice(["ok", "ok", "ok2", "ok3", "missing-first", "missing-mid", "dup", "rc-dup", "palindrome", "unused", "bad-module", "bad-vector", "illegal-module", "illegal-vector", "same-vector", "noise-vector", "cited", "cited-fail", "cited-fail-mid", "lower"]))
        for n, scenario in enumerate(scenarios):
            tag = "asm {} {} {}".format(enz, n, scenario)
            kind = RNG.choice([0, 0, 4])
            vtext = make_vector(cutter, "ATGC", "TTAC", "v")
            chain = [("ATGC", "CGTA"), ("CGTA", "GGCT"), ("GGCT", "TTAC")]
            if scenario == "ok":
                chain = [("ATGC", "TTAC")]
            elif scenario == "ok2":
                chain = [("ATGC", "CAAG"), ("CAAG", "TTAC")]
            elif scenario == "missing-first":
                chain = chain[1:]
            elif scenario == "missing-mid":
                chain = [chain[0], chain[2]]
            elif scenario == "dup":
                chain = chain + [("CGTA", "CAAG")]
            elif scenario == "rc-dup":
                chain = [("ATGC", "GGCT"), ("GGCT", "AGCC"), ("AGCC", "TTAC")]
            elif scenario == "palindrome":
                chain = [("ATGC", "ACGT"), ("ACGT", "TTAC")]
            elif scenario == "unused":
                chain = chain + [("CAAG", "AAAC")]
            texts = [make_module(cutter, a, b, "m") for a, b in chain]
            if scenario == "bad-module":
                texts[RNG.randrange(len(texts))] = rand_dna(RNG.randint(1, 30), IUPAC)
            elif scenario == "bad-vector":
                vtext = corrupt(vtext[:6]) + vtext[8:]
            elif scenario == "noise-vector":
                vtext = rand_dna(RNG.randint(1, 30), IUPAC + "acgtn")
            elif scenario == "illegal-module":
                k = RNG.randrange(len(texts))
                texts[k] = make_module(cutter, chain[k][0], chain[k][1], "m", extra=site)
            elif scenario == "illegal-vector":
                vtext = make_vector(cutter, "ATGC", "TTAC", "v", extra=site + "CA")
            elif scenario == "same-vector":
                vtext = make_vector(cutter, "ATGC", "ATGC", "v")
            elif scenario == "lower":
                vtext = vtext.lower()
                texts = [recase(t) for t in texts]
            if scenario in ("cited-fail",):
                texts = texts[1:]
            if scenario in ("cited-fail-mid",):
                del texts[1]
            vrec = wrap(rotate(vtext), kind, "vec{}".format(n))
            mrecs = [wrap(rotate(t) if RNG.random() < 0.7 else t, 0, "mod{}_{}".format(n, i)) for i, t in enumerate(texts)]
            if scenario.startswith("cited") or RNG.random() < 0.25:
                annotate(vrec)
                for r in mrecs:
                    annotate(r, refs=RNG.randint(0, 3))
            RNG.shuffle(mrecs)
            vector = Vec(vrec)
            modules = [Mod(r) for r in mrecs]
            if RNG.random() < 0.3:
                attempt(tag + " pre-valid", lambda: [vector.is_valid()] + [m.is_valid() for m in modules])
            kwargs = RNG.choice([{}, {}, {"id": "x{}".format(n)}, {"id": "y", "name": "z"}])
            product = attempt(tag + " assemble", vector.assemble, *modules, **kwargs)
            log(tag + " product type", type(product).__name__)
            log(tag + " vector after", describe_record(vrec))
            for r in mrecs:
                log(tag + " module after", describe_record(r))
            attempt(tag + " post-valid", lambda: [vector.is_valid()] + [m.is_valid() for m in modules])
            attempt(tag + " assemble again", vector.assemble, *modules, **kwargs)
            log(tag + " vector after 2", describe_record(vrec))

    # kit level assembly with generated parts
    from moclo.kits import ytk

    for n in range(6):
        vtext = instantiate(ytk.YTKPart8.structure())
        parts = [ytk.YTKPart1, ytk.YTKPart2, ytk.YTKPart3, ytk.YTKPart4, ytk.YTKPart5, ytk.YTKPart6, ytk.YTKPart7]
        if n % 3 == 1:
            parts.remove(ytk.YTKPart3)
        mods = [p(wrap(rotate(instantiate(p.structure())), 0, p.__name__)) for p in parts]
        vec = ytk.YTKPart8(wrap(vtext, 0, "p8"))
        attempt("asm ytk {}".format(n), vec.assemble, *mods)


def run_errors():
    class Dummy(object):
        def __init__(self, id_):
            self.record = SeqRecord(Seq("A"), id=id_)

    a, b = Dummy("a"), Dummy("b")
    cases = [
        errors.InvalidSequence("ACGT"),
        errors.InvalidSequence(Seq("ACGT"), details="bad"),
        errors.InvalidSequence("ACGT", exc=ValueError("x"), details="why {}"),
        errors.IllegalSite(Seq("ACGT")),
        errors.IllegalSite("ACGT", details="d"),
        errors.DuplicateModules(a, b),
        errors.DuplicateModules(a, b, details="same"),
        errors.DuplicateModules(),
        errors.MissingModule("ATGC"),
        errors.MissingModule(Seq("ATGC"), details="nope"),
        errors.UnusedModules(a),
        errors.UnusedModules(a, b, details=3),
        errors.UnusedModules(),
        errors.MocloError("x"),
        errors.AssemblyError("y"),
        errors.AssemblyWarning("z"),
    ]
    for e in cases:
        attempt("str " + type(e).__name__, str, e)
        log("error", type(e).__name__, [c.__name__ for c in type(e).__mro__ if not c.__name__.startswith("_")], sorted(vars(e)), e.args)
    attempt("ctor", errors.InvalidSequence)
    attempt("ctor", errors.MissingModule)
    attempt("ctor", lambda: str(errors.DuplicateModules(a, details=3)))
    attempt("ctor", lambda: str(errors.MissingModule("A", details=3)))
    attempt("ctor", lambda: errors.InvalidSequence("A", None, "d", 1))


def run_class_machinery():
    """How the classes are put together: instantiation checks, hooks, MRO."""
    good = "GGTCTCAATGCCACACACAGGTATGAGACC"
    rec = lambda text=good: CircularRecord(Seq(text), id="r")  # noqa: E731
    attempt("new AbstractModule", AbstractModule, rec())
    attempt("new AbstractVector", AbstractVector, rec())
    attempt("new AbstractPart", AbstractPart, rec())
    attempt("new Entry", Entry, rec())
    blunt = type(str("Blunt"), (AbstractModule,), {"cutter": Restriction.EcoRV})
    attempt("new blunt", blunt, rec())
    bluntv = type(str("BluntV"), (AbstractVector,), {"cutter": Restriction.SmaI})
    attempt("new blunt vector", bluntv, rec())
    bluntp = type(str("BluntP"), (AbstractPart, Entry), {"cutter": Restriction.EcoRV, "signature": ("AT", "GC")})
    attempt("new blunt part", bluntp, rec())
    nosig = type(str("NoSig"), (AbstractPart, Entry), {"cutter": Restriction.BsaI})
    attempt("nosig structure", nosig.structure)
    attempt("nosig valid", lambda: nosig(rec()).is_valid())
    lonely = type(str("Lonely"), (AbstractPart,), {"cutter": Restriction.BsaI, "signature": ("ATGC", "GGTA")})
    attempt("lonely structure", lonely.structure)
    attempt("lonely valid", lambda: lonely(rec()).is_valid())
    attempt("lonely overhang", lambda: lonely(rec()).overhang_start())
    both = type(str("Both"), (AbstractPart, Entry, EntryVector), {"cutter": Restriction.BsaI, "signature": ("ATGC", "GGTA")})
    attempt("both structure", both.structure)
    probe(both, rec(), "both")
    parent = type(str("Parent"), (Entry,), {"cutter": Restriction.BsaI})
    child = type(str("Child"), (parent,), {"structure": staticmethod(lambda: "GGTCTCN(ATGC)(NN*N)(GGTA)NGAGACC")})
    grandchild = type(str("GrandChild"), (child,), {"structure": staticmethod(lambda: "GGTCTCN(TTTT)(NN*N)(GGTA)NGAGACC")})
    for order in ([parent, child, grandchild], [grandchild, child, parent]):
        for cls in order:
            probe(cls, rec(), "hier " + cls.__name__)
            probe(cls, rec("GGTCTCATTTTCACACACAGGTATGAGACC"), "hier2 " + cls.__name__)
    for cls in [AbstractModule, AbstractVector, AbstractPart, Entry, Product, Cassette, EntryVector, parent, child, both, lonely, nosig]:
        log("isabstract", cls.__name__, isabstract(cls), cls.cutter, getattr(cls, "_level", "-"))
        log("bases", cls.__name__, [c.__name__ for c in cls.__mro__ if not c.__name__.startswith("_") and c.__name__ != "TypeIISMixin"])

    # subclass refusing matches through its own means, and one extending validity checks
    class Picky(Entry):
        cutter = Restriction.BsaI

        def is_valid(self):
            return super(Picky, self).is_valid() and len(self.seq) % 2 == 0

    probe(Picky, rec(), "picky even")
    probe(Picky, rec(good + "A"), "picky odd")
    probe(Picky, rec(good[:12] + "GGTCTC" + good[12:]), "picky illegal")

    # the same module handed twice; the manager used directly
    from moclo.core._assembly import AssemblyManager

    Mod = type(str("MM"), (AbstractModule,), {"cutter": Restriction.BsaI})
    Vec = type(str("VV"), (AbstractVector,), {"cutter": Restriction.BsaI})
    vrec = annotate(CircularRecord(Seq("AATGCAGAGACCCACAGGTCTCAGGTAACCACCA"), id="v"))
    mrec = annotate(CircularRecord(Seq(good), id="m"))
    vec, mod = Vec(vrec), Mod(mrec)
    attempt("twice", vec.assemble, mod, mod)
    log("twice state", describe_record(vrec), describe_record(mrec))
    vrec = annotate(CircularRecord(Seq("AATGCAGAGACCCACAGGTCTCAGGTAACCACCA"), id="v"))
    mrec = annotate(CircularRecord(Seq(good), id="m"))
    mgr = attempt("manager", AssemblyManager, Vec(vrec), [Mod(mrec)], "ident", "nom")
    log("manager attrs", sorted(k for k in vars(mgr) if not k.startswith("_")), mgr.id, mgr.name, len(mgr.elements))
    attempt("manager assemble", mgr.assemble)
    attempt("manager assemble again", mgr.assemble)
    log("manager state", describe_record(vrec), describe_record(mrec))
    bad = annotate(CircularRecord(Seq(good), id="m"))
    bad.features[0].qualifiers["citation"] = ["[7]"]
    attempt("bad citation index", Vec(vrec).assemble, Mod(bad))
    log("bad citation state", describe_record(vrec), describe_record(bad))
    bad = annotate(CircularRecord(Seq(good), id="m"))
    bad.features[2].qualifiers["citation"] = ["seven"]
    attempt("bad citation text", Vec(vrec).assemble, Mod(bad))
    log("bad citation state", describe_record(vrec), describe_record(bad))


def main():
    run_regex()
    run_class_machinery()
    run_validation()
    run_assemblies()
    run_errors()
    digest = hashlib.sha256("\n".join(LINES).encode("utf-8")).hexdigest()
    if "--dump" in sys.argv:
        print("\n".join(LINES))
    print("cases:", len(LINES))
    print("outcomes:", sorted(COUNTS.items()))
    print("digest:", digest)


if __name__ == "__main__":
    main()
