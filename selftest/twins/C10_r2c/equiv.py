import sys

sys.path.insert(0, "/tmp/agents7/C10")
import tests  # noqa: E402,F401  (splices the kit packages into the moclo namespace)

import copy  # noqa: E402
import random  # noqa: E402
import re  # noqa: E402
import warnings  # noqa: E402

warnings.filterwarnings("ignore", message=".*pkg_resources.*")

from Bio.Seq import Seq  # noqa: E402
from Bio.SeqFeature import SeqFeature, FeatureLocation, Reference  # noqa: E402
from Bio.Restriction import BpiI, BsaI, BsmBI  # noqa: E402

from moclo.record import CircularRecord  # noqa: E402
from moclo.core.vectors import AbstractVector  # noqa: E402
from moclo.core.modules import AbstractModule  # noqa: E402


# --- building blocks -------------------------------------------------------

ENZYMES = {
    "BpiI": (BpiI, "GAAGAC", 2),
    "BsaI": (BsaI, "GGTCTC", 1),
    "BsmBI": (BsmBI, "CGTCTC", 1),
}
KLASSES = {}
for _name, (_enz, _site, _gap) in ENZYMES.items():
    KLASSES[_name] = (
        type(str("V" + _name), (AbstractVector,), {"cutter": _enz}),
        type(str("M" + _name), (AbstractModule,), {"cutter": _enz}),
    )

OVERHANGS = ["ATGC", "CGTA", "GGAG", "TACT", "AATG", "GCTT", "CCAT", "AGGT"]
TITLES = ["alpha", "beta", "gamma", "delta", "epsilon", "zeta", "eta", "theta"]


def rc(s):
    return str(Seq(s).reverse_complement())


def make_ref(title, rng=None, located=False):
    ref = Reference()
    ref.title = "On " + title
    ref.authors = "Doe J., " + title.capitalize() + " K."
    ref.journal = "J. Mol. Cloning " + str(len(title))
    ref.pubmed_id = str(1000 + TITLES.index(title)) if title in TITLES else ""
    if located:
        ref.location = [FeatureLocation(0, 10)]
    return ref


def clean_dna(rng, n, forbidden):
    while True:
        s = "".join(rng.choice("ACGT") for _ in range(n))
        if not any(f in s for f in forbidden):
            return s


def n_sites(seq, site):
    s = (seq + seq[: len(site) - 1]).upper()
    return s.count(site) + s.count(rc(site))


class Spec(object):
    """A generated input record together with what we know about it."""

    def __init__(self, record, cites, kind):
        self.record = record  # CircularRecord
        self.cites = cites  # label -> [title, ...] cited by that feature
        self.kind = kind


def decorate(rng, record, rid, titles, nfeat, case, shared_pool=None, located=False):
    """Add a reference list and features citing it to ``record``."""
    refs = []
    for t in titles:
        if shared_pool is not None and t in shared_pool and rng.random() < 0.5:
            refs.append(shared_pool[t])  # very same object in several records
        else:
            refs.append(make_ref(t, located=located and rng.random() < 0.5))
    if titles or rng.random() < 0.5:
        record.annotations["references"] = refs
    cites = {}
    n = len(record)
    for k in range(nfeat):
        a = rng.randrange(0, n - 1)
        b = min(n, a + rng.randrange(1, max(2, n // 3)))
        label = "%s/f%d" % (rid, k)
        quals = {"label": [label]}
        if titles and case != "nocite":
            r = rng.random()
            if r < 0.25:
                cited = []
            elif r < 0.65:
                cited = [rng.randrange(len(titles))]
            else:
                cited = [rng.randrange(len(titles)) for _ in range(rng.randrange(2, 4))]
            if cited or rng.random() < 0.3:
                quals["citation"] = ["[%d]" % (c + 1) for c in cited]
            cites[label] = [titles[c] for c in cited]
        else:
            cites[label] = []
        strand = rng.choice([1, -1, None])
        record.features.append(
            SeqFeature(FeatureLocation(a, b, strand), type=rng.choice(["CDS", "misc_feature", "promoter"]), qualifiers=quals)
        )
    return cites


def recase(rng, s, mode):
    if mode == "upper":
        return s
    if mode == "lower":
        return s.lower()
    return "".join(c.lower() if rng.random() < 0.5 else c for c in s)


def build(rng, enzyme="BpiI", nmod=2, case="cite", lettercase="upper", rotate=True,
          share_objects=False, located=False, drop=None, extra=False, same_ovh=False,
          titles_per_record=None):
    """Build (vector, [modules], specs) for one assembly.

    ``drop``: index of a module that is left out (-> MissingModule);
    ``extra``: add a module nobody needs (-> UnusedModules);
    ``same_ovh``: vector with twice the same overhang (-> InvalidSequence).
    """
    enz, site, gap = ENZYMES[enzyme]
    V, M = KLASSES[enzyme]
    forb = [s for (_, s, _) in ENZYMES.values()] + [rc(s) for (_, s, _) in ENZYMES.values()]
    ovhs = rng.sample(OVERHANGS, nmod + 1)
    # reject overhang sets holding reverse-complementing pairs
    while any(rc(a) == b for a in ovhs for b in ovhs):
        ovhs = rng.sample(OVERHANGS, nmod + 1)
    if same_ovh:
        ovhs[-1] = ovhs[0]
    shared_pool = {t: make_ref(t) for t in TITLES} if share_objects else None
    specs = []

    def finish(seq, rid, kind):
        seq = recase(rng, seq, lettercase)
        rec = CircularRecord(Seq(seq), id=rid, name=rid, description="generated " + rid)
        rec.annotations["topology"] = "circular"
        rec.annotations["molecule_type"] = "DNA"
        if titles_per_record is not None:
            titles = list(titles_per_record)
        elif case == "none":
            titles = []
        else:
            titles = rng.sample(TITLES, rng.randrange(0, 5))
        cites = decorate(rng, rec, rid, titles, rng.randrange(2, 7), case, shared_pool, located)
        if rotate:
            rec = rec >> rng.randrange(0, len(rec))
        specs.append(Spec(rec, cites, kind))
        return rec

    while True:
        vseq = (
            clean_dna(rng, 1, forb) + ovhs[0] + clean_dna(rng, gap, forb) + rc(site)
            + clean_dna(rng, rng.randrange(5, 30), forb) + site + clean_dna(rng, gap, forb)
            + ovhs[-1] + clean_dna(rng, 1, forb) + clean_dna(rng, rng.randrange(20, 60), forb)
        )
        if n_sites(vseq, site) == 2:
            break
    vector = V(finish(vseq, "vec", "vector"))
    modules = []
    todo = list(range(nmod))
    for i in todo:
        while True:
            mseq = (
                site + clean_dna(rng, gap, forb) + ovhs[i] + clean_dna(rng, rng.randrange(8, 40), forb)
                + ovhs[i + 1] + clean_dna(rng, gap, forb) + rc(site) + clean_dna(rng, rng.randrange(10, 40), forb)
            )
            if n_sites(mseq, site) == 2:
                break
        rec = finish(mseq, "mod%d" % i, "module")
        if drop is not None and i == drop:
            specs.pop()
            continue
        modules.append(M(rec))
    if extra:
        while True:
            mseq = (
                site + clean_dna(rng, gap, forb) + "TTTT" + clean_dna(rng, 12, forb)
                + "CCCC" + clean_dna(rng, gap, forb) + rc(site) + clean_dna(rng, 15, forb)
            )
            if n_sites(mseq, site) == 2:
                break
        modules.append(M(finish(mseq, "modX", "module")))
    rng.shuffle(modules)
    return vector, modules, specs


# --- observation -----------------------------------------------------------


def ref_key(ref):
    if isinstance(ref, Reference):
        return ("REF", ref.title, ref.authors, ref.journal, ref.pubmed_id, repr(ref.location))
    return ("RAW", repr(ref))


def feature_state(feature):
    quals = []
    for k in sorted(feature.qualifiers):
        v = feature.qualifiers[k]
        if k == "citation":
            v = [x if isinstance(x, str) else ref_key(x) for x in v]
        quals.append((k, repr(v)))
    return (feature.type, str(feature.location), feature.id, tuple(quals))


def record_state(record):
    """Everything observable about a record that matters here."""
    ants = []
    for k in sorted(record.annotations):
        v = record.annotations[k]
        if k == "references":
            v = [ref_key(r) for r in v]
        elif k == "comment":
            v = [re.sub(r"moclo v\S+", "moclo vX", c) for c in v]
        ants.append((k, repr(v)))
    return (
        type(record).__name__,
        str(record.seq),
        record.id,
        record.name,
        record.description,
        tuple(ants),
        tuple(feature_state(f) for f in record.features),
    )


# --- differential run ---------------------------------------------------------

import hashlib  # noqa: E402
import traceback  # noqa: E402

from moclo.core._assembly import AssemblyManager  # noqa: E402

LINES = []


def emit(*parts):
    LINES.append(" | ".join(str(p) for p in parts))


def outcome(func):
    """Run func, return (kind, payload, warnings)."""
    with warnings.catch_warnings(record=True) as caught:
        warnings.simplefilter("always")
        try:
            result = func()
            kind, payload = "ok", result
        except Exception as e:  # noqa
            kind, payload = "exc", (type(e).__module__, type(e).__name__,
                                    re.sub(r"0x[0-9a-f]+", "0x...", str(e)),
                                    type(e.__cause__).__name__, e.__suppress_context__,
                                    sorted(k for k in vars(e)))
    warns = [(w.category.__name__, str(w.message)) for w in caught
             if "pkg_resources" not in str(w.message)]
    return kind, payload, warns


def observe(tag, vector, modules, specs, call, turns=2):
    records = [s.record for s in specs]
    ref_ids = [id(r.annotations.get("references")) for r in records]
    for turn in range(turns):
        kind, payload, warns = outcome(call)
        if kind == "ok":
            emit(tag, turn, "product", record_state(payload))
            emit(tag, turn, "product-type", type(payload).__name__,
                 [type(r).__name__ for r in payload.annotations.get("references", [])])
        else:
            emit(tag, turn, "raised", payload)
        emit(tag, turn, "warnings", warns)
        for r, rid in zip(records, ref_ids):
            emit(tag, turn, "input", r.id, record_state(r),
                 "same-list" if id(r.annotations.get("references")) == rid else "other-list")


def generated(seed, tag, **options):
    rng = random.Random(seed)
    vector, modules, specs = build(rng, **options)
    observe("%s#%d" % (tag, seed), vector, modules, specs, lambda: vector.assemble(*modules))
    return vector, modules, specs


def main():
    # 1. plain generated assemblies: enzymes x number of modules x letter case
    n = 0
    for enzyme in ("BpiI", "BsaI", "BsmBI"):
        for nmod in (1, 2, 3, 4):
            for lettercase in ("upper", "lower", "mixed"):
                for rep in range(4):
                    n += 1
                    generated(10000 + n, "gen", enzyme=enzyme, nmod=nmod, lettercase=lettercase)
    # 2. variations on the references
    for k in range(25):
        generated(20000 + k, "shared-objects", nmod=2, share_objects=True)
        generated(21000 + k, "located", nmod=3, located=True)
        generated(22000 + k, "same-titles", nmod=2, titles_per_record=["alpha", "beta", "gamma"])
        generated(23000 + k, "unrotated", nmod=2, rotate=False)
        generated(24000 + k, "no-references", nmod=2, case="none")
        generated(25000 + k, "no-citations", nmod=2, case="nocite")
    # 3. failing assemblies
    for k in range(12):
        generated(30000 + k, "missing", nmod=3, drop=k % 3, titles_per_record=["alpha", "beta"])
        generated(31000 + k, "unused", nmod=2, extra=True, titles_per_record=["gamma", "beta"])
        generated(32000 + k, "bad-vector", nmod=2, same_ovh=True)
    for k in range(8):
        rng = random.Random(33000 + k)
        vector, modules, specs = build(rng, nmod=2, extra=True, titles_per_record=["alpha", "delta"])

        def strict():
            with warnings.catch_warnings():
                warnings.simplefilter("error")
                return vector.assemble(*modules)

        observe("unused-as-error#%d" % k, vector, modules, specs, strict)
    for k in range(8):  # twice the same module
        rng = random.Random(34000 + k)
        vector, modules, specs = build(rng, nmod=2, titles_per_record=["alpha", "delta"])
        twice = modules + [type(modules[0])(CircularRecord(modules[0].record))]
        observe("duplicate#%d" % k, vector, twice, specs, lambda: vector.assemble(*twice))
    # 4. keyword arguments of assemble, the manager used directly and reused
    for k in range(10):
        rng = random.Random(40000 + k)
        vector, modules, specs = build(rng, nmod=2, titles_per_record=["eta", "zeta", "beta"])
        observe("named#%d" % k, vector, modules, specs,
                lambda: vector.assemble(*modules, id="construct%d" % k, name="c%d" % k, ignored=1))
        manager = AssemblyManager(vector, list(modules), "mgr%d" % k, "m%d" % k)
        emit("manager-attrs", sorted(a for a in vars(manager) if a in ("vector", "modules", "elements", "name", "id")),
             manager.name, manager.id, len(manager.elements))
        observe("manager#%d" % k, vector, modules, specs, manager.assemble, turns=3)
        emit("rx", AssemblyManager._CITATION_RX.pattern)
        # the two halves, by themselves, on one record
        rec = specs[0].record
        kind, payload, warns = outcome(lambda: manager._deref_citations(rec))
        emit("deref#%d" % k, kind, payload if kind == "exc" else None, record_state(rec))
        kind, payload, warns = outcome(lambda: manager._ref_citations(rec))
        emit("ref#%d" % k, kind, payload if kind == "exc" else None, record_state(rec))
    # 5. odd citation values and odd reference lists
    odd = ["[x]", "[]", "[99]", "[0]", "1", "[2] and more", "[-1]", " [1]", "[1", 7, None]
    for k, value in enumerate(odd):
        for where in (0, -1):
            rng = random.Random(50000 + k)
            vector, modules, specs = build(rng, nmod=2, titles_per_record=["alpha", "beta"])
            target = specs[where].record
            target.features[0].qualifiers["citation"] = [value]
            observe("odd-%r@%d" % (value, where), vector, modules, specs,
                    lambda: vector.assemble(*modules), turns=2)
    for k in range(6):  # a bare string instead of a list of values
        rng = random.Random(51000 + k)
        vector, modules, specs = build(rng, nmod=2, titles_per_record=["alpha", "beta"])
        specs[k % 3].record.features[0].qualifiers["citation"] = "[1]"
        observe("bare-string#%d" % k, vector, modules, specs, lambda: vector.assemble(*modules))
    for k in range(6):  # an input listing the same reference twice, citing the second
        rng = random.Random(52000 + k)
        vector, modules, specs = build(rng, nmod=2, titles_per_record=["alpha", "beta", "alpha"])
        for s in specs:
            for f in s.record.features:
                if f.qualifiers.get("citation"):
                    f.qualifiers["citation"][0] = "[3]"
        observe("twice-listed#%d" % k, vector, modules, specs, lambda: vector.assemble(*modules))
    for k in range(6):  # citations but no reference list at all
        rng = random.Random(53000 + k)
        vector, modules, specs = build(rng, nmod=2, titles_per_record=["alpha"])
        del specs[1].record.annotations["references"]
        observe("no-list#%d" % k, vector, modules, specs, lambda: vector.assemble(*modules))
    for k in range(6):  # references as a tuple
        rng = random.Random(54000 + k)
        vector, modules, specs = build(rng, nmod=2, titles_per_record=["alpha", "beta"])
        specs[0].record.annotations["references"] = tuple(specs[0].record.annotations["references"])
        observe("tuple-list#%d" % k, vector, modules, specs, lambda: vector.assemble(*modules))
    # 6. one feature object / one citation list shared by two features, two records
    for k in range(6):
        rng = random.Random(55000 + k)
        vector, modules, specs = build(rng, nmod=2, titles_per_record=["alpha", "beta", "gamma"])
        rec = specs[1].record
        shared = ["[2]", "[3]"]
        rec.features[0].qualifiers["citation"] = shared
        rec.features[1].qualifiers["citation"] = shared
        observe("shared-values#%d" % k, vector, modules, specs, lambda: vector.assemble(*modules))
    # 7. a real kit
    try:
        from moclo.registry.ytk import YTKRegistry

        registry = YTKRegistry()
        for k in range(3):
            entities = []
            for key in ["pYTK095", "pYTK008", "pYTK009", "pYTK033", "pYTK051", "pYTK067"]:
                entity = registry[key].entity
                rec = CircularRecord(entity.record)
                nref = len(rec.annotations.get("references", []))
                for j, f in enumerate(rec.features):
                    if nref and j % 3 == k:
                        f.qualifiers["citation"] = ["[%d]" % (1 + j % nref)]
                entities.append(type(entity)(rec))
            specs = [Spec(e.record, {}, "kit") for e in entities]
            observe("ytk#%d" % k, entities[0], entities[1:], specs,
                    lambda: entities[0].assemble(*entities[1:]))
    except Exception:  # noqa
        emit("ytk", "unavailable", traceback.format_exc().splitlines()[-1])

    # 8. the supporting cast: records, errors, checks
    from moclo import errors as moclo_errors
    from moclo.core._utils import cutter_check, add_as_source
    from moclo._utils import classproperty

    for k in range(30):
        rng = random.Random(60000 + k)
        vector, modules, specs = build(rng, nmod=1, lettercase=rng.choice(["upper", "mixed"]))
        rec = specs[k % 2].record
        rec.letter_annotations["phred_quality"] = [rng.randrange(40) for _ in range(len(rec))]
        shift = rng.randrange(-2 * len(rec), 2 * len(rec))
        emit("rshift", k, record_state(rec >> shift), (rec >> shift).letter_annotations)
        emit("lshift", k, record_state(rec << shift), (rec << shift).letter_annotations)
        emit("revcomp", k, record_state(rec.reverse_complement(id=True, name=True)))
        emit("slice", k, record_state(rec[3:17]), type(rec[5]).__name__, rec[5])
        probe = str(rec.seq[-4:] + rec.seq[:3])
        emit("contains", k, probe in rec, probe.lower() in rec, ("A" * (len(rec) + 1)) in rec)
        emit("copy", k, record_state(CircularRecord(rec[:])), record_state(CircularRecord(rec)))
        for op in (lambda: rec + "A", lambda: "A" + rec, lambda: rec + rec):
            emit("add", k, outcome(op)[:2])
        emit("target", k, record_state(vector.target_sequence()), record_state(vector.placeholder_sequence()),
             str(vector.overhang_start()), str(vector.overhang_end()),
             [record_state(m.target_sequence()) for m in modules], type(vector).structure(), type(modules[0]).structure())
        emit("source", k, record_state(add_as_source(rec, rec[2:30])),
             record_state(add_as_source(rec, rec[2:30], FeatureLocation(1, 5))),
             record_state(add_as_source(rec, rec[2:30], FeatureLocation(4, 4))))
    emit("linear", outcome(lambda: CircularRecord(Seq("ATGC"), annotations={"topology": "linear"}))[:2])
    emit("linear2", outcome(lambda: CircularRecord(Seq("ATGC"), "i", "n", "d", None, None, {"topology": "Circular"}, None).annotations)[:2])
    for exc in (
        moclo_errors.InvalidSequence("ATGC"), moclo_errors.InvalidSequence("ATGC", None, "why {not}"),
        moclo_errors.InvalidSequence("ATGC", exc=ValueError("x"), details="because"),
        moclo_errors.IllegalSite(Seq("ATGC")), moclo_errors.MissingModule(Seq("ATGC")),
        moclo_errors.MissingModule("ATGC", details="d", other=1), moclo_errors.DuplicateModules(details="none"),
        moclo_errors.UnusedModules(), moclo_errors.UnusedModules(details=3),
    ):
        emit("error", type(exc).__mro__, outcome(lambda: str(exc))[:2], sorted(vars(exc).items(), key=str), exc.args)
    for bad in (lambda: AbstractVector(None), lambda: AbstractModule(None)):
        emit("abstract", outcome(bad)[:2])
    from Bio.Restriction import EcoRV
    emit("blunt", outcome(lambda: cutter_check(EcoRV, "X"))[:2], outcome(lambda: cutter_check(NotImplemented, "Some{}Name"))[:2])

    class WithProp(object):
        @classproperty
        def who(cls):
            return cls.__name__

    emit("classproperty", WithProp.who, WithProp().who, type(classproperty).__name__, classproperty.__mro__)

    digest = hashlib.sha256("\n".join(LINES).encode("utf-8")).hexdigest()
    print("%d observations, digest %s" % (len(LINES), digest))
    if "--dump" in sys.argv:
        sys.stderr.write("\n".join(LINES) + "\n")


main()
