# coding: utf-8
"""Differential test: prints a digest of the observable behaviour of the code
touched by the pull request (regex, structured records, kit classes, assembly
manager, registries).  The digest must be identical before / after the change.

Run as: cd /tmp/agents8/C18 && /venv/bin/python pairs_out/C18_s2/equiv.py [dump-file]
"""
import sys

sys.path.insert(0, "/tmp/agents8/C18")
import tests  # noqa: E402,F401

import copy  # noqa: E402
import hashlib  # noqa: E402
import importlib  # noqa: E402
import inspect  # noqa: E402
import random  # noqa: E402
import re  # noqa: E402
import warnings  # noqa: E402

warnings.simplefilter("ignore")

from Bio import Restriction  # noqa: E402
from Bio.Seq import Seq  # noqa: E402
from Bio.SeqFeature import SeqFeature, FeatureLocation, Reference  # noqa: E402
from Bio.SeqRecord import SeqRecord  # noqa: E402

from moclo import errors  # noqa: E402
from moclo.record import CircularRecord  # noqa: E402
from moclo.regex import DNARegex, SeqMatch  # noqa: E402
from moclo import core  # noqa: E402
from moclo.core import modules as core_modules, vectors as core_vectors  # noqa: E402
from moclo.core import parts as core_parts  # noqa: E402
from moclo.core import _assembly, _structured, _utils as core_utils  # noqa: E402
from moclo._utils import isabstract  # noqa: E402
from moclo.kits import ytk, cidar, ecoflex, moclo as moclokit, plant  # noqa: E402

LINES = []
_ADDR = re.compile(r"0x[0-9a-fA-F]+")


def out(*args):
    line = " | ".join(str(a) for a in args)
    line = _ADDR.sub("0x?", line).replace("/tmp/agents8/C18", "<wt>")
    LINES.append(line)


def call(func, *args, **kwargs):
    """Run func, return a printable description of result / exception / warnings."""
    with warnings.catch_warnings(record=True) as caught:
        warnings.simplefilter("always")
        try:
            res = ("ok", func(*args, **kwargs))
        except Exception as exc:  # noqa
            res = ("exc", "{}: {}".format(type(exc).__name__, exc))
    warns = [
        "{}: {}".format(w.category.__name__, w.message)
        for w in caught
        if not issubclass(w.category, (DeprecationWarning, PendingDeprecationWarning))
    ]
    return res, warns


# --- helpers -----------------------------------------------------------------

IUPAC = {
    "A": "A", "C": "C", "G": "G", "T": "T",
    "B": "CGT", "D": "AGT", "H": "ACT", "K": "GT", "M": "AC", "N": "ACGT",
    "R": "AG", "S": "CG", "V": "ACG", "W": "AT", "Y": "CT",
}


def randseq(rng, n):
    return "".join(rng.choice("ACGT") for _ in range(n))


def instantiate(pattern, rng, insert=30, g1=None, g3=None):
    """Build a DNA string matching a structure pattern (moclo DNA regex)."""
    res = []
    group = 0
    depth = 0
    buf = None
    i = 0
    while i < len(pattern):
        c = pattern[i]
        if c == "(":
            depth += 1
            group += 1
            buf = []
            i += 1
            continue
        if c == ")":
            depth -= 1
            content = "".join(buf)
            raw = pattern[pattern.rfind("(", 0, i) + 1 : i]
            override = g1 if group == 1 else g3 if group == 3 else None
            if override is not None and set(raw) == {"N"} and len(raw) == len(override):
                content = override
            res.append(content)
            buf = None
            i += 1
            continue
        if pattern.startswith("*?", i + 1):
            piece = randseq(rng, insert)
            i += 3
        elif pattern.startswith("*", i + 1):
            piece = randseq(rng, insert)
            i += 2
        else:
            piece = rng.choice(IUPAC.get(c.upper(), c))
            i += 1
        (buf if buf is not None else res).append(piece)
    return "".join(res)


def case_variants(rng, text):
    return [
        ("upper", text.upper()),
        ("lower", text.lower()),
        ("swap", "".join(c.lower() if k % 2 else c.upper() for k, c in enumerate(text))),
        ("rand", "".join(c.lower() if rng.random() < 0.5 else c.upper() for c in text)),
    ]


def recase(record, text):
    new = copy.deepcopy(record)
    new.seq = Seq(text)
    return new


def describe_features(record):
    res = []
    for f in record.features:
        quals = sorted((k, repr(v)) for k, v in f.qualifiers.items())
        res.append("{}@{}{}".format(f.type, f.location, quals))
    return res


def describe_record(record):
    if record is None:
        return None
    refs = [
        r.title if isinstance(r, Reference) else repr(r)
        for r in record.annotations.get("references", [])
    ]
    ann = sorted(
        (k, repr(v)) for k, v in record.annotations.items() if k != "references"
    )
    return "{} {} id={} name={} desc={} feats={} ann={} refs={} dbx={} la={}".format(
        type(record).__name__,
        str(record.seq),
        record.id,
        record.name,
        record.description,
        describe_features(record),
        ann,
        refs,
        record.dbxrefs,
        sorted(record.letter_annotations),
    )


def describe(value):
    if isinstance(value, SeqRecord):
        return describe_record(value)
    if isinstance(value, Seq):
        return "Seq({})".format(str(value))
    if isinstance(value, SeqMatch):
        return "SeqMatch({}, {}, shift={})".format(
            value.span(), [value.span(k) for k in range(1, value.match.re.groups + 1)], value.shift
        )
    return repr(value)


def show(tag, res_warns):
    (kind, value), warns = res_warns
    out(tag, kind, describe(value) if kind == "ok" else value, warns)


def mk_record(rng, text, rid, circular=True, topology=None, features=True, citations=False):
    ann = {}
    if topology is not None:
        ann["topology"] = topology
    feats = []
    if features and len(text) > 30:
        a = rng.randrange(0, len(text) - 20)
        feats.append(
            SeqFeature(FeatureLocation(a, a + 15, 1), type="misc_feature", qualifiers={"label": [rid + "-f1"]})
        )
        b = rng.randrange(0, len(text) - 8)
        feats.append(
            SeqFeature(FeatureLocation(b, b + 7, -1), type="CDS", qualifiers={"label": [rid + "-f2"]})
        )
    if citations:
        ref1 = Reference()
        ref1.title = "ref one of " + rid
        ref2 = Reference()
        ref2.title = "ref two of " + rid
        ann["references"] = [ref1, ref2]
        for k, f in enumerate(feats):
            f.qualifiers["citation"] = ["[{}]".format(k % 2 + 1)]
    cls = CircularRecord if circular else SeqRecord
    return cls(Seq(text), id=rid, name=rid, description="d:" + rid, features=feats, annotations=ann)


def rotate_text_record(record, k):
    if isinstance(record, CircularRecord):
        return record >> k
    return record


# --- A. inventory of classes ----------------------------------------------------

KITS = [ytk, cidar, ecoflex, moclokit, plant]
CORE_MODS = [core, core_modules, core_vectors, core_parts, _structured]


def all_classes():
    seen = []
    for mod in CORE_MODS + KITS:
        for name in sorted(vars(mod)):
            obj = vars(mod)[name]
            if inspect.isclass(obj) and issubclass(obj, _structured.StructuredRecord):
                if obj not in seen:
                    seen.append(obj)
    return seen


PUBLIC = [c for c in all_classes() if not c.__name__.startswith("_")]


def public_subclasses(cls):
    """Direct subclasses, looking through private intermediate classes."""
    res = []
    for sub in cls.__subclasses__():
        if sub.__name__.startswith("_"):
            res.extend(s for s in public_subclasses(sub) if s not in res)
        elif sub not in res:
            res.append(sub)
    return res


def section_inventory():
    for mod in CORE_MODS + KITS:
        names = sorted(
            n for n, o in vars(mod).items()
            if inspect.isclass(o) and not n.startswith("_") and o.__module__.startswith("moclo")
        )
        out("A.names", mod.__name__, names)
    for cls in PUBLIC:
        out("A.class", cls.__module__, cls.__name__)
        out("A.mro", cls.__name__, [b.__name__ for b in cls.__mro__ if not b.__name__.startswith("_")])
        out("A.sub", cls.__name__, [[o.__name__, issubclass(cls, o)] for o in PUBLIC if issubclass(cls, o)])
        out("A.subclasses", cls.__name__, [s.__name__ for s in public_subclasses(cls)])
        out("A.attrs", cls.__name__, getattr(cls, "cutter", None), getattr(cls, "signature", None), getattr(cls, "_level", None))
        out("A.abstract", cls.__name__, isabstract(cls), inspect.isabstract(cls))
        out("A.doc", cls.__name__, hashlib.md5((cls.__doc__ or "").encode()).hexdigest())
        show("A.structure " + cls.__name__, call(cls.structure))
        (kind, rx), w = call(cls._get_regex)
        if kind == "ok":
            out("A.regex", cls.__name__, rx.pattern, rx.regex.pattern, rx.regex.flags, rx.regex.groups)
            out("A.regex.cached", cls.__name__, cls._get_regex() is rx, cls.__dict__.get("_regex") is rx)
        else:
            out("A.regex", cls.__name__, rx)
        (kind, obj), w = call(cls, SeqRecord(Seq("ATGC"), id="x"))
        out("A.new", cls.__name__, kind, type(obj).__name__ if kind == "ok" else obj)
    # public function signatures
    for cls in PUBLIC:
        for name in ("structure", "overhang_start", "overhang_end", "target_sequence",
                     "placeholder_sequence", "assemble", "is_valid", "characterize", "__init__", "__new__"):
            f = getattr(cls, name, None)
            if f is not None:
                try:
                    sig = str(inspect.signature(f))
                except (TypeError, ValueError):
                    sig = "?"
                out("A.sig", cls.__name__, name, sig)
    for f in (_assembly.AssemblyManager, _assembly.AssemblyManager.assemble,
              core_utils.cutter_check, core_utils.add_as_source, DNARegex, DNARegex.search,
              DNARegex._transcribe, SeqMatch, SeqMatch.group, SeqMatch.span):
        out("A.fsig", getattr(f, "__qualname__", f), str(inspect.signature(f)))


# --- B. DNARegex ------------------------------------------------------------------

def section_regex():
    rng = random.Random(1801)
    out("B.lettermap", sorted(DNARegex._lettermap.items()))
    patterns = [
        "AA(NN)", "GGTCTCN(NNNN)(NN*N)(NNNN)NGAGACC", "(RY)(N*?)(KM)", "B(D)H(V)W(S)",
        "ggtctcn(nnnn)", "(AACG)(NGAGACCN*?GGTCTCN)(GCTG)", "X(N)", "",
    ]
    for p in patterns:
        show("B.transcribe " + p, call(DNARegex._transcribe, p))
        (kind, rx), w = call(DNARegex, p)
        if kind != "ok":
            out("B.compile", p, rx)
            continue
        out("B.compile", p, rx.pattern, rx.regex.pattern, rx.regex.flags)
        for n in range(12):
            text = randseq(rng, rng.choice([6, 12, 40]))
            if n % 3 == 0:
                text = text[:3] + instantiate(p, rng, insert=5) + text[3:]
            for cname, ctext in case_variants(rng, text):
                k = rng.randrange(0, len(ctext) + 1)
                ctext = ctext[k:] + ctext[:k]
                for target in (Seq(ctext), SeqRecord(Seq(ctext), id="r"), CircularRecord(Seq(ctext), id="c")):
                    for kwargs in ({}, {"linear": False}, {"pos": 2}, {"pos": 1, "endpos": 5}):
                        res = call(rx.search, target, **kwargs)
                        show("B.search {} {} {} {} {}".format(p, cname, ctext, type(target).__name__, sorted(kwargs.items())), res)
                        (kind, m), _ = res
                        if kind == "ok" and m is not None:
                            out("B.match", m.start(), m.end(), m.span(), m.rec is target,
                                [describe(m.group(g)) for g in range(0, m.match.re.groups + 1)])
        show("B.search-str " + p, call(rx.search, "ATGC"))
        show("B.search-none " + p, call(rx.search, None))


# --- C. every kit class on generated plasmids ------------------------------------------

def concrete(cls):
    (kind, _), _w = call(cls.structure)
    if kind != "ok":
        return False
    (kind, _), _w = call(cls, SeqRecord(Seq("A")))
    return kind == "ok"


def make_valid(cls, rng, rid, g1=None, g3=None, tries=40, **kwargs):
    pattern = cls.structure()
    rec = None
    for _ in range(tries):
        text = randseq(rng, rng.randrange(20, 60)) + instantiate(pattern, rng, insert=rng.randrange(20, 50), g1=g1, g3=g3) + randseq(rng, rng.randrange(20, 60))
        rec = mk_record(rng, text, rid, **kwargs)
        try:
            if cls(rec).is_valid():
                return rec
        except Exception:
            pass
    return rec


def observe_entity(tag, cls, record):
    (kind, ent), w = call(cls, record)
    if kind != "ok":
        out(tag, "new", ent)
        return
    before = describe_record(record)
    show(tag + " valid", call(ent.is_valid))
    show(tag + " start", call(ent.overhang_start))
    show(tag + " end", call(ent.overhang_end))
    show(tag + " target", call(ent.target_sequence))
    if hasattr(ent, "placeholder_sequence"):
        show(tag + " placeholder", call(ent.placeholder_sequence))
    show(tag + " valid2", call(ent.is_valid))
    out(tag, "untouched", describe_record(record) == before, ent.record is record, ent.seq is record.seq)


def section_classes():
    rng = random.Random(1802)
    classes = [c for c in PUBLIC if concrete(c)]
    out("C.concrete", [c.__name__ for c in classes])
    for cls in classes:
        base = make_valid(cls, rng, cls.__name__[:12])
        k = rng.randrange(1, len(base))
        # rotate so that the match wraps the origin in some of the cases
        wrapped = base >> (len(base) - 25 - rng.randrange(0, 10))
        for rname, rec in (("plain", base), ("rot", base >> k), ("wrap", wrapped)):
            for cname, ctext in case_variants(rng, str(rec.seq)):
                observe_entity("C {} {} {}".format(cls.__name__, rname, cname), cls, recase(rec, ctext))
        # linear / plain SeqRecord flavours
        text = str(base.seq)
        for topo in (None, "linear", "circular", "LINEAR"):
            lin = mk_record(rng, text.lower() if topo == "linear" else text, "lin", circular=False, topology=topo)
            observe_entity("C {} seqrecord topo={}".format(cls.__name__, topo), cls, lin)
            cut = len(text) // 2
            lin2 = mk_record(rng, text[cut:] + text[:cut], "lin2", circular=False, topology=topo)
            observe_entity("C {} seqrecord-rot topo={}".format(cls.__name__, topo), cls, lin2)
        # cross-typing: a few other classes on this plasmid (lower case)
        for other in rng.sample(classes, 6):
            ent = other(recase(base, str(base.seq).lower()))
            show("C.cross {} as {}".format(cls.__name__, other.__name__), call(ent.is_valid))
        # extra site -> IllegalSite
        site = cls.cutter.site
        ins = str(base.seq)
        m = cls(base)
        if m.is_valid():
            s, e = m._match.span(2)
            mid = (s + (e - s) // 2) % len(ins)
            bad = ins[:mid] + site.lower() + ins[mid:]
            observe_entity("C {} extra-site".format(cls.__name__), cls, mk_record(rng, bad, "bad"))
    # characterize
    for part_base in (ytk.YTKPart, cidar.CIDARPart, ecoflex.EcoFlexPart, moclokit.MoCloPart, core.AbstractPart):
        subs = [c for c in part_base.__subclasses__() if concrete(c)]
        for cls in subs[:8]:
            rec = make_valid(cls, rng, "chr")
            for cname, ctext in case_variants(rng, str(rec.seq))[:3]:
                (kind, ent), w = call(part_base.characterize, recase(rec, ctext))
                out("C.characterize", part_base.__name__, cls.__name__, cname, kind, type(ent).__name__ if kind == "ok" else ent)
        show("C.characterize-none " + part_base.__name__, call(part_base.characterize, mk_record(rng, randseq(rng, 50), "none")))


# --- D. assemblies --------------------------------------------------------------------------

def mock_pair(enzyme):
    class MockVector(core.AbstractVector):
        cutter = enzyme

    class MockModule(core.AbstractModule):
        cutter = enzyme

    return MockVector, MockModule


PAIRS = [
    ("ytk.cassette", ytk.YTKCassetteVector, ytk.YTKEntry),
    ("ytk.device", ytk.YTKDeviceVector, ytk.YTKCassette),
    ("cidar.entry", cidar.CIDAREntryVector, cidar.CIDARProduct),
    ("cidar.cassette", cidar.CIDARCassetteVector, cidar.CIDAREntry),
    ("cidar.device", cidar.CIDARDeviceVector, cidar.CIDARCassette),
    ("ecoflex.cassette", ecoflex.EcoFlexCassetteVector, ecoflex.EcoFlexEntry),
    ("ecoflex.device", ecoflex.EcoFlexDeviceVector, ecoflex.EcoFlexCassette),
    ("moclo.entry", moclokit.MoCloEntryVector, moclokit.MoCloProduct),
    ("moclo.cassette", moclokit.MoCloCassetteVector, moclokit.MoCloEntry),
    ("moclo.single", moclokit.MoCloSingleCassetteVector, moclokit.MoCloEntry),
    ("moclo.device", moclokit.MoCloDeviceVector, moclokit.MoCloCassette),
]
for _name in ("BpiI", "BsaI", "BsmBI", "SapI", "AarI", "BtgZI", "BtsI", "BseRI"):
    _v, _m = mock_pair(getattr(Restriction, _name))
    PAIRS.append(("mock." + _name, _v, _m))


def revcomp(s):
    return str(Seq(s).reverse_complement())


def pick_overhangs(rng, n, size=4):
    res = []
    while len(res) < n:
        o = randseq(rng, size)
        if o == revcomp(o) or o in res or revcomp(o) in res:
            continue
        res.append(o)
    return res


def ovhg_len(cls):
    (kind, pattern), _ = call(cls.structure)
    if kind != "ok":
        return 4
    m = re.search(r"\((N+)\)", pattern)
    return len(m.group(1)) if m else 4


def observe_assembly(tag, vector, mods, **kwargs):
    recs = [vector.record] + [m.record for m in mods]
    before = [describe_record(r) for r in recs]
    n_mods = len(mods)
    res = call(vector.assemble, *mods, **kwargs)
    show(tag, res)
    (kind, value), _ = res
    if kind == "ok":
        out(tag, "type", type(value).__name__, len(value))
    after = [describe_record(r) for r in recs]
    out(tag, "inputs-unchanged", [a == b for a, b in zip(before, after)], len(mods) == n_mods)
    if before != after:
        out(tag, "inputs-after", after)


def section_assemblies():
    rng = random.Random(1803)
    for name, vcls, mcls in PAIRS:
        size = ovhg_len(mcls)
        (kind, _), _w = call(vcls.structure)
        (kind2, _), _w = call(vcls._get_regex)
        if kind != "ok" or kind2 != "ok":
            show("D {} structure".format(name), call(vcls.structure))
            show("D {} regex".format(name), call(vcls._get_regex))
            (k3, v), _w = call(vcls, mk_record(rng, randseq(rng, 80), "v"))
            if k3 == "ok":
                (k4, m), _w = call(mcls, mk_record(rng, randseq(rng, 80), "m"))
                if k4 == "ok":
                    observe_assembly("D {} broken".format(name), v, [m])
            continue
        for n in (1, 2, 4):
            ovs = pick_overhangs(rng, n + 1, size)
            citations = n == 2
            vrec = make_valid(vcls, rng, "vec", g1=ovs[0], g3=ovs[n], citations=citations)
            mrecs = [
                make_valid(mcls, rng, "mod{}".format(i), g1=ovs[i], g3=ovs[i + 1], citations=citations)
                for i in range(n)
            ]
            vrec = vrec >> rng.randrange(0, len(vrec))
            mrecs = [m >> rng.randrange(0, len(m)) for m in mrecs]
            # all case assignments: per record
            assignments = [("upper",) * (n + 1), ("lower",) * (n + 1), ("rand",) * (n + 1)]
            assignments.append(tuple(rng.choice(["upper", "lower", "swap", "rand"]) for _ in range(n + 1)))
            assignments.append(tuple("lower" if i % 2 else "upper" for i in range(n + 1)))
            assignments.append(tuple("upper" if i % 2 else "lower" for i in range(n + 1)))
            for assign in assignments:
                recs = []
                for cname, rec in zip(assign, [vrec] + mrecs):
                    recs.append(recase(rec, dict(case_variants(rng, str(rec.seq)))[cname]))
                order = list(range(n))
                rng.shuffle(order)
                observe_assembly(
                    "D {} n={} {}".format(name, n, "/".join(assign)),
                    vcls(recs[0]), [mcls(recs[1 + i]) for i in order],
                )
            # id / name keyword arguments, plain SeqRecord inputs
            observe_assembly("D {} n={} kwargs".format(name, n), vcls(vrec), [mcls(m) for m in mrecs], id="myid", name="myname", other=1)
            plain = [SeqRecord(r.seq.lower(), id=r.id, name=r.name, features=copy.deepcopy(r.features)) for r in [vrec] + mrecs]
            observe_assembly("D {} n={} seqrecord".format(name, n), vcls(plain[0]), [mcls(p) for p in plain[1:]])
            # failing assemblies
            lower = [recase(r, str(r.seq).lower()) for r in [vrec] + mrecs]
            mixed = [recase(r, dict(case_variants(rng, str(r.seq)))["rand"]) for r in [vrec] + mrecs]
            for cname, recs in (("upper", [vrec] + mrecs), ("lower", lower), ("rand", mixed)):
                if n > 1:
                    observe_assembly("D {} n={} missing {}".format(name, n, cname), vcls(recs[0]), [mcls(r) for r in recs[2:]])
                    observe_assembly("D {} n={} missing-last {}".format(name, n, cname), vcls(recs[0]), [mcls(r) for r in recs[1:-1]])
                observe_assembly("D {} n={} same-twice {}".format(name, n, cname), vcls(recs[0]), [mcls(r) for r in recs[1:]] + [mcls(recs[1])])
                # duplicate: another module with the same start overhang
                dup = make_valid(mcls, rng, "dup", g1=ovs[0], g3=pick_overhangs(rng, 1, size)[0])
                dup = recase(dup, str(dup.seq).lower() if cname == "upper" else str(dup.seq).upper())
                observe_assembly("D {} n={} duplicate {}".format(name, n, cname), vcls(recs[0]), [mcls(r) for r in recs[1:]] + [mcls(dup)])
                # reverse-complementing overhangs
                rc = make_valid(mcls, rng, "rc", g1=revcomp(ovs[0]), g3=pick_overhangs(rng, 1, size)[0])
                rc = recase(rc, str(rc.seq).lower() if cname != "lower" else str(rc.seq).upper())
                observe_assembly("D {} n={} revcomp {}".format(name, n, cname), vcls(recs[0]), [mcls(r) for r in recs[1:]] + [mcls(rc)])
                # unused module
                extra_o = pick_overhangs(rng, 2, size)
                unused = make_valid(mcls, rng, "unused", g1=extra_o[0], g3=extra_o[1])
                unused = recase(unused, dict(case_variants(rng, str(unused.seq)))["swap"])
                observe_assembly("D {} n={} unused {}".format(name, n, cname), vcls(recs[0]), [mcls(unused)] + [mcls(r) for r in recs[1:]])
                # invalid module (garbage) and vector used as module
                garbage = mk_record(rng, randseq(rng, 70), "garbage", citations=citations)
                observe_assembly("D {} n={} garbage {}".format(name, n, cname), vcls(recs[0]), [mcls(r) for r in recs[1:]] + [mcls(garbage)])
                observe_assembly("D {} n={} garbage-vector {}".format(name, n, cname), vcls(garbage), [mcls(r) for r in recs[1:]])
            # vector with twice the same overhang, in several spellings
            same = make_valid(vcls, rng, "same", g1=ovs[0], g3=ovs[0])
            text = str(same.seq)
            ent = vcls(same)
            if ent.is_valid():
                s1 = ent._match.span(1)[0] % len(text)
                low = list(text.upper())
                for j in range(s1, s1 + size):
                    low[j % len(text)] = low[j % len(text)].lower()
                spellings = [("upper", text.upper()), ("lower", text.lower()), ("one-lower", "".join(low)),
                             ("rand", dict(case_variants(rng, text))["rand"])]
                for cname, ctext in spellings:
                    observe_assembly("D {} n={} same-overhangs {}".format(name, n, cname), vcls(recase(same, ctext)), [mcls(m) for m in mrecs])
            # invalid citation
            if citations:
                badc = copy.deepcopy(mrecs[-1])
                badc.features[0].qualifiers["citation"] = ["oops"]
                observe_assembly("D {} n={} bad-citation".format(name, n), vcls(copy.deepcopy(vrec)), [mcls(copy.deepcopy(m)) for m in mrecs[:-1]] + [mcls(badc)])
                badi = copy.deepcopy(mrecs[0])
                badi.features[0].qualifiers["citation"] = ["[7]"]
                observe_assembly("D {} n={} bad-citation-index".format(name, n), vcls(copy.deepcopy(vrec)), [mcls(badi)] + [mcls(copy.deepcopy(m)) for m in mrecs[1:]])

    # AssemblyManager used directly
    v, m = mock_pair(Restriction.BpiI)
    ovs = pick_overhangs(rng, 3)
    vrec = make_valid(v, rng, "vec", g1=ovs[0], g3=ovs[2])
    m1 = make_valid(m, rng, "m1", g1=ovs[0], g3=ovs[1])
    m2 = make_valid(m, rng, "m2", g1=ovs[1], g3=ovs[2])
    mods = [m(recase(m2, str(m2.seq).lower())), m(m1)]
    (kind, mgr), w = call(_assembly.AssemblyManager, v(vrec), mods)
    out("D.manager", kind, sorted(k for k in vars(mgr) if not k.startswith("_")) if kind == "ok" else mgr)
    if kind == "ok":
        out("D.manager.attrs", mgr.modules is mods, mgr.elements == mods + [mgr.vector], mgr.name, mgr.id)
        show("D.manager.modmap", call(lambda: sorted((str(k), x.record.id) for k, x in mgr._generate_modules_map().items())))
        show("D.manager.assemble", call(mgr.assemble))
        show("D.manager.assemble-again", call(mgr.assemble))
    show("D.manager.tuple", call(_assembly.AssemblyManager, v(vrec), tuple(mods)))
    show("D.manager.rx", call(lambda: _assembly.AssemblyManager._CITATION_RX.pattern))


# --- E. registries and real data -----------------------------------------------------------------

def section_registries():
    rng = random.Random(1804)
    from moclo.registry.base import CombinedRegistry, FilesystemRegistry
    from moclo.registry.ytk import YTKRegistry, PTKRegistry
    from moclo.registry.cidar import CIDARRegistry
    from moclo.registry.ecoflex import EcoFlexRegistry
    from moclo.registry.plant import PlantRegistry

    registries = {}
    for R in (YTKRegistry, PTKRegistry, CIDARRegistry, EcoFlexRegistry, PlantRegistry):
        reg = registries[R.__name__] = R()
        out("E.registry", R.__name__, len(reg), sorted(reg) == sorted(reg._data), R._file,
            hash(reg) == hash(R()), reg == R())
        for key in sorted(reg):
            item = reg[key]
            ent = item.entity
            cls = type(ent)
            out("E.item", R.__name__, item.id, item.name, cls.__name__, item.resistance, type(item.record).__name__)
            for cname, ctext in (("orig", str(ent.record.seq)), ("lower", str(ent.record.seq).lower())):
                e2 = cls(recase(ent.record, ctext))
                (kind, valid), _w = call(e2.is_valid)
                line = [kind, valid]
                if kind == "ok" and valid:
                    line += [str(e2.overhang_start()), str(e2.overhang_end()),
                             hashlib.md5(describe_record(e2.target_sequence()).encode()).hexdigest()]
                out("E.entity", R.__name__, item.id, cname, line)
    for R in (YTKRegistry, CIDARRegistry, EcoFlexRegistry, PlantRegistry):
        for attr in ("_types", "_CLASSES", "_TYPES", "_VECTORS"):
            table = getattr(R, attr, None)
            if table is not None and table is not NotImplemented:
                out("E.table", R.__name__, attr, sorted((k, v.__name__) for k, v in table.items()), len(table))
    comb = CombinedRegistry() << registries["YTKRegistry"] << registries["PTKRegistry"]
    out("E.combined", len(comb), sorted(comb)[:5], "pYTK002" in comb)

    # characterize on real plasmids, mixed case
    reg = registries["EcoFlexRegistry"]
    for key in sorted(reg)[:25]:
        rec = reg[key].entity.record
        for cname, ctext in case_variants(rng, str(rec.seq))[1:]:
            (kind, ent), _w = call(ecoflex.EcoFlexPart.characterize, recase(rec, ctext))
            out("E.characterize", key, cname, kind, type(ent).__name__ if kind == "ok" else ent)

    # real assemblies (CIDAR registry)
    reg = registries["CIDARRegistry"]
    cases = [
        ("DVK_EF", ("J23102_EB", "BCD2_BC", "E1010m_CD", "B0015_DF")),
        ("DVK_AE", ("J23102_AB", "BCD2_BC", "E1010m_CD", "B0015_DE")),
        ("DVA_EF", ("J23102_EB", "BCD2_BC", "E1010m_CD", "B0015_DF")),
        ("DVA_AF", ("pJ02B2Rm_AE", "pJ02B2Gm_EF")),
        ("DVK_AE", ("J23102_AB", "BCD2_BC", "B0015_DE")),
        ("DVK_AE", ("J23102_AB", "J23102_AB", "BCD2_BC", "E1010m_CD", "E0040m_CD", "B0015_DE")),
    ]
    for vid, mids in cases:
        for assign in ("orig", "lower", "mixed", "rand"):
            def variant(rec, k):
                text = str(rec.seq)
                if assign == "orig":
                    return copy.deepcopy(rec)
                if assign == "lower":
                    return recase(rec, text.lower())
                if assign == "mixed":
                    return recase(rec, text.lower() if k % 2 else text.upper())
                return recase(rec, dict(case_variants(rng, text))["rand"])
            vent = reg[vid].entity
            vector = type(vent)(variant(vent.record, 0))
            mods = []
            for k, mid in enumerate(mids):
                ment = reg[mid].entity
                mods.append(type(ment)(variant(ment.record, k + 1)))
            observe_assembly("E.cidar {} {} {}".format(vid, "+".join(mids), assign), vector, mods)

    # real assembly (YTK integration vector)
    import Bio.SeqIO
    import fs.archive
    from tests._utils import DATAFS
    with fs.archive.open_archive(DATAFS, "cases/ytk_integration_vector.tar.xz") as casefs:
        with casefs.open("vector.fa") as f:
            vec = CircularRecord(Bio.SeqIO.read(f, "fasta"))
        with casefs.open("modules.fa") as f:
            mods = {r.id: CircularRecord(r) for r in Bio.SeqIO.parse(f, "fasta")}
    types_ = {"pYTK008.gb": ytk.YTKPart1, "pYTK047.gb": ytk.YTKPart234r, "pYTK073.gb": ytk.YTKPart5,
              "pYTK074.gb": ytk.YTKPart6, "pYTK086.gb": ytk.YTKPart7, "pYTK092.gb": ytk.YTKPart8b}
    for assign in ("orig", "lower", "mixed"):
        def variant(rec, k):
            text = str(rec.seq)
            if assign == "orig":
                return copy.deepcopy(rec)
            return recase(rec, text.lower() if (assign == "lower" or k % 2) else text.upper())
        vector = ytk.YTKPart8a(variant(vec, 0))
        ents = [types_[k](variant(mods[k], i + 1)) for i, k in enumerate(sorted(mods))]
        observe_assembly("E.ytk integration " + assign, vector, ents)

    # filesystem registry (characterize)
    import fs as _fs
    import six
    memfs = _fs.open_fs("mem://")
    yreg = registries["YTKRegistry"]
    for key in ("pYTK002", "pYTK047", "pYTK095"):
        buff = six.StringIO()
        Bio.SeqIO.write([yreg[key].entity.record], buff, "genbank")
        with memfs.open(key + ".gb", "w") as f:
            f.write(buff.getvalue())
    freg = FilesystemRegistry(memfs, ytk.YTKPart)
    out("E.fsreg", sorted(freg), len(freg))
    for key in sorted(freg):
        (kind, item), _w = call(freg.__getitem__, key)
        out("E.fsreg.item", key, kind, (item.id, type(item.entity).__name__, item.resistance) if kind == "ok" else item)
    show("E.fsreg.bad", call(FilesystemRegistry, memfs, int))


# --- F. exception objects, unusual sequence types -----------------------------------------------

def exc_details(func, *args):
    with warnings.catch_warnings(record=True) as caught:
        warnings.simplefilter("always")
        try:
            func(*args)
        except Exception as exc:  # noqa
            info = [type(exc).__name__, str(exc), type(exc.__cause__).__name__, exc.__suppress_context__,
                    type(exc.__context__).__name__]
            for attr in ("start_overhang", "details", "sequence", "exc"):
                if hasattr(exc, attr):
                    value = getattr(exc, attr)
                    info.append((attr, type(value).__name__, str(value)[:80]))
            for attr in ("duplicates", "remaining"):
                if hasattr(exc, attr):
                    info.append((attr, [x.record.id for x in getattr(exc, attr)]))
            info.append(("args", len(exc.args), [type(a).__name__ for a in exc.args]))
            return info
    res = ["no exception"]
    for w in caught:
        if isinstance(w.message, errors.UnusedModules):
            res.append(("remaining", [x.record.id for x in w.message.remaining], str(w.message.details)))
    return res


def section_extras():
    from Bio.Seq import MutableSeq
    rng = random.Random(1805)
    v, m = mock_pair(Restriction.BsaI)
    ovs = pick_overhangs(rng, 5)
    vrec = make_valid(v, rng, "vec", g1=ovs[0], g3=ovs[3])
    mrecs = [make_valid(m, rng, "m{}".format(i), g1=ovs[i], g3=ovs[i + 1]) for i in range(3)]
    extra = make_valid(m, rng, "extra", g1=ovs[1], g3=ovs[4])
    rcm = make_valid(m, rng, "rcm", g1=revcomp(ovs[2]), g3=ovs[4])
    pal = make_valid(m, rng, "pal", g1="ACGT", g3=ovs[4])
    unused = make_valid(m, rng, "unused", g1=ovs[4], g3=ovs[0])
    same = make_valid(v, rng, "same", g1=ovs[0], g3=ovs[0])
    for cname in ("upper", "lower", "swap", "rand"):
        def cv(rec):
            return recase(rec, dict(case_variants(rng, str(rec.seq)))[cname])
        mods = [m(cv(r)) for r in mrecs]
        out("F.missing", cname, exc_details(v(cv(vrec)).assemble, mods[0], mods[2]))
        out("F.missing-first", cname, exc_details(v(cv(vrec)).assemble, mods[1], mods[2]))
        out("F.duplicate", cname, exc_details(v(cv(vrec)).assemble, mods[0], mods[1], mods[2], m(extra)))
        out("F.revcomp", cname, exc_details(v(cv(vrec)).assemble, mods[0], mods[1], mods[2], m(cv(rcm))))
        out("F.palindrome", cname, exc_details(v(cv(vrec)).assemble, mods[0], mods[1], mods[2], m(cv(pal))))
        out("F.unused", cname, exc_details(v(cv(vrec)).assemble, m(cv(unused)), mods[2], mods[1], mods[0]))
        out("F.same", cname, exc_details(v(cv(same)).assemble, *mods))
        out("F.garbage", cname, exc_details(v(cv(vrec)).assemble, mods[0], m(mk_record(rng, randseq(rng, 60), "g"))))
        out("F.ok", cname, exc_details(v(cv(vrec)).assemble, *mods))
    # records holding a MutableSeq, a vector given as module, modules of another kit
    def mutable(rec):
        new = copy.deepcopy(rec)
        new.seq = MutableSeq(str(rec.seq))
        return new
    out("F.mutable-module", exc_details(v(vrec).assemble, *[m(mutable(r)) for r in mrecs]))
    out("F.mutable-vector", exc_details(v(mutable(vrec)).assemble, *[m(r) for r in mrecs]))
    out("F.vector-as-module", exc_details(v(vrec).assemble, v(vrec)))
    out("F.none-module", exc_details(v(vrec).assemble, None))
    out("F.other-kit", exc_details(v(vrec).assemble, *[ytk.YTKEntry(r) for r in mrecs]))
    out("F.other-kit-wrong", exc_details(v(vrec).assemble, *[ytk.YTKCassette(r) for r in mrecs]))
    from moclo.registry._utils import find_resistance, _ANTIBIOTICS
    out("F.antibiotics", sorted(_ANTIBIOTICS.items()), len(_ANTIBIOTICS), "KanR" in _ANTIBIOTICS)
    for label in ("KanR", "CmR", "SpecR", "nothing"):
        rec = mk_record(rng, randseq(rng, 60), "res")
        rec.features[0].qualifiers["label"] = [label]
        show("F.resistance " + label, call(find_resistance, rec))
    rec.features[0].qualifiers["label"] = ["KanR", "AmpR"]
    show("F.resistance two", call(find_resistance, rec))


def main():
    for section in (section_inventory, section_regex, section_classes, section_assemblies, section_registries, section_extras):
        n = len(LINES)
        section()
        print("{}: {} observations".format(section.__name__, len(LINES) - n))
    blob = "\n".join(LINES).encode("utf-8")
    if len(sys.argv) > 1:
        with open(sys.argv[1], "wb") as f:
            f.write(blob)
    print("observations: {}".format(len(LINES)))
    print("digest: {}".format(hashlib.sha256(blob).hexdigest()))


if __name__ == "__main__":
    main()
