# coding: utf-8
"""Differential test for the C04 pull requests.

Exercises structures, matching, overhangs, targets, placeholders, assemblies,
part characterisation, the DNA regex layer and the embedded registries through
the public API on generated inputs, and prints a digest of everything observed
(results, exception types and messages, warnings, state of the inputs after the
call). Pass a file name to also dump the individual lines.
"""
import copy
import hashlib
import inspect
import random
import re
import sys
import warnings

sys.path.insert(0, "/tmp/agents8/C04")
warnings.simplefilter("ignore")
import tests  # noqa: E402,F401

from Bio.Seq import Seq  # noqa: E402
from Bio.SeqRecord import SeqRecord  # noqa: E402
from Bio.SeqFeature import SeqFeature, FeatureLocation  # noqa: E402
from Bio.Restriction import (  # noqa: E402
    BsaI, BsmBI, BbsI, BpiI, SapI, FokI, BsrDI, BseRI, BciVI, BsrI, EcoRV, EcoRI, MmeI,
)
from moclo import errors  # noqa: E402
from moclo.record import CircularRecord  # noqa: E402
from moclo.regex import DNARegex  # noqa: E402
from moclo.core import (  # noqa: E402
    AbstractModule, AbstractVector, AbstractPart, Product, Entry, Cassette,
    Device, EntryVector, CassetteVector, DeviceVector,
)
from moclo.kits import ytk, cidar, ecoflex, moclo as mk, plant  # noqa: E402

LINES = []
IUPAC = {
    "A": "A", "C": "C", "G": "G", "T": "T",
    "R": "AG", "Y": "CT", "S": "CG", "W": "AT", "K": "GT", "M": "AC",
    "B": "CGT", "D": "AGT", "H": "ACT", "V": "ACG", "N": "ACGT",
}
TOKEN = re.compile(r"N\*\??|[A-Z]|[()]")


def scrub(text):
    text = re.sub(r"0x[0-9a-fA-F]+", "0x?", text)
    return text.replace("/tmp/agents8/C04", "<wt>")


def out(*items):
    LINES.append(scrub(" | ".join(str(i) for i in items)))


def outcome(func, *args, **kwargs):
    """Describe what calling func gives: value, or exception type + message."""
    with warnings.catch_warnings(record=True) as caught:
        warnings.simplefilter("always")
        try:
            value = func(*args, **kwargs)
            res = "ok:" + describe(value)
        except Exception as err:  # noqa
            res = "raise:{}:{}".format(type(err).__name__, err)
    for w in caught:
        if issubclass(w.category, errors.MocloError):
            res += " warn:{}:{}".format(w.category.__name__, w.message)
    return res


def describe_features(record):
    feats = []
    for f in record.features:
        quals = sorted((k, str(v)) for k, v in f.qualifiers.items())
        feats.append("{}@{}{}".format(f.type, f.location, quals))
    return feats


def describe(value):
    if isinstance(value, SeqRecord):
        return "{}({};{};{};{};{};ann={};feat={};dbx={})".format(
            type(value).__name__, value.seq, value.id, value.name,
            value.description, len(value),
            sorted((k, str(v)) for k, v in value.annotations.items()),
            describe_features(value), value.dbxrefs)
    if isinstance(value, Seq):
        return "Seq({})".format(value)
    if isinstance(value, (AbstractModule, AbstractVector, AbstractPart)):
        return "<{} of {}>".format(type(value).__name__, value.record.id)
    return repr(value)


def instantiate(pattern, rng, filler):
    chunks = []
    for tok in TOKEN.findall(pattern):
        if tok in "()":
            continue
        if tok.startswith("N*"):
            chunks.append("".join(rng.choice("ACGT") for _ in range(filler)))
        else:
            chunks.append(rng.choice(IUPAC[tok]))
    return "".join(chunks)


def kit_classes():
    found = []
    for module in (ytk, cidar, ecoflex, mk, plant):
        for name, obj in sorted(vars(module).items()):
            if inspect.isclass(obj) and obj.__module__ == module.__name__ and issubclass(
                obj, (AbstractModule, AbstractVector, AbstractPart)
            ):
                found.append(obj)
    return found


def generic_classes():
    found = []
    for enzyme in (BsaI, BsmBI, BbsI, SapI, FokI, BsrDI, BseRI, BciVI, BsrI, MmeI,
                   EcoRV, EcoRI, NotImplemented):
        k = abs(enzyme.ovhg) if enzyme is not NotImplemented and enzyme.ovhg else 4
        sig = ("ACGT"[:k], "TTGA"[:k])
        for base in (AbstractModule, Product, Device, AbstractVector, EntryVector):
            found.append(type(str("G{}{}".format(base.__name__, enzyme)), (base,),
                              {"cutter": enzyme}))
        for base in (Entry, CassetteVector):
            found.append(type(str("GP{}{}".format(base.__name__, enzyme)),
                              (AbstractPart, base), {"cutter": enzyme, "signature": sig}))
    found.append(type(str("GPOrphan"), (AbstractPart,), {"cutter": BsaI, "signature": ("AAAA", "CCCC")}))
    found.append(type(str("GPNoSig"), (AbstractPart, Entry), {"cutter": BsaI}))
    found.append(type(str("GPLower"), (AbstractPart, Entry), {"cutter": BsaI, "signature": ("aacg", "gctg")}))
    return found


def observe(cls, record, tag):
    """Everything observable about cls applied to record."""
    before = describe(record)
    res = [cls.__name__, tag]
    try:
        entity = cls(record)
    except Exception as err:  # noqa
        out(cls.__name__, tag, "init raise:{}:{}".format(type(err).__name__, err))
        return None
    res.append(outcome(entity.is_valid))
    res.append(outcome(entity.is_valid))
    for name in ("overhang_start", "overhang_end", "target_sequence", "placeholder_sequence"):
        method = getattr(entity, name, None)
        if method is not None:
            res.append(name + "=" + outcome(method))
            if name == "target_sequence":
                res.append(name + "=" + outcome(method))
    res.append("unchanged" if describe(record) == before else "CHANGED:" + describe(record))
    out(*res)
    return entity


def make_record(seq, rid, circular=True, rng=None, topology=None):
    feats = []
    n = len(seq)
    if rng is not None and n > 12:
        a = rng.randrange(0, n - 6)
        b = rng.randrange(a + 1, n)
        feats.append(SeqFeature(FeatureLocation(a, b, strand=rng.choice([1, -1])), type="misc_feature",
                                qualifiers={"label": ["f{}".format(a)], "citation": ["[1]"]}))
        feats.append(SeqFeature(FeatureLocation(0, n, strand=1), type="source", qualifiers={"organism": ["x"]}))
    ann = {"molecule_type": "DNA", "references": ["REF-{}".format(rid)]}
    if topology is not None:
        ann["topology"] = topology
    rec = SeqRecord(Seq(seq), id=rid, name=rid, description="d-" + rid, features=feats, annotations=ann)
    return CircularRecord(rec) if circular else rec


def rotate(seq, k):
    k %= len(seq)
    return seq[k:] + seq[:k]


def section_structures(classes):
    for cls in classes:
        out("structure", cls.__name__, outcome(cls.structure),
            [c.__name__ for c in cls.__mro__ if c.__module__.startswith("moclo") and not c.__name__.startswith("_")
             and c.__name__ in ("AbstractModule", "AbstractVector", "AbstractPart", "Product", "Entry", "Cassette",
                                "Device", "EntryVector", "CassetteVector", "DeviceVector")],
            getattr(cls, "cutter", None), getattr(cls, "signature", None), getattr(cls, "_level", None))


def section_records(classes, rng):
    pool = []  # (name, seq) of plasmids of every class, for cross application
    for cls in classes:
        try:
            pattern = cls.structure()
        except Exception:  # noqa
            observe(cls, make_record("ATGCATGCATGCGGTCTCAATGC", "r"), "nostructure")
            continue
        try:
            re.compile(DNARegex._transcribe(pattern))
        except re.error:
            observe(cls, make_record("ATGCATGCATGCGGTCTCAATGC", "r"), "badpattern")
            continue
        seq = instantiate(pattern, rng, 14) + "".join(rng.choice("ACGT") for _ in range(21))
        pool.append((cls.__name__, seq))
        n = len(seq)
        # rotations, including those where the match wraps the origin
        shifts = sorted(set([0, 1, 2, 5, 6, 7, 8, 9, 10, 11, 12, n - 1, n - 2, n - 5, n // 2] +
                            [rng.randrange(n) for _ in range(4)]))
        for k in shifts:
            observe(cls, make_record(rotate(seq, k), "rot{}".format(k), rng=rng), "rot{}".format(k))
        low = "".join(c.lower() if rng.random() < 0.5 else c for c in seq)
        observe(cls, make_record(rotate(low, 3), "mixed", rng=rng), "mixedcase")
        observe(cls, make_record(seq, "plain", circular=False, rng=rng), "plain-seqrecord")
        observe(cls, make_record(seq, "plainlin", circular=False, topology="linear"), "plain-linear")
        observe(cls, make_record(rotate(seq, 9), "plainlin9", circular=False, topology="LINEAR"), "plain-linear-rot")
        observe(cls, make_record(seq, "circ-ann", circular=True, topology="Circular"), "circular-ann")
        # one more cutter site, direct or reverse, somewhere
        cutter = cls.cutter
        for i in range(4):
            site = "".join(rng.choice(IUPAC[c]) for c in cutter.site)
            if i % 2:
                site = str(Seq(site).reverse_complement())
            pos = rng.randrange(n)
            extra = seq[:pos] + site + seq[pos:]
            observe(cls, make_record(rotate(extra, rng.randrange(len(extra))), "extra{}".format(i)), "extra-site")
        # mutated letters
        for i in range(4):
            pos = rng.randrange(n)
            mut = seq[:pos] + rng.choice("ACGTN") + seq[pos + 1:]
            observe(cls, make_record(rotate(mut, rng.randrange(n)), "mut{}".format(i)), "mutated")
        observe(cls, make_record("ATG", "tiny"), "tiny")
    # neighbouring structures: every plasmid against a sample of classes
    usable = [c for c in classes if c.__name__ in dict(pool)]
    for name, seq in pool:
        for cls in rng.sample(usable, 6):
            observe(cls, make_record(rotate(seq, rng.randrange(len(seq))), "x-" + name), "cross:" + name)
    return pool


def build_assembly_inputs(vcls, mcls, rng, n_modules, rotate_by=None):
    """A vector of vcls and a chain of modules of mcls with matching overhangs."""
    k = abs(vcls.cutter.ovhg)
    ovs = []
    while len(ovs) < n_modules + 1:
        o = "".join(rng.choice("ACGT") for _ in range(k))
        if o not in ovs and str(Seq(o).reverse_complement()) not in ovs and o != str(Seq(o).reverse_complement()):
            ovs.append(o)

    def fill(pattern, first, last):
        groups = re.findall(r"\(([^()]*)\)", pattern)
        assert len(groups) == 3
        done = pattern.replace("(" + groups[0] + ")", first, 1)
        idx = done.rindex("(" + groups[2] + ")")
        done = done[:idx] + last + done[idx + len(groups[2]) + 2:]
        return instantiate(done, rng, rng.randint(8, 20))

    vseq = fill(vcls.structure(), ovs[0], ovs[-1]) + "".join(rng.choice("ACGT") for _ in range(30))
    mods = []
    for i in range(n_modules):
        mseq = fill(mcls.structure(), ovs[i], ovs[i + 1]) + "".join(rng.choice("ACGT") for _ in range(15))
        mods.append(mseq)
    if rotate_by is not None:
        vseq = rotate(vseq, rotate_by)
        mods = [rotate(m, rotate_by + i) for i, m in enumerate(mods)]
    return vseq, mods


def section_assemblies(rng):
    combos = [
        (cidar.CIDAREntryVector, cidar.CIDARProduct), (cidar.CIDARCassetteVector, cidar.CIDAREntry),
        (cidar.CIDARDeviceVector, cidar.CIDARCassette), (ecoflex.EcoFlexCassetteVector, ecoflex.EcoFlexEntry),
        (ecoflex.EcoFlexDeviceVector, ecoflex.EcoFlexCassette), (mk.MoCloEntryVector, mk.MoCloProduct),
        (mk.MoCloCassetteVector, mk.MoCloEntry), (mk.MoCloSingleCassetteVector, mk.MoCloEntry),
        (mk.MoCloDeviceVector, mk.MoCloCassette), (ytk.YTKEntryVector, ytk.YTKCassette),
        (ytk.YTKCassetteVector, ytk.YTKEntry), (ytk.YTKDeviceVector, ytk.YTKCassette),
    ]
    for vcls, mcls in combos:
        for trial in range(5):
            nmod = rng.randint(1, 4)
            vseq, mseqs = build_assembly_inputs(vcls, mcls, rng, nmod, rotate_by=[None, 3, 7, 11, 40][trial])
            vrec = make_record(vseq, "vec", rng=rng)
            mrecs = [make_record(m, "mod{}".format(i), rng=rng) for i, m in enumerate(mseqs)]
            vector = vcls(vrec)
            modules = [mcls(r) for r in mrecs]
            rng.shuffle(modules)
            state = [describe(r) for r in [vrec] + mrecs]
            out("assemble", vcls.__name__, mcls.__name__, trial, outcome(vector.assemble, *modules, id="asm", name="asmn"))
            out("assemble-state", [describe(r) for r in [vrec] + mrecs] == state,
                hashlib.sha256(repr([describe(r) for r in [vrec] + mrecs]).encode()).hexdigest()[:16])
            if nmod > 1:
                out("assemble-missing", vcls.__name__, trial, outcome(vector.assemble, *modules[1:]))
                out("assemble-dup", vcls.__name__, trial, outcome(vector.assemble, modules[0], *modules))
            other = mcls(make_record(build_assembly_inputs(vcls, mcls, rng, 1)[1][0], "stray"))
            out("assemble-unused", vcls.__name__, trial, outcome(vector.assemble, other, *modules))
            out("assemble-selfvec", vcls.__name__, trial, outcome(vcls(make_record(build_assembly_inputs(
                vcls, mcls, rng, 0)[0], "self")).assemble, modules[0]))


def section_characterize(pool, rng):
    for base in (ytk.YTKPart, cidar.CIDARPart, ecoflex.EcoFlexPart, mk.MoCloPart):
        for name, seq in pool:
            if rng.random() < 0.35:
                rec = make_record(rotate(seq, rng.randrange(len(seq))), "c-" + name)
                out("characterize", base.__name__, name, outcome(base.characterize, rec))


def section_regex(rng):
    patterns = ["AA(NN)", "GGTCTCN(NNNN)(NN*N)(NNNN)NGAGACC", "(RY)(SW*)(KM)", "B(D)H(V)", "N(ACGT)N*?(TT)", "(A)?C(G)"]
    for pat in patterns:
        rx = DNARegex(pat)
        out("regex", pat, rx.pattern, rx.regex.pattern)
        for trial in range(12):
            n = rng.randint(4, 40)
            s = "".join(rng.choice("ACGTacgtN") for _ in range(n))
            if trial % 3 == 0:
                s = rotate(instantiate(pat.replace("?", ""), rng, 5) + s, rng.randrange(n))
            for kind in ("seq", "rec", "circ"):
                obj = {"seq": Seq(s), "rec": make_record(s, "s", circular=False), "circ": make_record(s, "s")}[kind]
                for linear in (True, False):
                    for pos, endpos in ((0, None), (2, None), (0, 3), (1, len(s) + 5)):
                        kw = {"linear": linear, "pos": pos}
                        if endpos is not None:
                            kw["endpos"] = endpos
                        try:
                            m = rx.search(obj, **kw)
                        except Exception as err:  # noqa
                            out("search", pat, s, kind, kw, "raise", type(err).__name__, err)
                            continue
                        if m is None:
                            out("search", pat, s, kind, sorted(kw.items()), None)
                            continue
                        groups = []
                        for g in range(rx.regex.groups + 1):
                            groups.append((m.span(g), outcome(m.group, g)))
                        out("search", pat, s, kind, sorted(kw.items()), m.start(), m.end(), m.span(), groups)
    out("search-type", outcome(DNARegex("NN").search, "ATGC"))
    out("search-type", outcome(DNARegex("NN").search, None))


def section_registries():
    from moclo.registry.ytk import YTKRegistry, PTKRegistry
    from moclo.registry.cidar import CIDARRegistry
    from moclo.registry.ecoflex import EcoFlexRegistry
    from moclo.registry.plant import PlantRegistry
    for factory in (YTKRegistry, PTKRegistry, CIDARRegistry, EcoFlexRegistry, PlantRegistry):
        registry = factory()
        for key in sorted(registry):
            item = registry[key]
            entity = item.entity
            res = [factory.__name__, key, item.name, item.resistance, type(entity).__name__, outcome(entity.is_valid)]
            for name in ("overhang_start", "overhang_end"):
                res.append(outcome(getattr(entity, name)))
            for name in ("target_sequence", "placeholder_sequence"):
                if hasattr(entity, name):
                    res.append(hashlib.sha256(outcome(getattr(entity, name)).encode()).hexdigest()[:16])
            out(*res)


def section_misc():
    for cls in (AbstractModule, AbstractVector, AbstractPart, Product, EntryVector):
        out("abstract", cls.__name__, outcome(cls, make_record("ATGC", "a")))
    out("blunt", outcome(type(str("B"), (Entry,), {"cutter": EcoRV}), make_record("ATGC", "a")))
    out("noseq", outcome(type(str("B"), (Entry,), {"cutter": BsaI}), None))
    out("noseq", outcome(type(str("B"), (Entry,), {"cutter": BsaI}), "ATGC"))
    import moclo.core as core
    out("all", sorted(core.__all__), [issubclass(getattr(core, n), getattr(core, m)) for n in sorted(core.__all__)
                                      for m in sorted(core.__all__)])
    for a in kit_classes():
        out("kit-bases", a.__name__, [b.__name__ for b in kit_classes() if issubclass(a, b)])


def main():
    rng = random.Random(20240404)
    classes = kit_classes() + generic_classes()
    section_structures(classes)
    pool = section_records(classes, rng)
    section_assemblies(rng)
    section_characterize(pool, rng)
    section_regex(rng)
    section_registries()
    section_misc()
    digest = hashlib.sha256("\n".join(LINES).encode("utf-8")).hexdigest()
    if len(sys.argv) > 1:
        with open(sys.argv[1], "w") as handle:
            handle.write("\n".join(LINES) + "\n")
    print("{} observations, digest {}".format(len(LINES), digest))


if __name__ == "__main__":
    main()
