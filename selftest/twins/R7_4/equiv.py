# coding: utf-8
"""Differential test: prints a digest that must be identical on the pristine
tree and on the refactored tree.  Run as

    cd /tmp/agentsR/R7 && /venv/bin/python refactor_out/<dir>/equiv.py
"""
import sys
import warnings

warnings.filterwarnings("ignore", category=UserWarning)
warnings.filterwarnings("ignore", category=DeprecationWarning)

sys.path.insert(0, "/tmp/agentsR/R7")
import tests  # noqa: E402,F401  (splices the kit packages into the moclo namespace)

import hashlib  # noqa: E402
import random  # noqa: E402

from Bio.Seq import Seq  # noqa: E402
from Bio.SeqFeature import SeqFeature, FeatureLocation, CompoundLocation  # noqa: E402
from Bio.SeqRecord import SeqRecord  # noqa: E402
from Bio import Restriction  # noqa: E402
from Bio.Restriction import BsaI, BpiI, BsmBI, BseRI, BtsI, SapI, EcoRV  # noqa: E402

from moclo import errors  # noqa: E402
from moclo.record import CircularRecord  # noqa: E402
from moclo.core.vectors import AbstractVector  # noqa: E402
from moclo.core.modules import AbstractModule  # noqa: E402
from moclo.core.parts import AbstractPart  # noqa: E402

RESULTS = []

IUPAC = {
    "A": "A", "C": "C", "G": "G", "T": "T",
    "B": "CGT", "D": "AGT", "H": "ACT", "K": "GT", "M": "AC", "N": "ACGT",
    "R": "AG", "S": "CG", "V": "ACG", "W": "AT", "Y": "CT",
}


# --- canonical description of results ---------------------------------------


def canon_location(loc):
    if loc is None:
        return None
    return repr(loc)


def canon_feature(feat):
    quals = sorted((str(k), repr(v)) for k, v in feat.qualifiers.items())
    return (feat.type, canon_location(feat.location), feat.id, quals)


def canon(obj, depth=0):
    """Return a deterministic, address-free description of `obj`."""
    if depth > 6:
        return "<deep>"
    if isinstance(obj, BaseException):
        extra = []
        for attr in ("details", "start_overhang"):
            if hasattr(obj, attr):
                extra.append((attr, canon(getattr(obj, attr), depth + 1)))
        for attr in ("duplicates", "remaining"):
            if hasattr(obj, attr):
                extra.append((attr, [canon(x, depth + 1) for x in getattr(obj, attr)]))
        try:
            msg = str(obj)
        except Exception as exc:  # the message itself can fail to render
            msg = ("<str failed>", type(exc).__name__, str(exc))
        return ("EXC", type(obj).__name__, msg, extra)
    if isinstance(obj, SeqRecord):
        return (
            "REC",
            type(obj).__name__,
            str(obj.seq),
            obj.id,
            obj.name,
            obj.description,
            sorted((str(k), repr(v)) for k, v in obj.annotations.items()),
            [canon_feature(f) for f in obj.features],
            list(obj.dbxrefs),
        )
    if isinstance(obj, Seq):
        return ("SEQ", str(obj))
    if isinstance(obj, (AbstractVector, AbstractModule, AbstractPart)):
        return ("ENT", type(obj).__name__, canon(obj.record, depth + 1))
    if isinstance(obj, (list, tuple)):
        return [canon(x, depth + 1) for x in obj]
    if isinstance(obj, dict):
        return sorted((repr(k), canon(v, depth + 1)) for k, v in obj.items())
    if isinstance(obj, type):
        return ("CLS", obj.__module__, obj.__name__)
    if obj is None or isinstance(obj, (bool, int, float, str, bytes)):
        return obj
    return ("OBJ", type(obj).__name__)


def attempt(label, func, *args, **kwargs):
    """Call `func`, recording either its result or the raised exception."""
    with warnings.catch_warnings(record=True) as caught:
        warnings.simplefilter("always")
        try:
            out = ("OK", canon(func(*args, **kwargs)))
        except Exception as exc:
            out = ("RAISED", canon(exc))
    warned = [
        (w.category.__name__, canon(w.message))
        for w in caught
        if isinstance(w.message, errors.MocloError)
    ]
    RESULTS.append((label, out, warned))
    return out


def finish():
    import re

    text = re.sub(r" at 0x[0-9a-fA-F]+", " at 0x?", repr(RESULTS))
    blob = text.encode("utf-8")
    print(len(RESULTS), "observations")
    print(hashlib.sha256(blob).hexdigest())


# --- generators ---------------------------------------------------------------


def rand_dna(rng, n, alphabet="ACGT"):
    return "".join(rng.choice(alphabet) for _ in range(n))


def instantiate(pattern, rng, filler=None, overhangs=None):
    """Generate a sequence matching a moclo structure pattern.

    ``N*`` is replaced by `filler` (random when `None`), the capture groups
    are dropped, IUPAC letters are drawn at random.  When `overhangs` is given
    it is a list of strings substituted, in order, for the capture groups that
    are made of 'N' only and have the same length.
    """
    overhangs = list(overhangs or [])
    out = []
    i = 0
    while i < len(pattern):
        c = pattern[i]
        if c == "(" and overhangs:
            j = pattern.find(")", i)
            inner = pattern[i + 1 : j] if j > 0 else ""
            if inner and set(inner) == {"N"} and len(inner) == len(overhangs[0]):
                out.append(overhangs.pop(0))
                i = j + 1
                continue
        if c in "()":
            i += 1
            continue
        if c == "N" and i + 1 < len(pattern) and pattern[i + 1] == "*":
            out.append(rand_dna(rng, rng.randint(0, 40)) if filler is None else filler)
            i += 2
            continue
        out.append(rng.choice(IUPAC.get(c, c)))
        i += 1
    return "".join(out)


def recase(rng, s):
    mode = rng.randint(0, 3)
    if mode == 0:
        return s
    if mode == 1:
        return s.lower()
    if mode == 2:
        return "".join(rng.choice((c.lower(), c.upper())) for c in s)
    return s[: len(s) // 2].lower() + s[len(s) // 2 :]


REFS = ["Lee et al. 2015", "Weber et al. 2011", "Iverson et al. 2016", "Moore 2016"]


def random_features(rng, n, with_citations=True):
    feats = []
    for k in range(rng.randint(0, 4)):
        if n < 2:
            break
        a = rng.randrange(0, n - 1)
        b = rng.randrange(a + 1, n + 1)
        quals = {"label": ["feat{}".format(k)]}
        if with_citations and rng.random() < 0.5:
            quals["citation"] = ["[{}]".format(rng.randint(1, 2))]
        if rng.random() < 0.2 and b < n - 1:
            c = rng.randrange(b, n - 1)
            d = rng.randrange(c + 1, n + 1)
            loc = CompoundLocation(
                [FeatureLocation(a, b, strand=1), FeatureLocation(c, d, strand=1)]
            )
        else:
            loc = FeatureLocation(a, b, strand=rng.choice((1, -1, None)))
        feats.append(SeqFeature(loc, type=rng.choice(("CDS", "misc_feature", "promoter")), qualifiers=quals))
    return feats


def make_record(rng, core, ident, rotate=True, kind=None, backbone=None, case=True):
    """Wrap `core` in a random backbone, rotate it and build a record."""
    if backbone is None:
        backbone = rand_dna(rng, rng.randint(0, 50))
    full = core + backbone
    if rotate and full:
        # rotation amounts may be negative or larger than the length
        k = rng.randint(-2 * len(full), 2 * len(full))
        k %= len(full)
        full = full[k:] + full[:k]
    if case:
        full = recase(rng, full)
    kind = kind or rng.choice(("circ",) * 20 + ("circ-ann",) * 6 + ("Circ-ann",) * 6 + ("linear", "plain-circ", "plain"))
    annotations = {"molecule_type": "DNA", "references": list(REFS[:2])}
    feats = random_features(rng, len(full))
    if kind == "circ":
        return CircularRecord(Seq(full), id=ident, name=ident, features=feats, annotations=annotations)
    if kind == "circ-ann":
        annotations["topology"] = "circular"
        return CircularRecord(Seq(full), id=ident, name=ident, features=feats, annotations=annotations)
    if kind == "Circ-ann":
        annotations["topology"] = "CIRCULAR"
        return CircularRecord(Seq(full), id=ident, name=ident, features=feats, annotations=annotations)
    if kind == "linear":
        annotations["topology"] = "linear"
        return SeqRecord(Seq(full), id=ident, name=ident, features=feats, annotations=annotations)
    if kind == "plain-circ":
        annotations["topology"] = "circular"
        return SeqRecord(Seq(full), id=ident, name=ident, features=feats, annotations=annotations)
    return SeqRecord(Seq(full), id=ident, name=ident, features=feats, annotations=annotations)


def usable_enzymes():
    """All the commercially known enzymes of Biopython, sorted by name."""
    return sorted(Restriction.AllEnzymes, key=str)


# =============================================================================

def all_subclasses(base):
    seen, todo = [], [base]
    while todo:
        cls = todo.pop()
        for sub in cls.__subclasses__():
            if sub not in seen:
                seen.append(sub)
                todo.append(sub)
    return sorted(seen, key=lambda c: (c.__module__, c.__name__))


def load_kits():
    import importlib

    for kit in ("cidar", "ecoflex", "moclo", "plant", "ytk"):
        try:
            importlib.import_module("moclo.kits.{}".format(kit))
        except ImportError:
            pass


def structure_of(cls):
    try:
        return cls.structure()
    except Exception:
        return None


from moclo.core import modules as core_modules, vectors as core_vectors  # noqa: E402
from moclo.regex import DNARegex  # noqa: E402


def random_signature(rng, enzyme):
    n = len(enzyme.ovhgseq or "") or rng.randint(1, 4)
    a = rand_dna(rng, n)
    b = rand_dna(rng, n)
    while b == a:
        b = rand_dna(rng, n)
    return (a, b)


def make_classes(rng, enzyme):
    """The classes whose structure is derived from `enzyme`."""
    sig = random_signature(rng, enzyme)
    name = str(enzyme)
    return [
        type("V" + name, (AbstractVector,), {"cutter": enzyme}),
        type("EV" + name, (core_vectors.EntryVector,), {"cutter": enzyme}),
        type("M" + name, (AbstractModule,), {"cutter": enzyme}),
        type("PM" + name, (AbstractPart, core_modules.Entry), {"cutter": enzyme, "signature": sig}),
        type("PV" + name, (AbstractPart, core_vectors.CassetteVector), {"cutter": enzyme, "signature": sig}),
        type("PVM" + name, (AbstractPart, core_vectors.CassetteVector, core_modules.Entry), {"cutter": enzyme, "signature": sig}),
        type("PMV" + name, (AbstractPart, core_modules.Entry, core_vectors.CassetteVector), {"cutter": enzyme, "signature": sig}),
        type("PN" + name, (AbstractPart,), {"cutter": enzyme, "signature": sig}),
        type("PU" + name, (AbstractPart, core_modules.Entry), {"cutter": enzyme}),
        type("P3" + name, (AbstractPart, core_modules.Entry), {"cutter": enzyme, "signature": sig + ("AC",)}),
        type("P1" + name, (AbstractPart, core_vectors.CassetteVector), {"cutter": enzyme, "signature": sig[:1]}),
        type("PS" + name, (AbstractPart, core_vectors.CassetteVector), {"cutter": enzyme, "signature": "AC"}),
        type("PL" + name, (AbstractPart, core_modules.Entry), {"cutter": enzyme, "signature": (sig[0].lower(), sig[1])}),
        type("PX" + name, (AbstractPart, core_modules.Entry), {"cutter": enzyme, "signature": (Seq(sig[0]), 5)}),
    ]


METHODS = ("is_valid", "overhang_start", "overhang_end", "target_sequence", "placeholder_sequence")


def exercise_entity(label, cls, record):
    out = attempt(label + ("new",), cls, record)
    if out[0] != "OK":
        return
    entity = cls(record)
    for method in METHODS:
        if hasattr(entity, method):
            attempt(label + (method,), getattr(entity, method))


def exercise_structures(rng, dense_every=3):
    garbage = make_record(rng, rand_dna(rng, 50), "garbage", kind="circ")
    for index, enzyme in enumerate(usable_enzymes()):
        for cls in make_classes(rng, enzyme):
            label = ("enz", str(enzyme), cls.__name__)
            out = attempt(label + ("structure",), cls.structure)
            attempt(label + ("regex",), lambda: cls._get_regex().pattern)
            if index % dense_every and str(enzyme) not in ("BsaI", "BpiI", "BsmBI", "BbsI", "SapI", "BseRI", "BtsI"):
                attempt(label + ("new-garbage",), cls, garbage)
                continue
            if out[0] != "OK":
                attempt(label + ("new-garbage",), cls, garbage)
                continue
            pattern = out[1]
            try:
                DNARegex(pattern)
            except Exception:
                attempt(label + ("new-garbage",), cls, garbage)
                continue
            for j in range(2):
                core = instantiate(pattern, rng, filler=rand_dna(rng, rng.randint(0, 25), "ACT"))
                rec = make_record(rng, core, "{}{}".format(cls.__name__, j), backbone=rand_dna(rng, rng.randint(0, 25), "ACT"))
                exercise_entity(label + (j,), cls, rec)
    # cutter not declared at all
    for bases in ((AbstractVector,), (AbstractModule,), (AbstractPart,), (AbstractPart, core_modules.Entry), (AbstractPart, core_vectors.EntryVector)):
        cls = type("NoCutter", bases, {})
        attempt(("nocutter", [b.__name__ for b in bases], "structure"), cls.structure)
        attempt(("nocutter", [b.__name__ for b in bases], "new"), cls, garbage)
        cls = type("NoCutterSigned", bases, {"signature": ("ATGC", "CGTA")})
        attempt(("nocutter-signed", [b.__name__ for b in bases], "structure"), cls.structure)
        attempt(("nocutter-signed", [b.__name__ for b in bases], "new"), cls, garbage)
    attempt(("abstract", "vector"), AbstractVector, garbage)
    attempt(("abstract", "module"), AbstractModule, garbage)
    attempt(("abstract", "part"), AbstractPart, garbage)
    attempt(("abstract", "vector-kw"), lambda: AbstractVector(record=garbage))
    attempt(("abstract", "vector-noarg"), AbstractVector)


def exercise_kit_structures(rng):
    from moclo.core._structured import StructuredRecord

    load_kits()
    for cls in all_subclasses(StructuredRecord):
        if not cls.__module__.startswith("moclo."):
            continue
        label = ("kit", cls.__module__, cls.__name__)
        out = attempt(label + ("structure",), cls.structure)
        if out[0] != "OK" or cls.cutter is NotImplemented:
            continue
        for j in range(3):
            core = instantiate(out[1], rng, filler=rand_dna(rng, rng.randint(0, 25), "ACT"))
            rec = make_record(rng, core, "{}{}".format(cls.__name__, j), backbone=rand_dna(rng, rng.randint(0, 25), "ACT"))
            exercise_entity(label + (j,), cls, rec)

# Refactoring R7_4: shared reverse_complement helper for the structure() methods.

rng = random.Random(7004)
exercise_structures(rng)
exercise_kit_structures(rng)

# the doctest of AbstractPart
ExamplePart = type("ExamplePart", (AbstractPart, core_modules.Entry), {"cutter": BsaI, "signature": ("ATGC", "ATTC")})
attempt("doc-example", ExamplePart.structure)

# the helper-level behaviour, through the public results only: mixed case and
# ambiguous signatures / enzymes with degenerate overhangs
for enzyme in (BsaI, BpiI, BseRI, SapI, Restriction.BstXI, Restriction.SfiI, Restriction.BglI, Restriction.EcoRI, Restriction.PstI):
    for sig in (("atgc", "cgta"), ("ATGC", "ATGC"), ("", ""), ("NNNN", "RYKM"), ("A^T", "C_G"), ("(", ")")):
        for bases in ((AbstractPart, core_modules.Entry), (AbstractPart, core_vectors.EntryVector)):
            cls = type("Sig", bases, {"cutter": enzyme, "signature": sig})
            attempt(("sig", str(enzyme), sig, bases[1].__name__), cls.structure)

finish()
