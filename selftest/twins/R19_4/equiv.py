# coding: utf-8
"""Differential test for the rewrite of `FilesystemRegistry` (_files, __iter__, __len__, __getitem__)."""
import sys

sys.path.insert(0, "/tmp/agentsR4/R19")
import tests  # noqa: E402,F401

import glob  # noqa: E402
import hashlib  # noqa: E402
import os  # noqa: E402
import random  # noqa: E402
import shutil  # noqa: E402
import tempfile  # noqa: E402
import warnings  # noqa: E402

warnings.simplefilter("ignore")

import fs  # noqa: E402
import fs.memoryfs  # noqa: E402
import fs.osfs  # noqa: E402

from moclo.core import AbstractPart, AbstractModule, AbstractVector  # noqa: E402
from moclo.kits import ytk  # noqa: E402
from moclo.record import CircularRecord  # noqa: E402
from moclo.registry.base import FilesystemRegistry, Item  # noqa: E402

ROOT = "/tmp/agentsR4/R19"
RESULTS = []
LOG = []


class LoggingFS(fs.memoryfs.MemoryFS):
    """A memory filesystem recording the calls the registry makes on it."""

    def scandir(self, path, namespaces=None, page=None):
        LOG.append(("scandir", path, namespaces, page))
        return super(LoggingFS, self).scandir(path, namespaces=namespaces, page=page)

    def isfile(self, path):
        LOG.append(("isfile", path))
        return super(LoggingFS, self).isfile(path)

    def getinfo(self, path, namespaces=None):
        LOG.append(("getinfo", path))
        return super(LoggingFS, self).getinfo(path, namespaces=namespaces)

    def openbin(self, path, mode="r", buffering=-1, **options):
        LOG.append(("openbin", path, mode))
        return super(LoggingFS, self).openbin(path, mode=mode, buffering=buffering, **options)


def take_log():
    log = list(LOG)
    del LOG[:]
    return log


def describe(value):
    if isinstance(value, Item):
        rec = value.entity.record
        return (
            "Item", value.id, value.name, value.resistance, type(value.entity).__name__,
            type(rec).__name__, rec.id, rec.name, rec.description, len(rec.seq),
            hashlib.md5(str(rec.seq).encode()).hexdigest(), len(rec.features),
        )
    if isinstance(value, (list, tuple)):
        return [describe(v) for v in value]
    if isinstance(value, (str, int, bool, type(None))):
        return value
    return type(value).__name__


def attempt(tag, func, *args, **kwargs):
    try:
        out = ("ok", func(*args, **kwargs))
    except BaseException as err:
        out = ("raise", type(err).__name__, str(err))
    RESULTS.append((tag, out if out[0] == "raise" else ("ok", describe(out[1])), take_log()))
    return out


class Formattable(object):
    def __format__(self, spec):
        LOG.append(("format", spec))
        return "pYTK002"

    def __str__(self):
        return "never used"

    def __repr__(self):
        return "Formattable()"


def populate(target, rng):
    paths = sorted(glob.glob(os.path.join(ROOT, "moclo-ytk", "registry", "ytk", "*.gb")))
    chosen = rng.sample(paths, 48)
    names = []
    for n, path in enumerate(chosen):
        with open(path) as handle:
            text = handle.read()
        ident = os.path.basename(path)[:-3]
        kind = n % 12
        if kind == 0 or kind == 1:
            fname = ident + ".gb"
        elif kind == 2:
            fname = ident + ".gbk"
        elif kind == 3:  # both extensions: the first configured one wins
            fname = ident + ".gb"
            target.writetext(ident + ".gbk", text.replace("DEFINITION  ", "DEFINITION  (gbk twin) "))
            names.append(ident + ".gbk")
        elif kind == 4:
            fname = ident + ".GB"
        elif kind == 5:
            fname = ident + ".v2.gb"  # dotted stem
        elif kind == 6:
            fname = ident + ".genbank"
        elif kind == 7:  # no resistance
            fname = "nores_" + ident + ".gb"
            for label in ("CmR", "AmpR", "KanR", "SpecR", "SmR"):
                text = text.replace('/label="{}"'.format(label), '/label="x"')
        elif kind == 8:  # two cassettes
            fname = "multi_" + ident + ".gb"
            for label in ("CmR", "AmpR", "SpecR", "SmR"):
                text = text.replace('/label="{}"'.format(label),
                                    '/label="{}"\n                     /label="KanR"'.format(label))
        elif kind == 9:  # broken content
            fname = "broken_" + ident + ".gb"
            text = rng.choice(["", text + text, "garbage\n", text[: len(text) // 2]])
        elif kind == 10:  # in a sub directory
            target.makedirs("sub", recreate=True)
            fname = "sub/" + ident + ".gb"
        else:
            fname = ident + ".txt"
        target.writetext(fname, text)
        names.append(fname)
    target.makedir("folder.gb")
    target.makedir("plain")
    target.writetext("noext", "nothing")
    target.writetext(".gb", "hidden")
    target.writetext("5.gb", "not genbank")
    target.writetext("None.gb", "not genbank")
    return names + ["folder.gb", "plain", "noext", ".gb", "5.gb", "None.gb"]


def exercise(tag, factory, names, rng):
    out = attempt((tag, "new"), factory)
    if out[0] != "ok":
        return
    registry = out[1]
    RESULTS.append((tag, "attrs", registry.base.__name__, registry._recurse,
                    repr(registry._extensions) if not hasattr(registry._extensions, "__next__") else "iterator"))
    attempt((tag, "len"), len, registry)
    attempt((tag, "list"), list, registry)
    attempt((tag, "sorted"), sorted, registry)
    # laziness of iteration
    iterator = attempt((tag, "iter"), iter, registry)[1]
    RESULTS.append((tag, "calls made by iter()", take_log()))
    attempt((tag, "next1"), next, iterator)
    attempt((tag, "next2"), next, iterator)
    attempt((tag, "close"), iterator.close)
    attempt((tag, "next after close"), next, iterator)

    stems = sorted({n.rsplit(".", 1)[0] for n in names} | {n for n in names})
    probes = stems + ["missing", "", "sub/", "/pYTK002", "../pYTK002", "sub/../pYTK002", "a/b/c",
                      5, None, ("t", 1), 2.5, Formattable(), b"pYTK002", "pYTK002.gb", "*", "p?TK002"]
    for probe in probes:
        shown = probe if isinstance(probe, (str, int, float, tuple, bytes, type(None))) else type(probe).__name__
        first = attempt((tag, "get", shown), registry.__getitem__, probe)
        if first[0] == "ok":
            again = registry[probe]
            take_log()
            RESULTS.append((tag, "fresh each time", again is not first[1],
                            isinstance(first[1].entity.record, CircularRecord)))
        attempt((tag, "in", shown), registry.__contains__, probe)
        attempt((tag, "get()", shown), registry.get, probe, "default")
    attempt((tag, "keys"), lambda: list(registry.keys()))
    attempt((tag, "values"), lambda: list(registry.values()))
    attempt((tag, "items"), lambda: [k for k, _ in registry.items()])
    attempt((tag, "len again"), len, registry)


class MyPart(ytk.YTKPart1):
    pass


def main():
    rng = random.Random(190004)
    memfs = LoggingFS()
    names = populate(memfs, rng)
    take_log()

    bases = [ytk.YTKPart, ytk.YTKPart1, ytk.YTKPart3a, ytk.YTKPart8, ytk.YTKEntryVector,
             ytk.YTKCassetteVector, MyPart, ytk.YTKCassette]
    for base_cls in bases:
        exercise(("base", base_cls.__name__), lambda: FilesystemRegistry(memfs, base_cls), names, rng)

    extension_sets = [
        ("gb", "gbk"), ("gbk", "gb"), ["gb"], ("gbk",), (), [], "gb", ("GB",), ("genbank", "txt"),
        ("v2.gb",), ("*",), ("g?",), ("gb", "gb"), ("", "gb"), (5, None), ("gb/", "gb"),
    ]
    for n, extensions in enumerate(extension_sets):
        exercise(("ext", n), lambda: FilesystemRegistry(memfs, ytk.YTKPart, extensions), names, rng)
        exercise(("extkw", n), lambda: FilesystemRegistry(memfs, ytk.YTKPart1, extensions=extensions), names, rng)
    # a one-shot iterator of extensions
    exercise(("ext", "generator"), lambda: FilesystemRegistry(memfs, ytk.YTKPart, (e for e in ("gb", "gbk"))), names, rng)
    exercise(("ext", "iter"), lambda: FilesystemRegistry(memfs, ytk.YTKPart, iter(["gbk", "gb"])), names, rng)

    # invalid bases
    for n, bad in enumerate([None, "YTKPart", ytk.YTKPart1.__mro__, object, int, CircularRecord,
                             ytk.YTKPart(None) if False else 3, AbstractPart, AbstractModule, AbstractVector,
                             (ytk.YTKPart1,), type]):
        attempt(("bad base", n), FilesystemRegistry, memfs, bad)

    # a sub directory opened on its own, and an empty filesystem
    exercise(("subdir",), lambda: FilesystemRegistry(memfs.opendir("sub"), ytk.YTKPart), names, rng)
    exercise(("empty",), lambda: FilesystemRegistry(LoggingFS(), ytk.YTKPart), ["x.gb"], rng)

    # a user-defined subclass overriding the iteration entry points
    class Prefixed(FilesystemRegistry):
        def __iter__(self):
            for key in super(Prefixed, self).__iter__():
                if key.startswith("pYTK0"):
                    yield key

    exercise(("subclass",), lambda: Prefixed(memfs, ytk.YTKPart), names, rng)

    # a real directory given by URL and by path
    work = tempfile.mkdtemp(prefix="r19_4_")
    try:
        with fs.osfs.OSFS(work) as target:
            populate(target, random.Random(190004))
        for n, url in enumerate([work, "osfs://" + work, fs.osfs.OSFS(work)]):
            exercise(("osfs", n), lambda: FilesystemRegistry(url, ytk.YTKPart), names, rng)
        out = attempt(("osfs", "missing"), FilesystemRegistry, os.path.join(work, "does-not-exist"), ytk.YTKPart)
        RESULTS[-1] = (RESULTS[-1][0], tuple(str(x).replace(work, "<WORK>") for x in RESULTS[-1][1]), RESULTS[-1][2])
        # a closed filesystem
        closed = LoggingFS()
        closed.writetext("a.gb", "x")
        registry = FilesystemRegistry(closed, ytk.YTKPart)
        closed.close()
        for op in (len, list, lambda r: r["a"], lambda r: "a" in r):
            attempt(("closed",), op, registry)
    finally:
        shutil.rmtree(work, ignore_errors=True)

    text = repr(RESULTS).replace(work, "<WORK>")
    digest = hashlib.sha256(text.encode("utf-8")).hexdigest()
    print(len(RESULTS), digest)


if __name__ == "__main__":
    main()
