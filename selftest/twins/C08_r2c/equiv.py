"""C08 differential test: digest of the observable behaviour of the code the
pull request touches (rotation, slicing, target / placeholder sequences,
assembly incl. failing ones, citations, warnings, state of the inputs
afterwards), through the existing API, on a few hundred generated inputs.
"""
import copy
import hashlib
import random
import sys
import warnings

sys.path.insert(0, "/tmp/agents7/C08")
import tests  # noqa: F401,E402  (splices the kits into the moclo namespace)

from Bio.Restriction import BsaI, BpiI, BsmBI, SapI  # noqa: E402
from Bio.Seq import Seq  # noqa: E402
from Bio.SeqFeature import SeqFeature, FeatureLocation, CompoundLocation  # noqa: E402

from moclo.record import CircularRecord  # noqa: E402
from moclo.core.modules import AbstractModule  # noqa: E402
from moclo.core.vectors import AbstractVector  # noqa: E402


def revcomp(s):
    return str(Seq(s).reverse_complement())


ENZYMES = {}
for _enz in (BsaI, BpiI, BsmBI, SapI):
    _site, _rest = _enz.elucidate().split("N", 1)[0], _enz.elucidate()
    _gap = _rest[len(_site):].index("^")
    _ovh = abs(_enz.ovhg)
    ENZYMES[_enz.__name__] = (
        _enz,
        _site,
        _gap,
        _ovh,
        type(str("V" + _enz.__name__), (AbstractVector,), {"cutter": _enz}),
        type(str("M" + _enz.__name__), (AbstractModule,), {"cutter": _enz}),
    )

ALL_SITES = set()
for _e, _site, _g, _o, _v, _m in ENZYMES.values():
    ALL_SITES.add(_site)
    ALL_SITES.add(revcomp(_site))


def clean_dna(rng, n):
    """Random DNA of length n without any recognition site of the enzymes."""
    while True:
        s = "".join(rng.choice("ACGT") for _ in range(n))
        if not any(site in s for site in ALL_SITES):
            return s


def joined_ok(s):
    d = (s + s).upper()
    return d


def overhangs(rng, count, size):
    """`count` distinct overhangs, none palindromic, none revcomp of another."""
    chosen = []
    while len(chosen) < count:
        o = "".join(rng.choice("ACGT") for _ in range(size))
        if o == revcomp(o) or o in chosen or revcomp(o) in chosen:
            continue
        chosen.append(o)
    return chosen


def random_case(rng, s):
    return "".join(c.lower() if rng.random() < 0.3 else c for c in s)


# --- features in "logical" coordinates ---------------------------------------
# A logical feature is (type, qualifiers, strand, [(a, b), ...]) with
# 0 <= a < b <= L on the unrotated input and the pieces listed in 5'->3'
# order of the *plus* strand.

def random_pieces(rng, lo, hi, max_parts=3):
    """Increasing, non overlapping pieces inside [lo, hi)."""
    n = rng.choice([1, 1, 1, 2, 3][:max_parts + 2])
    if hi - lo < 2 * n:
        n = 1
    cuts = sorted(rng.sample(range(lo, hi + 1), 2 * n))
    return [(cuts[2 * i], cuts[2 * i + 1]) for i in range(n)]


QUALS = [
    lambda rng, i: {"label": ["feat%d" % i]},
    lambda rng, i: {"gene": ["g%d" % i], "note": ["n%d" % rng.randrange(100), "x"]},
    lambda rng, i: {"label": ["f%d" % i], "codon_start": ["1"], "translation": ["MK%d" % i]},
    lambda rng, i: {},
]
TYPES = ["CDS", "promoter", "misc_feature", "terminator", "rep_origin", "primer_bind", "source"]


def logical_features(rng, length, frag_lo, frag_hi, count):
    """Features all over an unrotated input whose retained fragment is the
    clockwise interval [frag_lo, frag_hi) (frag_hi may exceed length)."""
    feats = []
    for i in range(count):
        kind = rng.randrange(8)
        span = frag_hi - frag_lo
        if kind == 0:      # anywhere on the plasmid (may or may not be retained)
            lo = rng.randrange(length)
            hi = lo + rng.randrange(2, max(3, length // 2))
        elif kind == 1:    # inside the fragment
            lo = frag_lo + rng.randrange(0, max(1, span - 2))
            hi = rng.randrange(lo + 2, frag_hi + 1) if frag_hi - lo > 2 else frag_hi
        elif kind == 2:    # touching the fragment start
            lo, hi = frag_lo, frag_lo + rng.randrange(2, span + 1)
        elif kind == 3:    # touching the fragment end
            hi = frag_hi
            lo = frag_hi - rng.randrange(2, span + 1)
        elif kind == 4:    # the whole fragment
            lo, hi = frag_lo, frag_hi
        elif kind == 5:    # sticking out on the left
            lo = frag_lo - rng.randrange(1, 6)
            hi = frag_lo + rng.randrange(2, max(3, span))
        elif kind == 6:    # sticking out on the right
            hi = frag_hi + rng.randrange(1, 6)
            lo = frag_hi - rng.randrange(2, max(3, span))
        else:              # abutting the previous feature / nested in it
            if feats:
                plo, phi = feats[-1][3][0][0], feats[-1][3][-1][1]
                if rng.random() < 0.5 and phi - plo > 3:
                    lo = rng.randrange(plo, phi - 2)
                    hi = rng.randrange(lo + 2, phi + 1)
                else:
                    lo, hi = phi, phi + rng.randrange(2, 12)
            else:
                lo, hi = frag_lo, frag_hi
        if hi - lo < 2:
            hi = lo + 2
        if hi - lo >= length:
            hi = lo + length - 1
        pieces = random_pieces(rng, lo, hi)
        if kind in (2, 4, 5):
            pieces[0] = (lo, pieces[0][1])
        if kind in (3, 4, 6):
            pieces[-1] = (pieces[-1][0], hi)
        strand = rng.choice([1, -1, 1, -1, None])
        ftype = rng.choice(TYPES)
        quals = rng.choice(QUALS)(rng, i)
        feats.append((ftype, quals, strand, pieces))
    return feats


def to_location(pieces, strand, length, rot):
    """Biopython location of the logical pieces on the input rotated so that
    logical position `rot` is the new origin (own implementation)."""
    parts = []
    for a, b in pieces:
        a2, b2 = (a - rot) % length, (b - rot) % length
        if b2 == 0:
            b2 = length
        if a2 < b2:
            parts.append([(a2, b2)])
        else:  # spans the origin: split
            parts.append([(a2, length), (0, b2)])
    if strand == -1:
        flat = [p for piece in reversed(parts) for p in reversed(piece)]
    else:
        flat = [p for piece in parts for p in piece]
    locs = [FeatureLocation(a, b, strand=strand) for a, b in flat]
    return locs[0] if len(locs) == 1 else CompoundLocation(locs)


def denoted(location, length):
    """Ordered nucleotides (position modulo length, strand) a location denotes."""
    out = []
    for part in location.parts:
        rng_ = range(int(part.start), int(part.end))
        if part.strand == -1:
            rng_ = reversed(rng_)
        out.extend((p % length, part.strand) for p in rng_)
    return tuple(out)


def freeze(quals):
    return tuple(sorted((k, tuple(v) if isinstance(v, list) else v) for k, v in quals.items()))


class Element(object):
    """An input record together with the bookkeeping needed by the oracle."""

    def __init__(self, rng, name, seq, frag_lo, frag_hi, nfeat, mixed_case):
        self.length = length = len(seq)
        self.frag_lo, self.frag_hi = frag_lo, frag_hi
        self.rot = rng.choice([0, 0, frag_lo % length, frag_hi % length, (frag_lo + 1) % length,
                               rng.randrange(length), rng.randrange(length), rng.randrange(length)])
        self.logical = logical_features(rng, length, frag_lo, frag_hi, nfeat)
        rseq = seq[self.rot:] + seq[:self.rot]
        if mixed_case:
            rseq = random_case(rng, rseq)
        feats = [
            SeqFeature(to_location(pieces, strand, length, self.rot), type=t, qualifiers=copy.deepcopy(q))
            for t, q, strand, pieces in self.logical
        ]
        self.record = CircularRecord(Seq(rseq), id=name, name=name, features=feats)
        self.seq = rseq

    def expected(self, offset, product_length):
        """Images, in the product, of the input features lying in the fragment."""
        out = []
        size = self.frag_hi - self.frag_lo
        for feature in self.record.features:
            image = []
            for pos, strand in denoted(feature.location, self.length):
                rel = (pos + self.rot - self.frag_lo) % self.length
                if rel >= size:
                    image = None
                    break
                image.append(((offset + rel) % product_length, strand))
            if image is not None:
                out.append((feature.type, freeze(feature.qualifiers), tuple(image)))
        return out


def build_case(rng):
    ename = rng.choice(sorted(ENZYMES))
    enz, site, gap, ovh, VCls, MCls = ENZYMES[ename]
    mixed = rng.random() < 0.25
    nmod = rng.choice([1, 1, 2, 2, 3])
    ovhs = overhangs(rng, nmod + 1, ovh)
    rsite = revcomp(site)
    # vector (unrotated): pre + n + ovhE + gap + rsite + dropout + site + gap + ovhS + n + post
    pre, post = clean_dna(rng, rng.randrange(8, 40)), clean_dna(rng, rng.randrange(8, 40))
    drop = clean_dna(rng, rng.randrange(0, 25))
    g1, g2 = clean_dna(rng, gap), clean_dna(rng, gap)
    vseq = pre + ovhs[0] + g1 + rsite + drop + site + g2 + ovhs[-1] + post
    if any(joined_ok(vseq).count(s) != 2 for s in (site, rsite)) and site != rsite:
        return build_case(rng)
    v_lo = len(pre) + len(ovhs[0]) + gap + len(rsite) + len(drop) + len(site) + gap  # overhang_start
    v_hi = len(vseq) + len(pre)  # up to (not including) overhang_end
    vector = Element(rng, "vec", vseq, v_lo, v_hi, rng.randrange(3, 12), mixed)
    modules = []
    for i in range(nmod):
        a, b = clean_dna(rng, rng.randrange(4, 30)), clean_dna(rng, rng.randrange(4, 30))
        insert = clean_dna(rng, rng.randrange(2, 40))
        h1, h2 = clean_dna(rng, gap), clean_dna(rng, gap)
        mseq = a + site + h1 + ovhs[i] + insert + ovhs[i + 1] + h2 + rsite + b
        if any(joined_ok(mseq).count(s) != 2 for s in (site, rsite)):
            return build_case(rng)
        m_lo = len(a) + len(site) + gap
        m_hi = m_lo + ovh + len(insert)
        modules.append(Element(rng, "mod%d" % i, mseq, m_lo, m_hi, rng.randrange(2, 10), mixed))
    return ename, VCls, MCls, vector, modules



from Bio.SeqFeature import Reference, BeforePosition, AfterPosition  # noqa: E402
from Bio.SeqRecord import SeqRecord  # noqa: E402


def show_feature(f):
    return (f.type, f.id, str(f.location), type(f.location).__name__,
            getattr(f.location, "operator", None),
            sorted((k, repr(v)) for k, v in f.qualifiers.items()))


def show_annotations(ann):
    out = []
    for k, v in sorted(ann.items()):
        if k == "references":
            v = [(r.title, r.authors) for r in v]
        out.append((k, repr(v)))
    return out


def show_record(r):
    return (type(r).__name__, str(r.seq), r.id, r.name, r.description, list(r.dbxrefs),
            [show_feature(f) for f in r.features], show_annotations(r.annotations),
            sorted((k, repr(v)) for k, v in r.letter_annotations.items()))


def attempt(func, *args, **kwargs):
    with warnings.catch_warnings(record=True) as caught:
        warnings.simplefilter("always")
        try:
            res = func(*args, **kwargs)
            if isinstance(res, SeqRecord):
                res = show_record(res)
            elif isinstance(res, Seq):
                res = ("Seq", str(res))
            out = ("ok", res)
        except Exception as err:  # noqa
            out = ("raised", type(err).__name__, str(err)[:300])
    return out, [(w.category.__name__, str(w.message)) for w in caught
                 if "pkg_resources" not in str(w.message)]


def add_citations(rng, element):
    refs = []
    for i in range(rng.randrange(1, 4)):
        ref = Reference()
        ref.title = "%s paper %d" % (element.record.id, i)
        ref.authors = "A%d" % rng.randrange(3)
        refs.append(ref)
    element.record.annotations["references"] = refs
    for f in element.record.features:
        if rng.random() < 0.4:
            f.qualifiers["citation"] = ["[%d]" % rng.randrange(1, len(refs) + 1)]
    if rng.random() < 0.1 and element.record.features:
        element.record.features[0].qualifiers["citation"] = ["(1)"]  # invalid


def case_digest(seed):
    rng = random.Random(92000 + seed)
    out = []
    ename, VCls, MCls, vector, modules = build_case(rng)
    elements = [vector] + modules
    for e in elements:
        e.record.letter_annotations["phred_quality"] = [rng.randrange(40) for _ in range(e.length)]
        e.record.dbxrefs = ["db:%s" % e.record.id]
        e.record.description = "desc " + e.record.id
        if rng.random() < 0.5:
            e.record.annotations["topology"] = "circular"
            e.record.annotations["molecule_type"] = "DNA"
        if rng.random() < 0.3:
            add_citations(rng, e)
        if rng.random() < 0.2:
            L = e.length  # whole-length source feature as found in GenBank files
            e.record.features.insert(0, SeqFeature(FeatureLocation(0, L, strand=1), type="source",
                                                   qualifiers={"organism": ["x"]}))
        if rng.random() < 0.15:
            L = e.length  # denormalised locations (past the end of the record)
            a = rng.randrange(L)
            e.record.features.append(SeqFeature(FeatureLocation(a + L, a + L + 3, strand=-1), type="misc_feature",
                                                qualifiers={"label": ["beyond"]}))
            e.record.features.append(SeqFeature(FeatureLocation(L - 2, L + 3, strand=1), type="misc_feature",
                                                qualifiers={"label": ["across"]}))
        if rng.random() < 0.2:
            L = e.length  # 'order' operator, fuzzy ends, feature ids
            a, b, c, d = sorted(rng.sample(range(L + 1), 4))
            e.record.features.append(SeqFeature(
                CompoundLocation([FeatureLocation(a, b, strand=1), FeatureLocation(c, d, strand=1)], "order"),
                type="misc_feature", id="ordered", qualifiers={"label": ["ordered"]}))
            e.record.features.append(SeqFeature(
                FeatureLocation(BeforePosition(a), AfterPosition(c), strand=-1),
                type="misc_feature", id="fuzzy", qualifiers={"label": ["fuzzy"]}))
    # --- rotations and slices of the raw records
    for e in elements:
        for k in (0, 1, -1, e.length, e.length + 3, rng.randrange(-2 * e.length, 2 * e.length)):
            out.append(("rshift", k, attempt(lambda: e.record >> k)))
            out.append(("lshift", k, attempt(lambda: e.record << k)))
        a, b = sorted(rng.sample(range(e.length + 1), 2))
        out.append(("slice", attempt(lambda: e.record[a:b])))
        out.append(("slice-open", attempt(lambda: (e.record << a)[b - a:])))
        out.append(("revcomp", attempt(lambda: e.record.reverse_complement())))
    # --- structured records
    v = VCls(vector.record)
    ms = [MCls(m.record) for m in modules]
    for s in [v] + ms:
        for meth in ("overhang_start", "overhang_end", "target_sequence", "is_valid"):
            out.append((meth, attempt(getattr(s, meth))))
    out.append(("placeholder", attempt(v.placeholder_sequence)))
    # wrong way round: the vector as a module, modules as vectors
    out.append(("vec-as-mod", attempt(MCls(vector.record).target_sequence)))
    out.append(("mod-as-vec", attempt(VCls(modules[0].record).target_sequence)))
    # plain SeqRecord input (not circular)
    plain = SeqRecord(modules[0].record.seq, id="plain", features=copy.deepcopy(modules[0].record.features))
    out.append(("plain-target", attempt(MCls(plain).target_sequence)))
    out.append(("plain-assemble", attempt(v.assemble, MCls(plain), *ms[1:])))
    lin = SeqRecord(vector.record.seq, id="lin", annotations={"topology": "linear"})
    out.append(("linear-vector", attempt(VCls(lin).assemble, *ms)))
    # --- assemblies
    order = list(ms)
    rng.shuffle(order)
    out.append(("assemble", attempt(v.assemble, *order)))
    out.append(("assemble-named", attempt(v.assemble, *order, id="X1", name="construct")))
    out.append(("assemble-again", attempt(v.assemble, *ms)))
    if len(ms) > 1:
        out.append(("missing", attempt(v.assemble, *ms[1:])))
        out.append(("missing-last", attempt(v.assemble, *ms[:-1])))
    out.append(("duplicate", attempt(v.assemble, *(ms + [MCls(modules[0].record)]))))
    # an unused module: its overhangs are unknown to the others
    e2, V2, M2, vec2, mods2 = build_case(random.Random(555 + seed))
    if e2 == ename:
        out.append(("unused", attempt(v.assemble, *(ms + [MCls(mods2[0].record)]))))
        out.append(("foreign-vector", attempt(V2(vec2.record).assemble, *ms)))
    else:
        out.append(("other-enzyme", attempt(v.assemble, *(ms + [MCls(mods2[0].record)]))))
    # second level: the product as the module of another reaction is not
    # possible in general, but it can be rotated and cut again
    res = None
    try:
        with warnings.catch_warnings():
            warnings.simplefilter("ignore")
            res = v.assemble(*ms)
    except Exception:  # noqa
        pass
    if res is not None:
        k = rng.randrange(len(res))
        out.append(("product-rot", attempt(lambda: res >> k)))
        out.append(("product-cut", attempt(lambda: (res << k)[: len(res) // 2])))
    # --- state of the inputs afterwards
    out.append(("inputs", [show_record(e.record) for e in elements]))
    return repr(out)


def main():
    digest = hashlib.sha256()
    counts = {}
    for seed in range(260):
        text = case_digest(seed)
        digest.update(text.encode("utf-8"))
        for key in ("'ok'", "'raised'", "UnusedModules", "MissingModule", "DuplicateModules",
                    "InvalidSequence", "TypeError", "ValueError"):
            counts[key] = counts.get(key, 0) + text.count(key)
    print("cases: 260", " ".join("%s=%d" % kv for kv in sorted(counts.items())))
    print("digest:", digest.hexdigest())


if __name__ == "__main__":
    main()
